import Model.U128
/-! C01, translator tie: a proof script for the 128-bit shifts that does not depend on how the Go code arranges the
    regions of the shift count (`Props/C01Gen.lean`, fallback of `Uint128_LeftShift_eq` / `Uint128_RightShift_eq`). -/
namespace GenTieShift
abbrev W := BitVec 64
theorem sub64_toNat (n : W) (h : 64 ≤ n.toNat) : (n - 64#64).toNat = n.toNat - 64 := by
  have := n.isLt; simp only [BitVec.toNat_sub, BitVec.toNat_ofNat]; omega
theorem rsub64_toNat (n : W) (h : n.toNat ≤ 64) : (64#64 - n).toNat = 64 - n.toNat := by
  have := n.isLt; simp only [BitVec.toNat_sub, BitVec.toNat_ofNat]; omega
theorem shl_ge (x : W) (k : Nat) (h : 64 ≤ k) : x <<< k = 0#64 := BitVec.shiftLeft_eq_zero h
theorem shr_ge (x : W) (k : Nat) (h : 64 ≤ k) : x >>> k = 0#64 := BitVec.ushiftRight_eq_zero h
end GenTieShift

/-- `shift_tie [definitions] on n`: a 128-bit shift by the count `n`, restructured: decide the four regions of the count
    (0, below 64, exactly 64, above 64 — and above 128) separately; in each the word shifts are by known amounts -/
syntax "shift_tie" "[" Lean.Parser.Tactic.simpLemma,* "]" " on " term : tactic
macro_rules
  | `(tactic| shift_tie [$ls,*] on $n) => `(tactic|
    (have hlt := BitVec.isLt $n
     simp only [$ls,*, U128.shl, U128.shr]
     by_cases h0 : BitVec.toNat $n = 0
     · simp [h0, GenTieShift.shl_ge, GenTieShift.shr_ge]
     · by_cases hl : BitVec.toNat $n < 64
       · have e := GenTieShift.rsub64_toNat $n (by omega)
         have a1 : ¬ BitVec.toNat $n ≥ 64 := by omega
         have a2 : ¬ BitVec.toNat $n > 64 := by omega
         simp [h0, hl, e, a1, a2]
       · by_cases he : BitVec.toNat $n = 64
         · have e1 := GenTieShift.sub64_toNat $n (by omega)
           have e2 := GenTieShift.rsub64_toNat $n (by omega)
           simp [he, e1, e2] at *
         · have e1 := GenTieShift.sub64_toNat $n (by omega)
           have a1 : BitVec.toNat $n ≥ 64 := by omega
           have a2 : BitVec.toNat $n > 64 := by omega
           have a3 : ¬ BitVec.toNat $n < 64 := by omega
           by_cases hb : BitVec.toNat $n - 64 < 64
           · simp [h0, a1, a2, a3, e1, hb]
           · have z1 : ∀ x : BitVec 64, x <<< (BitVec.toNat $n - 64) = 0#64 := fun x => GenTieShift.shl_ge x _ (by omega)
             have z2 : ∀ x : BitVec 64, x >>> (BitVec.toNat $n - 64) = 0#64 := fun x => GenTieShift.shr_ge x _ (by omega)
             simp [h0, a1, a2, a3, e1, hb, z1, z2]))

