import Lemmas.EvenOdd
import Lemmas.EvenOddOutside
import Lemmas.EvenOddEmpty
import Mathlib.Data.Rat.Floor
import Mathlib.Algebra.Order.Floor.Ring

/-! C05: the lattice verdict at EVERY rational point.

`Lemmas/EvenOdd.lean` proves that on a rectilinear lattice polygon `inside` is constant on every OPEN unit cell.  With
the half-open crossing rule (`min a.y b.y ≤ p.y < max a.y b.y`, `p.x < edge abscissa`) the same is true on the
HALF-OPEN cell `[i,i+1)×[j,j+1)`: a point on a lattice line (or on an edge, or a lattice point) is classified like the
cell to its upper right.  Every rational point lies in exactly one half-open cell (`⌊p.x⌋, ⌊p.y⌋`), so the `N²` cell
centres decide the whole plane: inside the square by the cell check, outside it because nothing is inside there. -/

namespace EOQ

/-- the half-open unit cell `[i,i+1)×[j,j+1)` -/
def InCellHO (i j : ℤ) (p : QPt) : Prop := (i : ℚ) ≤ p.x ∧ p.x < i + 1 ∧ (j : ℚ) ≤ p.y ∧ p.y < j + 1

theorem inCell_inCellHO (i j : ℤ) (p : QPt) (h : InCell i j p) : InCellHO i j p :=
  ⟨h.1.le, h.2.1, h.2.2.1.le, h.2.2.2⟩

theorem centre_inCellHO (i j : ℤ) : InCellHO i j (centre i j) := inCell_inCellHO i j _ (centre_inCell i j)

/-- every rational point lies in the half-open cell of its floors -/
theorem inCellHO_floor (p : QPt) : InCellHO ⌊p.x⌋ ⌊p.y⌋ p :=
  ⟨Int.floor_le p.x, Int.lt_floor_add_one p.x, Int.floor_le p.y, Int.lt_floor_add_one p.y⟩

theorem int_le_iff' (n j : ℤ) (q : ℚ) (h1 : (j : ℚ) ≤ q) (h2 : q < j + 1) : (n : ℚ) ≤ q ↔ n ≤ j := by
  constructor
  · intro h
    have : (n : ℚ) < (j : ℚ) + 1 := lt_of_le_of_lt h h2
    have : (n : ℚ) < ((j + 1 : ℤ) : ℚ) := by push_cast; exact this
    have := Int.cast_lt.mp this
    omega
  · intro h
    have : (n : ℚ) ≤ (j : ℚ) := Int.cast_le.mpr h
    linarith

theorem lt_int_iff' (n j : ℤ) (q : ℚ) (h1 : (j : ℚ) ≤ q) (h2 : q < j + 1) : q < (n : ℚ) ↔ j + 1 ≤ n := by
  constructor
  · intro h
    have : (j : ℚ) < (n : ℚ) := lt_of_le_of_lt h1 h
    have := Int.cast_lt.mp this
    omega
  · intro h
    have : ((j + 1 : ℤ) : ℚ) ≤ (n : ℚ) := Int.cast_le.mpr h
    push_cast at this
    linarith

/-- the crossing test of a lattice edge gives the same answer at every point of a HALF-OPEN cell -/
theorem crosses_constHO (a b p q : QPt) (i j : ℤ) (he : LatticeEdge a b) (hp : InCellHO i j p)
    (hq : InCellHO i j q) : crosses a b p ↔ crosses a b q := by
  obtain ⟨⟨ax, hax⟩, ⟨ay, hay⟩, ⟨bx, hbx⟩, ⟨by_, hby⟩, hr⟩ := he
  unfold crosses
  by_cases hh : a.y = b.y
  · simp [hh]
  · have hv : a.x = b.x := hr.resolve_right hh
    have hx : ∀ y : ℚ, a.x + (y - a.y) * (b.x - a.x) / (b.y - a.y) = a.x := by
      intro y; rw [hv]; simp
    simp only [hx, ne_eq, hh, not_false_eq_true, true_and]
    obtain ⟨p1, p2, p3, p4⟩ := hp
    obtain ⟨q1, q2, q3, q4⟩ := hq
    have hmin : ∃ n : ℤ, min a.y b.y = n := by
      rcases le_total a.y b.y with h | h
      · exact ⟨ay, by rw [min_eq_left h, hay]⟩
      · exact ⟨by_, by rw [min_eq_right h, hby]⟩
    have hmax : ∃ n : ℤ, max a.y b.y = n := by
      rcases le_total a.y b.y with h | h
      · exact ⟨by_, by rw [max_eq_right h, hby]⟩
      · exact ⟨ay, by rw [max_eq_left h, hay]⟩
    obtain ⟨lo, hlo⟩ := hmin
    obtain ⟨hi, hhi⟩ := hmax
    rw [hlo, hhi, hax]
    rw [int_le_iff' lo j p.y p3 p4, int_le_iff' lo j q.y q3 q4, lt_int_iff' hi j p.y p3 p4,
      lt_int_iff' hi j q.y q3 q4, lt_int_iff' ax i p.x p1 p2, lt_int_iff' ax i q.x q1 q2]

/-- on a rectilinear lattice polygon the even-odd test is constant on every half-open unit cell -/
theorem inside_constHO (P : QPolygon) (hP : LatticeRectilinear P) (i j : ℤ) (p : QPt) (hp : InCellHO i j p) :
    inside P p ↔ inside P (centre i j) := by
  unfold inside crossCount
  have : (EO.allEdges P).countP (fun e => decide (crosses e.1 e.2 p)) =
         (EO.allEdges P).countP (fun e => decide (crosses e.1 e.2 (centre i j))) := by
    apply List.countP_congr
    intro e he
    have := crosses_constHO e.1 e.2 p (centre i j) i j (hP e he) hp (centre_inCellHO i j)
    simp [this]
  rw [this]

/-- nothing is inside at a point outside the half-open square `[0,N)²` -/
theorem outside_not_insideHO (N : ℚ) (P : QPolygon) (hP : InSquareRect N P) (p : QPt)
    (hout : p.x < 0 ∨ N ≤ p.x ∨ p.y < 0 ∨ N ≤ p.y) : ¬ inside P p := by
  rcases hout with hx | hx | hy | hy
  · exact outside_not_inside N P hP p (Or.inl hx)
  · apply not_inside_of_no_cross
    intro e he
    obtain ⟨hr, _, h2, _, _, _, _⟩ := hP e he
    rw [crosses_rect _ _ _ hr]
    rintro ⟨_, _, _, h⟩; linarith
  · exact outside_not_inside N P hP p (Or.inr (Or.inr (Or.inl hy)))
  · apply not_inside_of_no_cross
    intro e he
    obtain ⟨hr, _, _, _, h4, _, h6⟩ := hP e he
    rw [crosses_rect _ _ _ hr]
    rintro ⟨_, _, h, _⟩
    have : max e.1.y e.2.y ≤ N := max_le h4 h6
    linarith

/-- the cell loop of `EO.regionEmpty`, one cell -/
theorem regionEmpty_cell (N : Nat) (A2 B2 : EO.Polygon) (op : EO.Op) (h : EO.regionEmpty N A2 B2 op = true)
    (i j : Nat) (hi : i < N) (hj : j < N) :
    op.apply (EO.inside A2 (EO.centre2 i j)) (EO.inside B2 (EO.centre2 i j)) = false := by
  unfold EO.regionEmpty at h
  simp only at h
  rw [List.all_eq_true] at h
  have h1 := h j (List.mem_range.mpr hj)
  rw [List.all_eq_true] at h1
  have h2 := h1 i (List.mem_range.mpr hi)
  have hy : (EO.centre2 i j).y = 2 * (j : Int) + 1 := rfl
  rw [← hy, insideE_filter, insideE_filter, EO.insideE_allEdges, EO.insideE_allEdges] at h2
  simpa using h2

/-- conversely: if the combination is false at every cell centre, `EO.regionEmpty` answers `true` -/
theorem regionEmpty_of_cells (N : Nat) (A2 B2 : EO.Polygon) (op : EO.Op)
    (h : ∀ i j : Nat, i < N → j < N →
      op.apply (EO.inside A2 (EO.centre2 i j)) (EO.inside B2 (EO.centre2 i j)) = false) :
    EO.regionEmpty N A2 B2 op = true := by
  unfold EO.regionEmpty
  simp only
  rw [List.all_eq_true]
  intro j hj
  rw [List.all_eq_true]
  intro i hi
  have hy : (EO.centre2 i j).y = 2 * (j : Int) + 1 := rfl
  rw [← hy, insideE_filter, insideE_filter, EO.insideE_allEdges, EO.insideE_allEdges]
  simp [h i j (List.mem_range.mp hi) (List.mem_range.mp hj)]

/-- every rational point lies in a half-open cell of `[0,N)²` or outside that square -/
theorem floor_cases (N : Nat) (p : QPt) :
    (∃ i j : Nat, i < N ∧ j < N ∧ InCellHO i j p) ∨ (p.x < 0 ∨ (N : ℚ) ≤ p.x ∨ p.y < 0 ∨ (N : ℚ) ≤ p.y) := by
  have hc := inCellHO_floor p
  by_cases h : 0 ≤ ⌊p.x⌋ ∧ ⌊p.x⌋ < N ∧ 0 ≤ ⌊p.y⌋ ∧ ⌊p.y⌋ < N
  · obtain ⟨h1, h2, h3, h4⟩ := h
    left
    refine ⟨⌊p.x⌋.toNat, ⌊p.y⌋.toNat, by omega, by omega, ?_⟩
    have e1 : ((⌊p.x⌋.toNat : Nat) : ℤ) = ⌊p.x⌋ := Int.toNat_of_nonneg h1
    have e2 : ((⌊p.y⌋.toNat : Nat) : ℤ) = ⌊p.y⌋ := Int.toNat_of_nonneg h3
    rw [e1, e2]; exact hc
  · right
    obtain ⟨c1, c2, c3, c4⟩ := hc
    by_cases h1 : 0 ≤ ⌊p.x⌋
    · by_cases h2 : ⌊p.x⌋ < N
      · by_cases h3 : 0 ≤ ⌊p.y⌋
        · have h4 : ¬ ⌊p.y⌋ < N := fun h4 => h ⟨h1, h2, h3, h4⟩
          right; right; right
          have : ((N : ℤ) : ℚ) ≤ (⌊p.y⌋ : ℚ) := Int.cast_le.mpr (by omega)
          push_cast at this; linarith
        · right; right; left
          have : ((⌊p.y⌋ + 1 : ℤ) : ℚ) ≤ ((0 : ℤ) : ℚ) := Int.cast_le.mpr (by omega)
          push_cast at this; linarith
      · right; left
        have : ((N : ℤ) : ℚ) ≤ (⌊p.x⌋ : ℚ) := Int.cast_le.mpr (by omega)
        push_cast at this; linarith
    · left
      have : ((⌊p.x⌋ + 1 : ℤ) : ℚ) ≤ ((0 : ℤ) : ℚ) := Int.cast_le.mpr (by omega)
      push_cast at this; linarith

end EOQ
