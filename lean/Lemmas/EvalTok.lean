import Model.Eval
/-! C09, token level: the two-stack machine of `Model/Eval.lean` (its *own* stack functions `pushOperand`, `pushEntry`,
    `closeParen`, `pushBinary`, `finish`), driven by a token list, is the inverse of rendering an expression.
    The spine invariant of DESIGN Appendix C/G.  Core Lean only. -/
namespace Eval

/-- the `switch op.Symbol` of `processOperator` -/
def stackOp (st : St) (o : Op) (un : Option Op) : R St :=
  if o.sym == LP then R.ok (pushEntry st o un)
  else if o.sym == RP then closeParen st
  else pushBinary st o un

inductive Tok where
  | opd (x : Bytes)      -- an operand text
  | sym (o : Op)         -- an occurrence of an operator symbol; the machine decides unary / binary / parenthesis
  | call (f b args : Bytes)  -- a function call `f b ( args )`: name, blanks before the parenthesis, raw argument text
deriving Repr

/-- the loop variables of `parse` -/
structure MSt where
  st : St
  hv : Bool              -- haveOperand
  un : Option Op         -- unaryOp

/-- the stack effect of a captured call: the operand `f` just pushed is replaced by the `parsedFunction` -/
def pushCall (st : St) (un : Option Op) (f args : Bytes) : St := { st with opds := .func un f args :: st.opds }

/-- one token = what one iteration of the scan loop does to the loop variables -/
def stepTok (m : MSt) : Tok → R MSt
  | .opd x => .ok ⟨pushOperand m.st m.un x, true, none⟩
  | .call f _ args => .ok ⟨pushCall m.st m.un f args, true, none⟩
  | .sym o =>
    if o.un && !m.hv then
      match m.un with
      | some _ => .err
      | none => .ok ⟨m.st, m.hv, some o⟩
    else if m.hv && o.sym == LP then .err        -- a `(` after an operand opens a call: that is the token `call`
    else
      match stackOp m.st o m.un with
      | .ok st' => .ok ⟨st', o.sym == RP, none⟩
      | .err => .err
      | .panic => .panic

def runToks (m : MSt) : List Tok → R MSt
  | [] => .ok m
  | t :: ts =>
    match stepTok m t with
    | .ok m' => runToks m' ts
    | .err => .err
    | .panic => .panic

/-- the end of `Evaluate`: final reduction and the operand on top -/
def topOf (st : St) : R (Option Node) :=
  match finish (st.ops.length + 1) st with
  | .err => .err
  | .panic => .panic
  | .ok st' => .ok st'.opds.head?

def parseToks (ts : List Tok) : R (Option Node) :=
  match runToks ⟨{}, false, none⟩ ts with
  | .ok m => topOf m.st
  | .err => .err
  | .panic => .panic

/-! ### the source language -/
inductive E where
  | atom (u : Option Op) (x : Bytes)
  | bin (o : Op) (l r : E)
  | paren (u : Option Op) (e : E)
  | call (u : Option Op) (f b args : Bytes)   -- `f b ( args )` with the raw text between the parentheses

def unTok : Option Op → List Tok
  | none => []
  | some u => [.sym u]

/-- the token sequence of an expression; `lp`, `rp` are the parenthesis entries of the operator table -/
def E.toks (lp rp : Op) : E → List Tok
  | .atom u x => unTok u ++ [.opd x]
  | .bin o l r => l.toks lp rp ++ [.sym o] ++ r.toks lp rp
  | .paren u e => unTok u ++ [.sym lp] ++ e.toks lp rp ++ [.sym rp]
  | .call u f b args => unTok u ++ [.call f b args]

/-- a sign before a parenthesis: `expressionTree{left, unaryOp}` -/
def wrapN : Option Op → Node → Node
  | none, t => t
  | some u, t => .tree t .nil none (some u)

/-- the expression tree: a sign is attached to its operand only -/
def E.toTree : E → Node
  | .atom u x => .operand u x
  | .bin o l r => .tree l.toTree r.toTree (some o) none
  | .paren u e => wrapN u e.toTree
  | .call u f _ args => .func u f args

/-- precedence of the operator at the top level (outside parentheses); none = primary -/
def E.minPrec : E → Option Nat
  | .atom _ _ => none
  | .paren _ _ => none
  | .call _ _ _ _ => none
  | .bin o _ _ => some o.prec

def geP (m : Option Nat) (p : Nat) : Prop := match m with | none => True | some q => p ≤ q
def gtP (m : Option Nat) (p : Nat) : Prop := match m with | none => True | some q => p < q
def unOK : Option Op → Prop
  | none => True
  | some u => u.un = true

/-- rendered without parentheses only where precedence / left associativity allow it; `lpPrec` is the precedence of
    the `(` table entry, which every binary operator must exceed -/
def E.WF (lpPrec : Nat) : E → Prop
  | .atom u _ => unOK u
  | .paren u e => unOK u ∧ e.WF lpPrec
  | .call u _ _ _ => unOK u
  | .bin o l r => o.sym ≠ LP ∧ o.sym ≠ RP ∧ lpPrec < o.prec ∧ l.WF lpPrec ∧ r.WF lpPrec ∧
                  geP l.minPrec o.prec ∧ gtP r.minPrec o.prec

/-! ### the spine invariant -/
abbrev Spine := List (Node × Op)

def foldSpine : Spine → Node → Node
  | [], t => t
  | (l, o) :: sp, t => foldSpine sp (.tree l t (some o) none)

def spineOpds (sp : Spine) : List Node := sp.map (·.1)
def spineOps (sp : Spine) : List OpEntry := sp.map (fun x => ⟨x.2, none⟩)

/-- top of stack has the highest precedence, strictly decreasing downwards, all ≥ p -/
def SpineOK (p : Nat) : Spine → Prop
  | [] => True
  | [(_, o)] => p ≤ o.prec
  | (_, o) :: (l', o') :: sp => o'.prec < o.prec ∧ SpineOK p ((l', o') :: sp)

/-- the operators of the context, down to and including the nearest `(`, are weaker than p -/
def LowCtx (p : Nat) : List OpEntry → Prop
  | [] => True
  | e :: rest => e.op.prec < p ∧ (e.op.sym = LP ∨ LowCtx p rest)

theorem spineOK_ge (p : Nat) (sp : Spine) (h : SpineOK p sp) : ∀ x ∈ sp, p ≤ x.2.prec := by
  induction sp with
  | nil => simp
  | cons a sp ih =>
    obtain ⟨l, o⟩ := a
    cases sp with
    | nil => simpa [SpineOK] using h
    | cons b sp' =>
      obtain ⟨l', o'⟩ := b
      obtain ⟨h1, h2⟩ := h
      intro x hx
      rcases List.mem_cons.mp hx with e | e
      · subst e
        have := ih h2 (l', o') (by simp)
        simp at this ⊢; omega
      · exact ih h2 x e

theorem processTree_two (r l : Node) (opds : List Node) (e : OpEntry) (ops : List OpEntry) :
    processTree ⟨r :: l :: opds, e :: ops⟩ = .ok ⟨.tree l r (some e.op) none :: opds, ops⟩ := rfl

/-- a reduction loop whose condition holds on the whole spine and fails on the context collapses exactly the spine -/
theorem reduceWhile_spine (p : OpEntry → Bool) (sp : Spine) (t : Node) (opds : List Node) (ops : List OpEntry)
    (hall : ∀ x ∈ sp, p ⟨x.2, none⟩ = true) (hstop : ∀ e, ops.head? = some e → p e = false)
    (fuel : Nat) (hf : sp.length + 1 ≤ fuel) :
    reduceWhile p fuel ⟨t :: spineOpds sp ++ opds, spineOps sp ++ ops⟩ = .ok ⟨foldSpine sp t :: opds, ops⟩ := by
  induction sp generalizing t fuel with
  | nil =>
    cases fuel with
    | zero => omega
    | succ f =>
      simp only [spineOpds, spineOps, List.map_nil, List.nil_append, foldSpine, reduceWhile]
      cases ops with
      | nil => rfl
      | cons e rest =>
        have : p e = false := hstop e rfl
        simp [this]
  | cons a sp ih =>
    obtain ⟨l, o⟩ := a
    cases fuel with
    | zero => simp at hf
    | succ f =>
      have hp : p ⟨o, none⟩ = true := hall (l, o) (by simp)
      simp only [spineOpds, spineOps, List.map_cons, List.cons_append, reduceWhile, hp, if_true, processTree_two,
        foldSpine]
      exact ih (.tree l t (some o) none) (fun x hx => hall x (by simp [hx])) f (by simp at hf; omega)

theorem finish_spine (sp : Spine) (t : Node) (fuel : Nat) (hf : sp.length + 1 ≤ fuel) :
    finish fuel ⟨t :: spineOpds sp, spineOps sp⟩ = .ok ⟨[foldSpine sp t], []⟩ := by
  induction sp generalizing t fuel with
  | nil =>
    cases fuel with
    | zero => omega
    | succ f => simp [spineOpds, spineOps, foldSpine, finish]
  | cons a sp ih =>
    obtain ⟨l, o⟩ := a
    cases fuel with
    | zero => simp at hf
    | succ f =>
      simp only [spineOpds, spineOps, List.map_cons, finish, processTree_two, foldSpine]
      exact ih (.tree l t (some o) none) f (by simp at hf; omega)

theorem runToks_append (m : MSt) (a b : List Tok) :
    runToks m (a ++ b) = (match runToks m a with | .ok m' => runToks m' b | .err => .err | .panic => .panic) := by
  induction a generalizing m with
  | nil => simp [runToks]
  | cons t ts ih =>
    simp only [List.cons_append, runToks]
    cases stepTok m t with
    | ok m' => simp [ih]
    | err => rfl
    | panic => rfl

theorem foldSpine_append (a b : Spine) (t : Node) : foldSpine (a ++ b) t = foldSpine b (foldSpine a t) := by
  induction a generalizing t with
  | nil => rfl
  | cons x a ih => obtain ⟨l, o⟩ := x; simp [foldSpine, ih]

theorem spineOK_snoc (p : Nat) (sp : Spine) (l : Node) (o : Op) (hp : p ≤ o.prec)
    (hall : ∀ x ∈ sp, o.prec < x.2.prec) (hord : SpineOK (o.prec + 1) sp) :
    SpineOK p (sp ++ [(l, o)]) := by
  induction sp with
  | nil => simpa [SpineOK] using hp
  | cons a sp ih =>
    obtain ⟨l1, o1⟩ := a
    cases sp with
    | nil =>
      have := hall (l1, o1) (by simp)
      simp [SpineOK] at this ⊢
      exact ⟨this, hp⟩
    | cons b sp' =>
      obtain ⟨l2, o2⟩ := b
      obtain ⟨h1, h2⟩ := hord
      refine ⟨h1, ?_⟩
      exact ih (fun x hx => hall x (by simp [hx])) h2

def SpineFor (e : E) (sp : Spine) : Prop :=
  match e.minPrec with
  | none => sp = []
  | some p => SpineOK p sp
def CtxFor (e : E) (ops : List OpEntry) : Prop :=
  match e.minPrec with
  | none => True
  | some p => LowCtx p ops

theorem lowCtx_mono (p q : Nat) (h : p ≤ q) (ops : List OpEntry) (hc : LowCtx p ops) : LowCtx q ops := by
  induction ops with
  | nil => trivial
  | cons e rest ih =>
    obtain ⟨h1, h2⟩ := hc
    refine ⟨by omega, ?_⟩
    rcases h2 with h2 | h2
    · exact Or.inl h2
    · exact Or.inr (ih h2)

theorem spineOK_mono (p q : Nat) (h : q ≤ p) (sp : Spine) (hs : SpineOK p sp) : SpineOK q sp := by
  induction sp with
  | nil => trivial
  | cons a sp ih =>
    obtain ⟨l, o⟩ := a
    cases sp with
    | nil => simp [SpineOK] at hs ⊢; omega
    | cons b sp' => obtain ⟨l', o'⟩ := b; exact ⟨hs.1, ih hs.2⟩

/-- the precedence reduction stops at a context that is weaker than p -/
theorem lowCtx_stop (p : Nat) (ops : List OpEntry) (hc : LowCtx p ops) :
    ∀ e, ops.head? = some e → (decide (e.op.prec ≥ p)) = false := by
  intro e he
  cases ops with
  | nil => simp at he
  | cons a rest =>
    simp at he; subst he
    have := hc.1
    simp; omega

/-- main lemma: the tokens of a well-formed expression, read with no operand pending, leave its spine on top of the
    context, an operand pending and no sign pending -/
theorem run_toks (lp rp : Op) (hlp : lp.sym = LP) (hlu : lp.un = false) (hrp : rp.sym = RP)
    (e : E) (hw : e.WF lp.prec) (opds : List Node) (ops : List OpEntry) (hc : CtxFor e ops) :
    ∃ sp t, runToks ⟨⟨opds, ops⟩, false, none⟩ (e.toks lp rp) =
              .ok ⟨⟨t :: spineOpds sp ++ opds, spineOps sp ++ ops⟩, true, none⟩ ∧
            foldSpine sp t = e.toTree ∧ SpineFor e sp ∧ (∀ x ∈ sp, x.2.sym ≠ LP) := by
  induction e generalizing opds ops with
  | atom u s =>
    refine ⟨[], .operand u s, ?_, rfl, rfl, by simp⟩
    cases u with
    | none => simp [E.toks, unTok, runToks, stepTok, spineOpds, spineOps, pushOperand]
    | some v =>
      have hv : v.un = true := hw
      simp [E.toks, unTok, runToks, stepTok, spineOpds, spineOps, pushOperand, hv]
  | call u f b args =>
    refine ⟨[], .func u f args, ?_, rfl, rfl, by simp⟩
    cases u with
    | none => simp [E.toks, unTok, runToks, stepTok, spineOpds, spineOps, pushCall]
    | some v =>
      have hv : v.un = true := hw
      simp [E.toks, unTok, runToks, stepTok, spineOpds, spineOps, pushCall, hv]
  | paren u e ih =>
    obtain ⟨hu, hwe⟩ := hw
    have hc' : CtxFor e (⟨lp, u⟩ :: ops) := by
      unfold CtxFor
      cases hm : e.minPrec with
      | none => trivial
      | some q =>
        cases e with
        | atom _ _ => simp [E.minPrec] at hm
        | paren _ _ => simp [E.minPrec] at hm
        | call _ _ _ _ => simp [E.minPrec] at hm
        | bin o l r =>
          simp [E.minPrec] at hm; subst hm
          exact ⟨hwe.2.2.1, Or.inl hlp⟩
    obtain ⟨sp, t, h1, h2, _, h4⟩ := ih hwe opds (⟨lp, u⟩ :: ops) hc'
    refine ⟨[], wrapN u (foldSpine sp t), ?_, by simp [E.toTree, foldSpine, h2], rfl, by simp⟩
    -- the closing parenthesis collapses the spine and pops the entry
    have hclose : closeParen ⟨t :: spineOpds sp ++ opds, spineOps sp ++ (⟨lp, u⟩ :: ops)⟩ =
        .ok ⟨wrapN u (foldSpine sp t) :: opds, ops⟩ := by
      unfold closeParen
      rw [reduceWhile_spine (fun e => e.op.sym != LP) sp t opds (⟨lp, u⟩ :: ops)
        (by intro x hx; simpa using h4 x hx) (by intro e he; simp at he; subst he; simp [hlp]) _ (by simp [spineOps])]
      cases u <;> simp [hlp, wrapN]
    have key : runToks ⟨⟨opds, ⟨lp, u⟩ :: ops⟩, false, none⟩ (e.toks lp rp ++ [Tok.sym rp]) =
        .ok ⟨⟨wrapN u (foldSpine sp t) :: opds, ops⟩, true, none⟩ := by
      rw [runToks_append, h1]
      have hRL : ¬ (RP = LP) := by decide
      simp only [runToks, stepTok, stackOp, hrp, hRL, Bool.not_true, Bool.and_false, Bool.false_eq_true, if_false,
        Bool.true_and, beq_iff_eq, hclose, beq_self_eq_true, if_true]
    have hl1 : (lp.sym == LP) = true := by rw [hlp]; decide
    have hl2 : (lp.sym == RP) = false := by rw [hlp]; decide
    cases u with
    | none =>
      have e1 : (E.paren none e).toks lp rp = Tok.sym lp :: (e.toks lp rp ++ [Tok.sym rp]) := by simp [E.toks, unTok]
      rw [e1]
      simp only [runToks, stepTok, hlu, Bool.false_and, stackOp, hl1, hl2, if_true, pushEntry]
      simp only [Bool.false_eq_true, if_false]
      rw [key]; simp [spineOpds, spineOps]
    | some v =>
      have hv : v.un = true := hu
      have e1 : (E.paren (some v) e).toks lp rp = Tok.sym v :: Tok.sym lp :: (e.toks lp rp ++ [Tok.sym rp]) := by
        simp [E.toks, unTok]
      rw [e1]
      simp only [runToks, stepTok, hv, hlu, Bool.false_and, stackOp, hl1, hl2, if_true, pushEntry, Bool.not_false,
        Bool.and_self]
      simp only [Bool.false_eq_true, if_false]
      rw [key]; simp [spineOpds, spineOps]
  | bin o l r ihl ihr =>
    obtain ⟨hoL, hoR, hp, hwl, hwr, hgl, hgr⟩ := hw
    have hcO : LowCtx o.prec ops := by simpa [CtxFor, E.minPrec] using hc
    have hcl : CtxFor l ops := by
      unfold CtxFor
      cases hm : l.minPrec with
      | none => trivial
      | some q => simp [hm, geP] at hgl; exact lowCtx_mono _ _ hgl ops hcO
    obtain ⟨spl, tl, hl1, hl2, hl3, hl4⟩ := ihl hwl opds ops hcl
    have hsl : SpineOK o.prec spl := by
      unfold SpineFor at hl3
      cases hm : l.minPrec with
      | none => simp [hm] at hl3; subst hl3; trivial
      | some q => simp [hm] at hl3; simp [hm, geP] at hgl; exact spineOK_mono _ _ hgl spl hl3
    have hred : pushBinary ⟨tl :: spineOpds spl ++ opds, spineOps spl ++ ops⟩ o none =
        .ok ⟨foldSpine spl tl :: opds, ⟨o, none⟩ :: ops⟩ := by
      unfold pushBinary
      rw [reduceWhile_spine (fun e => decide (e.op.prec ≥ o.prec)) spl tl opds ops
        (by intro x hx; have := spineOK_ge _ _ hsl x hx; simpa using this)
        (lowCtx_stop o.prec ops hcO) _ (by simp [spineOps])]
      rfl
    have hcr : CtxFor r (⟨o, none⟩ :: ops) := by
      unfold CtxFor
      cases hm : r.minPrec with
      | none => trivial
      | some q =>
        simp [hm, gtP] at hgr
        exact ⟨hgr, Or.inr (lowCtx_mono _ _ (by omega) ops hcO)⟩
    obtain ⟨spr, tr, hr1, hr2, hr3, hr4⟩ := ihr hwr (foldSpine spl tl :: opds) (⟨o, none⟩ :: ops) hcr
    refine ⟨spr ++ [(foldSpine spl tl, o)], tr, ?_, ?_, ?_, ?_⟩
    · simp only [E.toks, List.append_assoc, List.singleton_append]
      rw [runToks_append, hl1]
      have h1 : (o.sym == LP) = false := by simpa using hoL
      have h2 : (o.sym == RP) = false := by simpa using hoR
      simp only [runToks, stepTok, Bool.not_true, Bool.and_false, Bool.false_eq_true, if_false, h1, h2, stackOp,
        Bool.true_and, hred]
      rw [hr1]
      simp [spineOpds, spineOps, List.append_assoc]
    · rw [foldSpine_append]
      simp [foldSpine, hr2, hl2, E.toTree]
    · show SpineOK o.prec (spr ++ [(foldSpine spl tl, o)])
      unfold SpineFor at hr3
      cases hm : r.minPrec with
      | none => simp [hm] at hr3; subst hr3; simp [SpineOK]
      | some q =>
        simp [hm] at hr3
        simp [hm, gtP] at hgr
        have hall : ∀ x ∈ spr, o.prec < x.2.prec := by
          intro x hx
          have := spineOK_ge q spr hr3 x hx
          omega
        exact spineOK_snoc o.prec spr _ o (Nat.le_refl _) hall (spineOK_mono q (o.prec + 1) (by omega) spr hr3)
    · intro x hx
      rcases List.mem_append.mp hx with hx | hx
      · exact hr4 x hx
      · simp at hx; subst hx; exact hoL

/-- the token machine run on the tokens of a well-formed expression ends with exactly its tree -/
theorem runToks_toks (lp rp : Op) (hlp : lp.sym = LP) (hlu : lp.un = false) (hrp : rp.sym = RP)
    (e : E) (hw : e.WF lp.prec) :
    ∃ m, runToks ⟨{}, false, none⟩ (e.toks lp rp) = .ok m ∧ topOf m.st = .ok (some e.toTree) := by
  obtain ⟨sp, t, h1, h2, _, _⟩ := run_toks lp rp hlp hlu hrp e hw [] [] (by unfold CtxFor; split <;> trivial)
  refine ⟨_, h1, ?_⟩
  unfold topOf
  simp only [List.append_nil]
  rw [finish_spine sp t _ (by simp [spineOps])]
  simp [h2]

/-- parsing the tokens of a well-formed expression gives back its tree -/
theorem parse_toks (lp rp : Op) (hlp : lp.sym = LP) (hlu : lp.un = false) (hrp : rp.sym = RP)
    (e : E) (hw : e.WF lp.prec) : parseToks (e.toks lp rp) = .ok (some e.toTree) := by
  obtain ⟨m, h1, h2⟩ := runToks_toks lp rp hlp hlu hrp e hw
  unfold parseToks
  rw [h1]; exact h2

end Eval
