import Model.NotifierReentryN
import Lemmas.NotifierReentry
import Lemmas.NotifierCycles
/-! C17, re-entrant targets at any depth: the world after an exported call during which armed operations fired (at
    whatever depth) is the world of the plain sequential history "the call, then the operations that fired, in queue
    order"; the outer call's own events survive in order; depth 1 is `Nt.stepRe`. -/
namespace Nt

/-- `N` behaves like a call that consumes a prefix of the queue: the world afterwards is that of the call followed by
    the consumed operations, in order -/
def GoodN (pan : Nat → Bool) (N : QSt → Op → QSt × List Event) : Prop :=
  ∀ w q op, ∃ k, (N (w, q) op).1 = ((runFrom pan w (op :: q.take k)).1, q.drop k)

theorem cbQ_run (N : QSt → Op → QSt × List Event) (pan : Nat → Bool) (n : Nat) (c : Event × Nat) (st : QSt) :
    (cbQ N pan n c st).2 =
      ⟨c.1 :: (fireQ N c.1 st).2 ++ (if pan c.2 && reports? n then [Event.recovered n c.2] else []), none⟩ := by
  unfold cbQ frame callTargetWith recovery reports?
  cases hp : pan c.2 <;> cases hh : handlerKind n <;> simp [Run.skip, frame, callHandler, recoveryNil]

theorem fireQ_good (pan : Nat → Bool) (N : QSt → Op → QSt × List Event) (hN : GoodN pan N) (e : Event) (w : World)
    (q : List Op) : ∃ k, (fireQ N e (w, q)).1 = ((runFrom pan w (q.take k)).1, q.drop k) := by
  unfold fireQ
  cases q with
  | nil => exact ⟨0, rfl⟩
  | cons o rest =>
    simp only
    split
    · obtain ⟨k, hk⟩ := hN w rest o
      exact ⟨k + 1, by rw [hk]; rfl⟩
    · exact ⟨0, rfl⟩

theorem loopQ_good (pan : Nat → Bool) (N : QSt → Op → QSt × List Event) (hN : GoodN pan N) (n : Nat)
    (cs : List (Event × Nat)) (w : World) (q : List Op) :
    (∃ k, (loopQ (cbQ N pan n) cs (w, q)).1 = ((runFrom pan w (q.take k)).1, q.drop k)) ∧
    (plain pan n cs).Sublist (loopQ (cbQ N pan n) cs (w, q)).2.trace := by
  induction cs generalizing w q with
  | nil => exact ⟨⟨0, rfl⟩, List.Sublist.refl _⟩
  | cons c cs ih =>
    have hrun := cbQ_run N pan n c (w, q)
    obtain ⟨k1, hk1⟩ := fireQ_good pan N hN c.1 w q
    have hst : (cbQ N pan n c (w, q)).1 = ((runFrom pan w (q.take k1)).1, q.drop k1) := hk1
    obtain ⟨⟨k2, hk2⟩, hsub⟩ := ih (runFrom pan w (q.take k1)).1 (q.drop k1)
    simp only [loopQ, hrun, hst]
    refine ⟨⟨k1 + k2, ?_⟩, ?_⟩
    · rw [hk2, List.take_add, runFrom_append_fst, List.drop_drop]
    · simp only [plain, List.flatMap_cons, cbEv_eq] at hsub ⊢
      refine List.Sublist.append ?_ hsub
      refine List.Sublist.cons_cons _ ?_
      exact List.sublist_append_right _ _

theorem stepQW_good (pan : Nat → Bool) (N : QSt → Op → QSt × List Event) (hN : GoodN pan N) :
    GoodN pan (stepQW N pan) ∧
    ∀ w q op, (step pan w op).2.Sublist (stepQW N pan (w, q) op).2 := by
  refine ⟨fun w q op => ?_, fun w q op => ?_⟩
  · cases op with
    | notify n raw =>
      obtain ⟨⟨k, hk⟩, _⟩ := loopQ_good pan N hN n (handleCbs n (normalize raw) (notify (w n) raw)) w q
      exact ⟨k, by simp only [stepQW]; rw [hk]; rfl⟩
    | startBatch n =>
      obtain ⟨⟨k, hk⟩, _⟩ := loopQ_good pan N hN n (batchCbs n true (startBatch (w n)).2) (w.set n (startBatch (w n)).1) q
      exact ⟨k, by simp only [stepQW]; rw [hk]; rfl⟩
    | endBatch n =>
      obtain ⟨⟨k, hk⟩, _⟩ := loopQ_good pan N hN n (batchCbs n false (endBatch (w n)).2) (w.set n (endBatch (w n)).1) q
      exact ⟨k, by simp only [stepQW]; rw [hk]; rfl⟩
    | register n t p raws => exact ⟨0, rfl⟩
    | unregister n t => exact ⟨0, rfl⟩
    | setEnabled n b => exact ⟨0, rfl⟩
    | reset n => exact ⟨0, rfl⟩
    | merge n m => exact ⟨0, rfl⟩
  · cases op with
    | notify n raw =>
      obtain ⟨_, hs⟩ := loopQ_good pan N hN n (handleCbs n (normalize raw) (notify (w n) raw)) w q
      simp only [stepQW, step, deliverX_spec, ← plain_handleCbs]; exact hs
    | startBatch n =>
      obtain ⟨_, hs⟩ := loopQ_good pan N hN n (batchCbs n true (startBatch (w n)).2) (w.set n (startBatch (w n)).1) q
      simp only [stepQW, step, batchX_spec, ← plain_batchCbs]; exact hs
    | endBatch n =>
      obtain ⟨_, hs⟩ := loopQ_good pan N hN n (batchCbs n false (endBatch (w n)).2) (w.set n (endBatch (w n)).1) q
      simp only [stepQW, step, batchX_spec, ← plain_batchCbs]; exact hs
    | register n t p raws => exact List.Sublist.refl _
    | unregister n t => exact List.Sublist.refl _
    | setEnabled n b => exact List.Sublist.refl _
    | reset n => exact List.Sublist.refl _
    | merge n m => exact List.Sublist.refl _

theorem stepQN_good (pan : Nat → Bool) (d : Nat) :
    GoodN pan (stepQN pan d) ∧ ∀ w q op, (step pan w op).2.Sublist (stepQN pan d (w, q) op).2 := by
  induction d with
  | zero => exact ⟨fun w q op => ⟨0, rfl⟩, fun w q op => List.Sublist.refl _⟩
  | succ d ih => exact stepQW_good pan _ ih.1

/-! ### depth 1 is `Nt.stepRe` -/
def qOf (st : ReSt) : QSt := (st.1, st.2.toList)

theorem fireQ_one (pan : Nat → Bool) (e : Event) (st : ReSt) :
    fireQ (stepQN pan 0) e (qOf st) = (qOf (fire pan e st).1, (fire pan e st).2) := by
  obtain ⟨w, o⟩ := st
  cases o with
  | none => rfl
  | some op =>
    unfold fireQ fire qOf
    simp only [Option.toList]
    split <;> rfl

theorem cbQ_one (pan : Nat → Bool) (n : Nat) (c : Event × Nat) (st : ReSt) :
    cbQ (stepQN pan 0) pan n c (qOf st) = (qOf (cbRe pan n c st).1, (cbRe pan n c st).2) := by
  unfold cbQ cbRe
  rw [fireQ_one]

theorem loopQ_one (pan : Nat → Bool) (n : Nat) (cs : List (Event × Nat)) (st : ReSt) :
    loopQ (cbQ (stepQN pan 0) pan n) cs (qOf st) =
      (qOf (loopRe (cbRe pan n) cs st).1, (loopRe (cbRe pan n) cs st).2) := by
  induction cs generalizing st with
  | nil => rfl
  | cons c cs ih =>
    simp only [loopQ, loopRe, cbQ_one]
    cases (cbRe pan n c st).2.out with
    | none => simp only [ih]
    | some v => rfl

/-- with at most one operation armed the queue model IS the model of `Model/NotifierReentry.lean` -/
theorem stepQ_one (pan : Nat → Bool) (w : World) (o : Option Op) (op : Op) :
    stepQ pan (w, o.toList) op = (qOf (stepRe pan (w, o) op).1, (stepRe pan (w, o) op).2) := by
  cases o with
  | none => rw [stepRe_unarmed]; rfl
  | some op' =>
    show stepQW (stepQN pan 0) pan (qOf (w, some op')) op = _
    cases op with
    | notify n raw => simp only [stepQW, stepRe]; rw [show (qOf (w, some op')).1 = w from rfl, loopQ_one]
    | startBatch n =>
      simp only [stepQW, stepRe]
      rw [show (qOf (w, some op')).1 = w from rfl]
      exact congrArg (fun r => (r.1, r.2.trace)) (loopQ_one pan n _ (w.set n (startBatch (w n)).1, some op'))
    | endBatch n =>
      simp only [stepQW, stepRe]
      rw [show (qOf (w, some op')).1 = w from rfl]
      exact congrArg (fun r => (r.1, r.2.trace)) (loopQ_one pan n _ (w.set n (endBatch (w n)).1, some op'))
    | register n t p raws => rfl
    | unregister n t => rfl
    | setEnabled n b => rfl
    | reset n => rfl
    | merge n m => rfl

/-- world of `C17.reentrant_depth_two_example`: target 10 (batch-capable, re-entrant from `BatchMode`) registered with
    notifiers 0 and 1 -/
def deepWorld : World := (run nobody [.register 0 10 0 [[97]], .register 1 10 0 [[97]]]).1

/-- its queue: `StartBatch` on notifier 1, then `Unregister(target 10)` on notifier 0 -/
def deepQueue : List Op := [.startBatch 1, .unregister 0 10]

end Nt
