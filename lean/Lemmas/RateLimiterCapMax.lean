import Lemmas.RateLimiterFifo
/-! Grants are bounded by the largest capacity in force during their period — with `SetCap` anywhere.  Core Lean. -/
namespace RL

/-- if the service loop granted anything that counts for `x`, then `x` ends the loop within its capacity -/
theorem service_grant_within (cap : Nat → Nat) (chain : Nat → List Nat) (closed : Nat → Bool) (p : Nat)
    (used : Nat → Nat) (w : List Req) (x : Nat) :
    gsum p x (service cap chain closed p used w).grants = 0 ∨ (service cap chain closed p used w).used x ≤ cap x := by
  induction w generalizing used with
  | nil => left; simp [service, gsum]
  | cons r rs ih =>
    unfold service
    split
    · exact ih used
    · split
      · exact ih used
      · split
        · rename_i hf
          rcases ih (charge used (chain r.lim) r.amt) with h | h
          · by_cases hx : x ∈ chain r.lim
            · right
              have e := service_used_eq cap chain closed p (charge used (chain r.lim) r.amt) rs x
              have f := (fits_iff cap used _ _).mp hf.2 x hx
              show (service cap chain closed p (charge used (chain r.lim) r.amt) rs).used x ≤ cap x
              rw [e, h]
              simp only [charge, hx, if_true]
              omega
            · left
              simp only [gsum, hx, and_false, if_false, h]
          · exact Or.inr h
        · exact ih used

structure CapMaxInv (s : S) : Prop where
  cap_le : ∀ x, s.cap x ≤ s.capMax s.ticks x
  cur : ∀ x, gsum s.ticks x s.glog ≤ s.capMax s.ticks x
  past : ∀ p, p < s.ticks → ∀ x, gsum p x s.glog ≤ s.capMax p x

theorem capMaxInv_same {s s' : S} (ci : CapMaxInv s) (h1 : s'.glog = s.glog) (h2 : s'.ticks = s.ticks)
    (h3 : s'.cap = s.cap) (h4 : s'.capMax = s.capMax) : CapMaxInv s' where
  cap_le := by rw [h2, h3, h4]; exact ci.cap_le
  cur := by rw [h1, h2, h4]; exact ci.cur
  past := by rw [h1, h2, h4]; exact ci.past

theorem capMaxInv {c : Nat} {s : S} (h : Reachable c s) : CapMaxInv s := by
  induction h with
  | init =>
    exact ⟨fun _ => Nat.le_refl _, fun x => by simp [init, gsum], fun p hp => by simp [init] at hp⟩
  | step s s' hr st ih =>
    have gi := grantInv hr
    have t := tree hr
    cases st with
    | useZero l hl h0 h1 =>
      refine ⟨ih.cap_le, ?_, ?_⟩
      · intro x
        show gsum s.ticks x (⟨s.nextReq, l, s.chain l, 0, s.ticks⟩ :: s.glog) ≤ s.capMax s.ticks x
        have := ih.cur x
        simp only [gsum_cons]; split <;> omega
      · intro p hp x
        show gsum p x (⟨s.nextReq, l, s.chain l, 0, s.ticks⟩ :: s.glog) ≤ s.capMax p x
        have := ih.past p hp x
        simp only [gsum_cons]; split <;> omega
    | useGrant l amt hl ha h0 h1 h2 h3 =>
      refine ⟨ih.cap_le, ?_, ?_⟩
      · intro x
        show gsum s.ticks x (⟨s.nextReq, l, s.chain l, amt, s.ticks⟩ :: s.glog) ≤ s.capMax s.ticks x
        have a := ih.cur x
        have b := gi.cur_le x
        have d := ih.cap_le x
        simp only [gsum_cons, true_and]
        split
        · rename_i hx
          have f := (fits_iff _ _ _ _).mp h3 x hx
          omega
        · omega
      · intro p hp x
        have hp : p < s.ticks := hp
        show gsum p x (⟨s.nextReq, l, s.chain l, amt, s.ticks⟩ :: s.glog) ≤ s.capMax p x
        have := ih.past p hp x
        have hne : ¬ (s.ticks = p ∧ x ∈ s.chain l) := by intro h; have := h.1; omega
        simp only [gsum_cons, hne, if_false]; omega
    | newChild p cp hp h0 h1 =>
      refine ⟨?_, ?_, ?_⟩
      · intro x
        show upd s.cap s.n cp x ≤ (if s.ticks = s.ticks ∧ x = s.n then cp else s.capMax s.ticks x)
        unfold upd
        by_cases hx : x = s.n
        · simp [hx]
        · simp only [hx, and_false, if_false]; exact ih.cap_le x
      · intro x
        show gsum s.ticks x s.glog ≤ (if s.ticks = s.ticks ∧ x = s.n then cp else s.capMax s.ticks x)
        by_cases hx : x = s.n
        · subst hx; rw [gsum_zero_of_notin _ _ _ (gi.notin t)]; exact Nat.zero_le _
        · simp only [hx, and_false, if_false]; exact ih.cur x
      · intro q hq x
        show gsum q x s.glog ≤ (if q = s.ticks ∧ x = s.n then cp else s.capMax q x)
        have hq : q < s.ticks := hq
        have hne : ¬ (q = s.ticks ∧ x = s.n) := by intro h; have := h.1; omega
        simp only [hne, if_false]; exact ih.past q hq x
    | setCap l cp hl h0 =>
      refine ⟨?_, ?_, ?_⟩
      · intro x
        show upd s.cap l cp x ≤ (if s.ticks = s.ticks ∧ x = l then max (s.capMax s.ticks x) cp else s.capMax s.ticks x)
        unfold upd
        by_cases hx : x = l
        · simp only [hx, and_self, if_true]; exact Nat.le_max_right _ _
        · simp only [hx, and_false, if_false]; exact ih.cap_le x
      · intro x
        show gsum s.ticks x s.glog ≤ (if s.ticks = s.ticks ∧ x = l then max (s.capMax s.ticks x) cp else s.capMax s.ticks x)
        by_cases hx : x = l
        · simp only [hx, and_self, if_true]; exact Nat.le_trans (ih.cur l) (Nat.le_max_left _ _)
        · simp only [hx, and_false, if_false]; exact ih.cur x
      · intro q hq x
        show gsum q x s.glog ≤ (if q = s.ticks ∧ x = l then max (s.capMax q x) cp else s.capMax q x)
        have hq : q < s.ticks := hq
        have hne : ¬ (q = s.ticks ∧ x = l) := by intro h; have := h.1; omega
        simp only [hne, if_false]; exact ih.past q hq x
    | tickRuns h1 h0 =>
      have hsv := service_grants s.cap s.chain s.closed (s.ticks + 1) (fun x => if resets s x then 0 else s.used x) s.waiting
      have hue := service_used_eq s.cap s.chain s.closed (s.ticks + 1) (fun x => if resets s x then 0 else s.used x) s.waiting
      have hgw := service_grant_within s.cap s.chain s.closed (s.ticks + 1) (fun x => if resets s x then 0 else s.used x) s.waiting
      have hglog : (doTickRuns s).glog = (service s.cap s.chain s.closed (s.ticks + 1)
          (fun x => if resets s x then 0 else s.used x) s.waiting).grants ++ s.glog := rfl
      generalize (service s.cap s.chain s.closed (s.ticks + 1) (fun x => if resets s x then 0 else s.used x) s.waiting) = sv
        at hsv hue hgw hglog
      have hold : ∀ q x, q ≤ s.ticks → gsum q x sv.grants = 0 := by
        intro q x hq
        apply gsum_zero_of_period
        intro g hg
        have := (hsv g hg).1
        omega
      have hnew : ∀ x, gsum (s.ticks + 1) x s.glog = 0 := by
        intro x
        apply gsum_zero_of_period
        intro g hg
        have := gi.period_le g hg
        omega
      refine ⟨?_, ?_, ?_⟩
      · intro x
        show s.cap x ≤ (if s.ticks + 1 = s.ticks + 1 then s.cap x else s.capMax (s.ticks + 1) x)
        simp
      · intro x
        rw [hglog]
        show gsum (s.ticks + 1) x (sv.grants ++ s.glog) ≤ (if s.ticks + 1 = s.ticks + 1 then s.cap x else s.capMax (s.ticks + 1) x)
        simp only [if_true]
        rw [gsum_append, hnew x]
        rcases hgw x with h | h
        · omega
        · have := hue x; omega
      · intro q hq x
        rw [hglog]
        have hq : q < s.ticks + 1 := hq
        show gsum q x (sv.grants ++ s.glog) ≤ (if q = s.ticks + 1 then s.cap x else s.capMax q x)
        have hne : ¬ q = s.ticks + 1 := by omega
        simp only [hne, if_false]
        rw [gsum_append, hold q x (by omega)]
        by_cases hqt : q = s.ticks
        · subst hqt; have := ih.cur x; omega
        · have := ih.past q (by omega) x; omega
    | _ => exact capMaxInv_same ih rfl rfl rfl rfl

/-- while `SetCap` has not been called, the largest capacity in force in the current period is the capacity -/
theorem capMax_cur_eq_cap {c : Nat} {s : S} (h : Reachable c s) (hz : s.setCaps = 0) :
    ∀ x, s.capMax s.ticks x = s.cap x := by
  induction h with
  | init => intro x; rfl
  | step s s' hr st ih =>
    cases st with
    | newChild p cp hp h0 h1 =>
      intro x
      show (if s.ticks = s.ticks ∧ x = s.n then cp else s.capMax s.ticks x) = upd s.cap s.n cp x
      unfold upd
      by_cases hx : x = s.n
      · simp [hx]
      · simp only [hx, and_false, if_false]; exact ih hz x
    | setCap l cp hl h0 => exact absurd hz (Nat.succ_ne_zero _)
    | tickRuns h1 h0 =>
      intro x
      show (if s.ticks + 1 = s.ticks + 1 then s.cap x else s.capMax (s.ticks + 1) x) = s.cap x
      simp
    | _ => exact ih hz

end RL
