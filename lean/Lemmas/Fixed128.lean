import Lemmas.FixedBase

/-! C03: the f128 model equals the exact specification whenever the exact intermediates and result fit 128 bits. -/
namespace Fixed.F128
open Fixed Fixed.Spec

theorem toU_of_nonneg {i : Int} (hi : fits128 i) (h : 0 ≤ i) : toU i = i := by
  unfold toU; unfold fits128 at hi; omega
theorem toU_negI_of_neg {i : Int} (hi : fits128 i) (h : i < 0) : toU (negI i) = -i := by
  unfold toU negI minRaw; unfold fits128 at hi; split <;> omega
/-- negating the (wrapped) negation gives the value back — including the minimum, which both steps leave alone -/
theorem negI_wrap_neg {t : Int} (ht : fits128 t) : negI (wrap128 (-t)) = t := by
  unfold negI wrap128 minRaw; unfold fits128 at ht; split <;> omega

/-- `Int128.Div` is the truncated quotient whenever that quotient is representable (i.e. except `Min / -1`) -/
theorem quo_eq {i n : Int} (hi : fits128 i) (hn : fits128 n) (hq : fits128 (i.tdiv n)) :
    quo i n = i.tdiv n := by
  unfold quo
  by_cases h1 : i < 0
  · by_cases h2 : n < 0
    · simp only [h1, h2, if_true, decide_true, bne_self_eq_false, Bool.false_eq_true, if_false]
      rw [toU_negI_of_neg hi h1, toU_negI_of_neg hn h2,
        ← Int.tdiv_eq_ediv_of_nonneg (by omega), Int.neg_tdiv_neg, wrap128_of_fits hq]
    · have hn' : 0 ≤ n := by omega
      simp only [h1, h2, if_true, if_false, decide_true, decide_false]
      rw [toU_negI_of_neg hi h1, toU_of_nonneg hn hn',
        ← Int.tdiv_eq_ediv_of_nonneg (by omega), Int.neg_tdiv]
      simpa using negI_wrap_neg hq
  · have hi' : 0 ≤ i := by omega
    by_cases h2 : n < 0
    · simp only [h1, h2, if_true, if_false, decide_true, decide_false]
      rw [toU_of_nonneg hi hi', toU_negI_of_neg hn h2,
        ← Int.tdiv_eq_ediv_of_nonneg hi', Int.tdiv_neg]
      simpa using negI_wrap_neg hq
    · have hn' : 0 ≤ n := by omega
      simp only [h1, h2, if_false, decide_false, bne_self_eq_false, Bool.false_eq_true]
      rw [toU_of_nonneg hi hi', toU_of_nonneg hn hn',
        ← Int.tdiv_eq_ediv_of_nonneg hi', wrap128_of_fits hq]

theorem Mult.fits128 {m : Int} (h : Mult m) : Fixed.fits128 m := fits128_of_fits64 h.fits64

theorem quo_mult {m x : Int} (hm : Mult m) (hx : fits128 x) : quo x m = x.tdiv m :=
  quo_eq hx (Mult.fits128 hm) (fits128_tdiv hx hm.pos)

theorem add_exact {a b : Int} (h : fits128 (a + b)) : add a b = a + b := wrap128_of_fits h
theorem sub_exact {a b : Int} (h : fits128 (a - b)) : sub a b = a - b := wrap128_of_fits h

theorem mul_eq {m a b : Int} (hm : Mult m) (hp : fits128 (a * b)) : mul m a b = fxMul m a b := by
  unfold mul mulI fxMul
  rw [wrap128_of_fits hp, quo_mult hm hp]

theorem div_eq {m a b : Int} (hbf : fits128 b) (hb : b ≠ 0) (hp : fits128 (a * m)) (hq : fits128 ((a * m).tdiv b)) :
    div m a b = some (fxDiv m a b) := by
  unfold div mulI fxDiv
  rw [if_neg hb, wrap128_of_fits hp, quo_eq hp hbf hq]

theorem trunc_eq {m a : Int} (hm : Mult m) (ha : fits128 a) : trunc m a = fxTrunc m a := by
  unfold trunc mulI fxTrunc
  rw [quo_mult hm ha, wrap128_of_fits (fits128_tdiv_mul ha)]

theorem mod_inner_fits {m a b : Int} (hm : Mult m) (hp : fits128 (a * m)) : fits128 (b * (a.tdiv b * m)) := by
  have h := tdiv_mul_between a b
  have hm0 := hm.pos
  have e : b * (a.tdiv b * m) = (a.tdiv b * b) * m := by ring
  rw [e]
  unfold fits128 at *
  by_cases ha : 0 ≤ a
  · obtain ⟨h1, h2⟩ := h.1 ha
    have : 0 ≤ a.tdiv b * b * m := by positivity
    have : a.tdiv b * b * m ≤ a * m := by nlinarith
    omega
  · obtain ⟨h1, h2⟩ := h.2 (by omega)
    have : a.tdiv b * b * m ≤ 0 := by nlinarith
    have : a * m ≤ a.tdiv b * b * m := by nlinarith
    omega

theorem negI_of_nonneg {x : Int} (h0 : 0 ≤ x) : negI x = -x := by
  unfold negI minRaw; split <;> omega

/-- for a non-negative dividend the truncated remainder is the Euclidean remainder by the magnitude of the divisor -/
theorem tmod_of_nonneg (a n : Int) (ha : 0 ≤ a) : a.tmod n = a % (if n < 0 then -n else n) := by
  rw [Int.tmod_eq_emod_of_nonneg ha]
  split
  · rw [Int.emod_neg]
  · rfl

/-- `Int128.Mod` is the truncated remainder for all operands with a non-zero divisor -/
theorem remI_eq {i n : Int} (hi : fits128 i) (hn : fits128 n) (hn0 : n ≠ 0) : remI i n = i.tmod n := by
  have hun : toU (if n < 0 then negI n else n) = (if n < 0 then -n else n) := by
    split
    · rename_i h; exact toU_negI_of_neg hn h
    · exact toU_of_nonneg hn (by omega)
  have hpos : 0 < (if n < 0 then -n else n) := by split <;> omega
  have hle : (if n < 0 then -n else n) ≤ 170141183460469231731687303715884105728 := by
    unfold fits128 at hn; split <;> omega
  unfold remI
  simp only [hun]
  by_cases h1 : i < 0
  · simp only [h1, if_true]
    rw [toU_negI_of_neg hi h1]
    have hx0 := Int.emod_nonneg (-i) (Int.ne_of_gt hpos)
    have hx1 := Int.emod_lt_of_pos (-i) hpos
    rw [wrap128_of_fits (by unfold fits128; omega), negI_of_nonneg hx0]
    have e : i.tmod n = -((-i).tmod n) := by rw [Int.neg_tmod]; omega
    rw [e, tmod_of_nonneg (-i) n (by omega)]
  · have hi0 : 0 ≤ i := by omega
    simp only [h1, if_false]
    rw [toU_of_nonneg hi hi0]
    have hx0 := Int.emod_nonneg i (Int.ne_of_gt hpos)
    have hx1 := Int.emod_lt_of_pos i hpos
    rw [wrap128_of_fits (by unfold fits128; omega), tmod_of_nonneg i n hi0]

/-- **Mod** (`Int128.Mod` of the raw values) is the truncated remainder for EVERY pair of operands with a non-zero
    divisor -/
theorem mod_tmod {m a b : Int} (ha : fits128 a) (hbf : fits128 b) (hb : b ≠ 0) : mod m a b = some (a.tmod b) := by
  unfold mod; rw [if_neg hb, remI_eq ha hbf hb]

/-- the earlier, weaker statement; kept for its users -/
theorem mod_eq {m a b : Int} (_hm : Mult m) (ha : fits128 a) (hbf : fits128 b) (hb : b ≠ 0) (_hp : fits128 (a * m))
    (_hq : fits128 ((a * m).tdiv b)) : mod m a b = some (a.tmod b) := mod_tmod ha hbf hb

theorem neg_eq {a : Int} (h : fits128 (-a)) (ha : fits128 a) : neg a = -a := by
  unfold neg negI minRaw; unfold fits128 at *; split <;> omega

theorem abs_eq {a : Int} (h : fits128 (-a)) : abs a = |a| := by
  unfold abs absI
  by_cases ha : a < 0
  · rw [if_pos ha, wrap128_of_fits h, abs_of_neg ha]
  · rw [if_neg ha, abs_of_nonneg (by omega)]

theorem ceil_eq {m a : Int} (hm : Mult m) (ha : fits128 a) (hr : fits128 (fxCeil m a)) : ceil m a = fxCeil m a := by
  unfold ceil
  simp only [trunc_eq hm ha, gt, decide_eq_true_eq]
  unfold fxCeil at hr ⊢
  by_cases hc : a > 0 ∧ a ≠ fxTrunc m a
  · rw [if_pos hc] at hr; rw [if_pos hc, if_pos hc]; exact add_exact hr
  · rw [if_neg hc, if_neg hc]

theorem round_eq {m a : Int} (hm : Mult m) (ha : fits128 a) (hr : fits128 (fxRound m a)) :
    round m a = fxRound m a := by
  have hm0 := hm.pos
  have hmle := hm.le
  have hrem : fits128 (a - fxTrunc m a) := by
    have := (trunc_spec m a hm0).2.1
    rw [abs_lt] at this
    unfold fits128; omega
  have hb := (tdiv_between m 2 (by omega)).1 (by omega)
  have h2 : quo m 2 = m.tdiv 2 :=
    quo_eq (Mult.fits128 hm) (by unfold fits128; omega) (fits128_tdiv (Mult.fits128 hm) (by omega))
  have h3 : neg (m.tdiv 2) = -(m.tdiv 2) := by
    apply neg_eq <;> (unfold fits128; omega)
  unfold round
  simp only [trunc_eq hm ha, sub_exact hrem, h2, h3, ge, le, decide_eq_true_eq]
  unfold fxRound at hr ⊢
  by_cases c1 : a - fxTrunc m a ≥ m.tdiv 2
  · rw [if_pos c1] at hr; rw [if_pos c1, if_pos c1]; exact add_exact hr
  · rw [if_neg c1] at hr; rw [if_neg c1, if_neg c1]
    by_cases c2 : a - fxTrunc m a ≤ -(m.tdiv 2)
    · rw [if_pos c2] at hr; rw [if_pos c2, if_pos c2]; exact sub_exact hr
    · rw [if_neg c2, if_neg c2]

theorem min_eq (a b : Int) : F128.min a b = Min.min a b := by
  unfold F128.min lt; by_cases h : a < b
  · simp only [h, decide_true, if_true]; omega
  · simp only [h, decide_false, Bool.false_eq_true, if_false]; omega
theorem max_eq (a b : Int) : F128.max a b = Max.max a b := by
  unfold F128.max gt; by_cases h : a > b
  · simp only [h, decide_true, if_true]; omega
  · simp only [h, decide_false, Bool.false_eq_true, if_false]; omega

theorem inc_eq {m a : Int} (h : fits128 (a + m)) : inc m a = a + m := add_exact h
theorem dec_eq {m a : Int} (h : fits128 (a - m)) : dec m a = a - m := sub_exact h

/-- `AsInt64` is the identity on values in the int64 range -/
theorem asInt64_of_fits {x : Int} (h : fits64 x) : asInt64 x = x := by
  unfold asInt64 wrap64; unfold fits64 at h
  simp only
  split <;> omega

theorem fromInt_eq {k : Kind} (hk : k ∈ kinds) {m v : Int} (hm : Mult m) (hv : fitsKind k v) :
    fromInt k m v = v * m := by
  have h0 := hm.pos
  have h1 := hm.le
  have hp : ∀ x : Int, -18446744073709551616 ≤ x → x ≤ 18446744073709551616 → fits128 (x * m) := by
    intro x hx1 hx2
    have : x * m ≤ 18446744073709551616 * m := by nlinarith
    have : -18446744073709551616 * m ≤ x * m := by nlinarith
    unfold fits128; omega
  unfold fromInt mulI
  simp only [kinds, List.mem_cons, List.not_mem_nil, or_false] at hk
  rcases hk with rfl | rfl | rfl | rfl | rfl | rfl | rfl | rfl <;>
    simp [fitsKind] at hv <;> simp only [if_true, Bool.false_eq_true, if_false]
  all_goals first
    | (rw [wrap64_of_fits (by unfold fits64; omega), wrap128_of_fits (hp v (by omega) (by omega))])
    | (rw [Int.emod_eq_of_lt (by omega) (by omega), wrap128_of_fits (hp v (by omega) (by omega))])

theorem toKind_of_fits {k : Kind} (hk : k ∈ kinds) {x : Int} (h : fitsKind k x) : toKind k x = x := by
  unfold toKind
  simp only [kinds, List.mem_cons, List.not_mem_nil, or_false] at hk
  rcases hk with rfl | rfl | rfl | rfl | rfl | rfl | rfl | rfl <;>
    simp [fitsKind] at h <;> simp <;> omega

end Fixed.F128
