import Lemmas.EvenOdd

/-! C05: nothing is inside a rectilinear lattice polygon of `[0,N]²` at a point outside the square.  The case "left of
    the square" needs the parity argument: a closed contour crosses a horizontal line an even number of times. -/

namespace EOQ

/-! ### a closed path changes a Boolean attribute an even number of times -/

set_option linter.unusedSimpArgs false in
theorem pairs_parity {α : Type} (f : α → Bool) (l : List α) (v w : α) :
    ((EO.pairs (v :: l) w).countP (fun e => f e.1 != f e.2)) % 2 = (if (f v != f w) = true then 1 else 0) := by
  induction l generalizing v with
  | nil => simp only [EO.pairs, List.countP_cons, List.countP_nil]; split <;> simp_all
  | cons a t ih =>
    have h := ih a
    simp only [EO.pairs, List.countP_cons]
    generalize List.countP (fun e => f e.1 != f e.2) (EO.pairs (a :: t) w) = n at h ⊢
    cases hv : f v <;> cases ha : f a <;> cases hw : f w <;> simp [hv, ha, hw] at h ⊢ <;> omega

theorem edgesOf_parity {α : Type} (f : α → Bool) (c : List α) :
    ((EO.edgesOf c).countP (fun e => f e.1 != f e.2)) % 2 = 0 := by
  cases c with
  | nil => simp [EO.edgesOf]
  | cons v t =>
    simp only [EO.edgesOf]
    rw [pairs_parity]; simp

theorem allEdges_parity {α : Type} (f : α → Bool) (P : List (List α)) :
    ((EO.allEdges P).countP (fun e => f e.1 != f e.2)) % 2 = 0 := by
  unfold EO.allEdges
  induction P with
  | nil => simp
  | cons c P ih =>
    rw [List.flatMap_cons, List.countP_append, Nat.add_mod, ih, edgesOf_parity]

/-! ### end points of edges are vertices -/

theorem mem_pairs {α : Type} (l : List α) (w : α) (e : α × α) (h : e ∈ EO.pairs l w) :
    e.1 ∈ l ∧ (e.2 ∈ l ∨ e.2 = w) := by
  induction l with
  | nil => simp [EO.pairs] at h
  | cons a t ih =>
    cases t with
    | nil =>
      simp only [EO.pairs, List.mem_singleton] at h
      subst h; simp
    | cons b t' =>
      simp only [EO.pairs, List.mem_cons] at h
      rcases h with h | h
      · subst h; simp
      · have := ih (by simpa [EO.pairs] using h)
        constructor
        · exact List.mem_cons_of_mem _ this.1
        · rcases this.2 with h2 | h2
          · exact Or.inl (List.mem_cons_of_mem _ h2)
          · exact Or.inr h2

theorem mem_edgesOf {α : Type} (c : List α) (e : α × α) (h : e ∈ EO.edgesOf c) : e.1 ∈ c ∧ e.2 ∈ c := by
  cases c with
  | nil => simp [EO.edgesOf] at h
  | cons v t =>
    have := mem_pairs (v :: t) v e h
    refine ⟨this.1, ?_⟩
    rcases this.2 with h2 | h2
    · exact h2
    · rw [h2]; exact List.mem_cons_self

theorem mem_allEdges {α : Type} (P : List (List α)) (e : α × α) (h : e ∈ EO.allEdges P) :
    ∃ c ∈ P, e.1 ∈ c ∧ e.2 ∈ c := by
  unfold EO.allEdges at h
  rw [List.mem_flatMap] at h
  obtain ⟨c, hc, he⟩ := h
  exact ⟨c, hc, mem_edgesOf c e he⟩

/-! ### the crossing test on a rectilinear edge -/

theorem crosses_rect (a b p : QPt) (h : a.x = b.x ∨ a.y = b.y) :
    crosses a b p ↔ (a.y ≠ b.y ∧ min a.y b.y ≤ p.y ∧ p.y < max a.y b.y ∧ p.x < a.x) := by
  unfold crosses
  by_cases hh : a.y = b.y
  · simp [hh]
  · have hv : a.x = b.x := h.resolve_right hh
    have hx : a.x + (p.y - a.y) * (b.x - a.x) / (b.y - a.y) = a.x := by rw [hv]; simp
    rw [hx]

/-- all vertices in `[0,N]²`, all edges horizontal or vertical -/
def InSquareRect (N : ℚ) (P : QPolygon) : Prop :=
  ∀ e ∈ EO.allEdges P, (e.1.x = e.2.x ∨ e.1.y = e.2.y) ∧
    0 ≤ e.1.x ∧ e.1.x ≤ N ∧ 0 ≤ e.1.y ∧ e.1.y ≤ N ∧ 0 ≤ e.2.y ∧ e.2.y ≤ N

theorem straddle_iff (ay by_ py : ℚ) :
    (ay ≠ by_ ∧ min ay by_ ≤ py ∧ py < max ay by_) ↔ ((decide (ay ≤ py) != decide (by_ ≤ py)) = true) := by
  rcases lt_trichotomy ay by_ with h | h | h
  · rw [min_eq_left h.le, max_eq_right h.le]
    by_cases h1 : ay ≤ py <;> by_cases h2 : by_ ≤ py <;> simp [h1, h2, ne_of_lt h] <;> linarith
  · subst h; simp
  · rw [min_eq_right h.le, max_eq_left h.le]
    by_cases h1 : ay ≤ py <;> by_cases h2 : by_ ≤ py <;> simp [h1, h2, ne_of_gt h] <;> linarith

/-- nothing is inside at a point strictly outside the closed square -/
theorem outside_not_inside (N : ℚ) (P : QPolygon) (hP : InSquareRect N P) (p : QPt)
    (hout : p.x < 0 ∨ N < p.x ∨ p.y < 0 ∨ N < p.y) : ¬ inside P p := by
  unfold inside crossCount
  have zero_of : (∀ e ∈ EO.allEdges P, ¬ crosses e.1 e.2 p) →
      (EO.allEdges P).countP (fun e => decide (crosses e.1 e.2 p)) = 0 := by
    intro h
    rw [List.countP_eq_zero]
    intro e he; simpa using h e he
  rcases hout with hx | hx | hy | hy
  · -- left of the square: every straddling edge is crossed; a closed contour straddles the line evenly often
    have : (EO.allEdges P).countP (fun e => decide (crosses e.1 e.2 p)) =
        (EO.allEdges P).countP (fun e => decide (e.1.y ≤ p.y) != decide (e.2.y ≤ p.y)) := by
      apply List.countP_congr
      intro e he
      obtain ⟨hr, h1, _, _, _, _, _⟩ := hP e he
      have hlt : p.x < e.1.x := lt_of_lt_of_le hx h1
      rw [decide_eq_true_eq, crosses_rect _ _ _ hr, ← straddle_iff]
      constructor
      · rintro ⟨a, b, c, _⟩; exact ⟨a, b, c⟩
      · rintro ⟨a, b, c⟩; exact ⟨a, b, c, hlt⟩
    rw [this]
    have h2 : (EO.allEdges P).countP (fun e => decide (e.1.y ≤ p.y) != decide (e.2.y ≤ p.y)) % 2 = 0 :=
      allEdges_parity (fun v : QPt => decide (v.y ≤ p.y)) P
    omega
  · rw [zero_of]; · simp
    intro e he
    obtain ⟨hr, _, h2, _, _, _, _⟩ := hP e he
    rw [crosses_rect _ _ _ hr]
    rintro ⟨_, _, _, h⟩; linarith
  · rw [zero_of]; · simp
    intro e he
    obtain ⟨hr, _, _, h3, _, h5, _⟩ := hP e he
    rw [crosses_rect _ _ _ hr]
    rintro ⟨_, h, _, _⟩
    have : 0 ≤ min e.1.y e.2.y := le_min h3 h5
    linarith
  · rw [zero_of]; · simp
    intro e he
    obtain ⟨hr, _, _, _, h4, _, h6⟩ := hP e he
    rw [crosses_rect _ _ _ hr]
    rintro ⟨_, _, h, _⟩
    have : max e.1.y e.2.y ≤ N := max_le h4 h6
    linarith

/-- the executable lattice check gives the hypothesis -/
theorem latticeOK_inSquareRect (N : Nat) (P : EO.Polygon) (h : EO.latticeOK N P = true) :
    InSquareRect (N : ℚ) (polyQ P) := by
  unfold EO.latticeOK at h
  rw [Bool.and_eq_true, List.all_eq_true, List.all_eq_true] at h
  obtain ⟨hv, hr⟩ := h
  intro e he
  unfold polyQ at he
  rw [allEdges_map, List.mem_map] at he
  obtain ⟨⟨a, b⟩, hab, rfl⟩ := he
  have hrr := hr (a, b) hab
  unfold EO.rectEdge at hrr
  simp only [Bool.or_eq_true, beq_iff_eq] at hrr
  obtain ⟨c, hc, ha, hb⟩ := mem_allEdges P (a, b) hab
  have hcv := hv c hc
  rw [List.all_eq_true] at hcv
  have sa := hcv a ha
  have sb := hcv b hb
  unfold EO.inSquare at sa sb
  simp only [decide_eq_true_eq] at sa sb
  simp only [Prod.map, toQ]
  refine ⟨?_, ?_, ?_, ?_, ?_, ?_, ?_⟩
  · rcases hrr with h | h
    · left; exact_mod_cast h
    · right; exact_mod_cast h
  · exact_mod_cast sa.1
  · exact_mod_cast sa.2.1
  · exact_mod_cast sa.2.2.1
  · exact_mod_cast sa.2.2.2
  · exact_mod_cast sb.2.2.1
  · exact_mod_cast sb.2.2.2

end EOQ
