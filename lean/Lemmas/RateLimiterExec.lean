import Lemmas.RateLimiter
/-! What the fused scheduler `RL.exec` computes in a state in which nobody holds the lock (the states between two
    fused calls).  Core Lean. -/
namespace RL

theorem unlock_lockApi (s : S) (h : s.holder = .free) : unlock (lockApi s) = s := by
  cases s; simp only at h; subst h; rfl
theorem unlock_answer (s : S) (a : Ans) (h : s.holder = .free) : unlock (answer (lockApi s) a) = answer s a := by
  cases s; simp only at h; subst h; rfl
theorem unlock_useZero (s : S) (l : Nat) (h : s.holder = .free) : unlock (doUseZero (lockApi s) l) = doUseZero s l := by
  cases s; simp only at h; subst h; rfl
theorem unlock_useGrant (s : S) (l a : Nat) (h : s.holder = .free) :
    unlock (doUseGrant (lockApi s) l a) = doUseGrant s l a := by
  cases s; simp only at h; subst h; rfl
theorem unlock_useWait (s : S) (l a : Nat) (h : s.holder = .free) :
    unlock (doUseWait (lockApi s) l a) = doUseWait s l a := by
  cases s; simp only at h; subst h; rfl
theorem unlock_newChild (s : S) (p c : Nat) (h : s.holder = .free) :
    unlock (doNewChild (lockApi s) p c) = doNewChild s p c := by
  cases s; simp only at h; subst h; rfl
theorem unlock_closeChild (s : S) (l : Nat) (h : s.holder = .free) :
    unlock (doCloseChild (lockApi s) l) = doCloseChild s l := by
  cases s; simp only at h; subst h; rfl
theorem unlock_setCap (s : S) (l c : Nat) (h : s.holder = .free) : unlock (doSetCap (lockApi s) l c) = doSetCap s l c := by
  cases s; simp only at h; subst h; rfl

section
variable (s : S) (hf : s.holder = .free)
include hf

theorem exec_use_neg (l : Nat) (amt : Int) (hl : l < s.n) (ha : amt < 0) : exec s (.use l amt) = answer s .errNeg := by
  simp [exec, plan, runMicros, micro, hl, ha]

theorem exec_use_body (l : Nat) (amt : Int) (hl : l < s.n) (ha : ¬ amt < 0) :
    exec s (.use l amt) = micro (lockApi s) (.use l amt.toNat) := by
  simp [exec, plan, runMicros, micro, hl, ha, hf]

theorem exec_use_closed (l : Nat) (amt : Int) (hl : l < s.n) (ha : 0 ≤ amt) (hc : s.closed l = true) :
    exec s (.use l amt) = answer s .errClosed := by
  rw [exec_use_body s hf l amt hl (by omega), ← unlock_answer s _ hf]
  have h1 : (lockApi s).closed l = true := hc
  have h2 : l < (lockApi s).n ∧ (lockApi s).holder = .api := ⟨hl, rfl⟩
  simp only [micro, h2, and_self, if_true, h1]

theorem exec_use_zero (l : Nat) (hl : l < s.n) (ho : s.closed l = false) : exec s (.use l 0) = doUseZero s l := by
  rw [exec_use_body s hf l 0 hl (by omega), ← unlock_useZero s _ hf]
  have h1 : (lockApi s).closed l = false := ho
  have h2 : l < (lockApi s).n ∧ (lockApi s).holder = .api := ⟨hl, rfl⟩
  simp [micro, h2, h1]

theorem exec_use_toobig (l : Nat) (amt : Int) (hl : l < s.n) (ha : 0 < amt) (ho : s.closed l = false)
    (hb : amt.toNat > effCap s.cap (s.chain l) (s.cap l)) : exec s (.use l amt) = answer s .errCap := by
  rw [exec_use_body s hf l amt hl (by omega), ← unlock_answer s _ hf]
  have h1 : (lockApi s).closed l = false := ho
  have h2 : l < (lockApi s).n ∧ (lockApi s).holder = .api := ⟨hl, rfl⟩
  have h3 : ¬ amt.toNat = 0 := by omega
  have h4 : amt.toNat > effCap (lockApi s).cap ((lockApi s).chain l) ((lockApi s).cap l) := hb
  simp [micro, h2, h1, h3, h4]

theorem exec_use_room (l : Nat) (amt : Int) (hl : l < s.n) (ha : 0 < amt) (ho : s.closed l = false)
    (hb : amt.toNat ≤ effCap s.cap (s.chain l) (s.cap l)) :
    exec s (.use l amt) =
      if fits s.cap s.used (s.chain l) amt.toNat then doUseGrant s l amt.toNat else doUseWait s l amt.toNat := by
  rw [exec_use_body s hf l amt hl (by omega), ← unlock_useGrant s _ _ hf, ← unlock_useWait s _ _ hf]
  have h1 : (lockApi s).closed l = false := ho
  have h2 : l < (lockApi s).n ∧ (lockApi s).holder = .api := ⟨hl, rfl⟩
  have h3 : ¬ amt.toNat = 0 := by omega
  have h4 : ¬ amt.toNat > effCap (lockApi s).cap ((lockApi s).chain l) ((lockApi s).cap l) := by
    show ¬ amt.toNat > effCap s.cap (s.chain l) (s.cap l); omega
  have h5 : fits (lockApi s).cap (lockApi s).used ((lockApi s).chain l) amt.toNat = fits s.cap s.used (s.chain l) amt.toNat := rfl
  simp only [micro, h2, and_self, if_true, h1, Bool.false_eq_true, if_false, h3, h4, h5]

theorem exec_newChild_open (p : Nat) (c : Int) (hp : p < s.n) (ho : s.closed p = false) :
    exec s (.newChild p c) = doNewChild s p (clampCap c) := by
  rw [← unlock_newChild s _ _ hf]
  have h1 : (lockApi s).closed p = false := ho
  have h2 : p < (lockApi s).n ∧ (lockApi s).holder = .api := ⟨hp, rfl⟩
  simp [exec, plan, runMicros, micro, hp, hf, h1, h2]

theorem exec_newChild_closed (p : Nat) (c : Int) (hp : p < s.n) (hc : s.closed p = true) : exec s (.newChild p c) = s := by
  have h1 : (lockApi s).closed p = true := hc
  have h2 : p < (lockApi s).n ∧ (lockApi s).holder = .api := ⟨hp, rfl⟩
  have : exec s (.newChild p c) = unlock (lockApi s) := by
    simp [exec, plan, runMicros, micro, hp, hf, h1, h2]
  rw [this, unlock_lockApi s hf]

theorem exec_closeChild_open (l : Nat) (hl : l < s.n) (h0 : l ≠ 0) (ho : s.closed l = false) :
    exec s (.close l) = doCloseChild s l := by
  rw [← unlock_closeChild s _ hf]
  have h1 : (lockApi s).closed l = false := ho
  have h2 : l < (lockApi s).n ∧ l ≠ 0 ∧ (lockApi s).holder = .api := ⟨hl, h0, rfl⟩
  simp [exec, plan, runMicros, micro, hl, hf, h0, h1, h2]

theorem exec_closeChild_closed (l : Nat) (hl : l < s.n) (h0 : l ≠ 0) (hc : s.closed l = true) : exec s (.close l) = s := by
  have h1 : (lockApi s).closed l = true := hc
  have h2 : l < (lockApi s).n ∧ l ≠ 0 ∧ (lockApi s).holder = .api := ⟨hl, h0, rfl⟩
  have : exec s (.close l) = unlock (lockApi s) := by
    simp [exec, plan, runMicros, micro, hl, hf, h0, h1, h2]
  rw [this, unlock_lockApi s hf]

theorem exec_setCap (l : Nat) (c : Int) (hl : l < s.n) : exec s (.setCap l c) = doSetCap s l (clampCap c) := by
  rw [← unlock_setCap s _ _ hf]
  have h2 : l < (lockApi s).n ∧ (lockApi s).holder = .api := ⟨hl, rfl⟩
  simp [exec, plan, runMicros, micro, hl, hf, h2]

theorem exec_tick (ht : s.tpc = .sel) :
    exec s .tick = doTickUnlock (doTickRuns (doTickLock (doTickFires s))) := by
  have a : (doTickFires s).tpc = .tlock ∧ (doTickFires s).holder = .free := ⟨rfl, hf⟩
  have b : (doTickLock (doTickFires s)).tpc = .tcrit ∧ (doTickLock (doTickFires s)).holder = .ticker := ⟨rfl, rfl⟩
  have d : (doTickRuns (doTickLock (doTickFires s))).tpc = .tunl := rfl
  simp [exec, plan, runMicros, micro, ht, hf, a, b, d]

theorem exec_close_root_closed (hn : 0 < s.n) (hc : s.closed 0 = true) : exec s (.close 0) = s := by
  have : exec s (.close 0) = unlock (lockApi s) := by
    have h2 : (lockApi s).holder = .api := rfl
    simp [exec, plan, runMicros, micro, hn, hf, hc, h2]
  rw [this, unlock_lockApi s hf]

/-- root `Close` as the fused scheduler performs it: lock, mark, unlock, hand-over, and the goroutine's drain -/
def closeRootFused (s : S) : S :=
  doDrainUnlock (doDrain (doDrainLock (doDoneReceived (doCloseUnlock (doCloseRootMark (doCloseLock s))))))

theorem exec_close_root (hn : 0 < s.n) (ho : s.closed 0 = false) (hc : s.cpc = .idle) (ht : s.tpc = .sel) :
    exec s (.close 0) = closeRootFused s := by
  have a1 : (doCloseLock s).holder = .closer ∧ (doCloseLock s).closed 0 = false ∧ (doCloseLock s).cpc = .crit :=
    ⟨rfl, ho, rfl⟩
  have a2 : (doCloseRootMark (doCloseLock s)).cpc = .marked := rfl
  have a3 : (doCloseUnlock (doCloseRootMark (doCloseLock s))).tpc = .sel ∧
      (doCloseUnlock (doCloseRootMark (doCloseLock s))).cpc = .send := ⟨ht, rfl⟩
  have a4 : (doDoneReceived (doCloseUnlock (doCloseRootMark (doCloseLock s)))).tpc = .dlock ∧
      (doDoneReceived (doCloseUnlock (doCloseRootMark (doCloseLock s)))).holder = .free := ⟨rfl, rfl⟩
  have a5 : (doDrainLock (doDoneReceived (doCloseUnlock (doCloseRootMark (doCloseLock s))))).tpc = .dcrit ∧
      (doDrainLock (doDoneReceived (doCloseUnlock (doCloseRootMark (doCloseLock s))))).holder = .ticker := ⟨rfl, rfl⟩
  have a6 : (doDrain (doDrainLock (doDoneReceived (doCloseUnlock (doCloseRootMark (doCloseLock s)))))).tpc = .dunl := rfl
  simp [exec, plan, runMicros, micro, closeRootFused, hn, hf, ho, hc, ht, a1, a2, a3, a4, a5, a6]

end

end RL
