import Lemmas.ExtractExact
import Lemmas.ExtractStepZip
/-! C19: the final statements — a well-formed archive (`ArchOK`, a condition on the entries and the root only)
    extracted into an empty existing destination (`EmptyDst`) runs without error and leaves exactly the archive's tree
    (`Exact`); when the loop returns an error (`extractWith_error_iff`). -/
namespace Ex

/-- a well-formed archive.  Purely syntactic: it speaks about the entries and the (text of the) root only.
    * `entry`: every cleaned entry path is a proper descendant of the root, and the entry is acceptable on its own
      (`ok`: `TarEntryOK` / `ZipEntryOK`);
    * `compat` (for an earlier `a` and a later `b`): `b`'s path is not `a`'s path and not an ancestor of it (no
      duplicates; explicit parents come first, all other parents are implied), and `b` lies beneath `a` only if `a` is
      a directory entry (nothing beneath a symbolic link or file entry);
    * `links`: a hard-link entry's target cleans to the path of an earlier regular-file or hard-link entry. -/
structure ArchOK (root : P) (ok : Entry → Prop) (es : List Entry) : Prop where
  entry : ∀ e ∈ es, Below root (e.path root) ∧ ok e
  compat : es.Pairwise (Compat root)
  links : LinksOK root es

/-- an empty destination: the destination is an existing directory or does not exist yet, nothing exists below it,
    and every ancestor of it that exists is a real directory — in a well-formed tree (every node's parent is a
    directory; every file node has an inode) -/
structure EmptyDst (root : P) (fs : FS) : Prop where
  wf : WF fs
  ino : InoOK fs
  dst : fs.get root = none ∨ ∃ m, fs.get root = some (.dir m)
  anc : ∀ j, 1 ≤ j → j < root.length → fs.get (root.take j) = none ∨ ∃ m, fs.get (root.take j) = some (.dir m)
  empty : ∀ q, Below root q → fs.get q = none

/-- the tree `fs'` below the root is exactly the tree the archive `es` records.
    * `present`: every entry is at its cleaned path as recorded (`NodeOf`: directory with `perm mode & mask`; regular
      file with the complete payload and `perm mode & mask`; symbolic link with the target verbatim; hard link on the
      inode of its target);
    * `only`: a path strictly below the root exists iff it is the path of an entry or an ancestor of one;
    * `implied`: a parent directory that is not itself an entry has the mode `MkdirAll` gave it when the first entry
      beneath it was extracted: `pmode e & mask`, i.e. `0o755 & mask`, or `perm mode & mask` of that entry if it is a
      directory entry;
    * `regs`: different regular-file entries are different files (inodes) — the only sharing is the recorded one. -/
structure Exact (root : P) (mask : Nat) (es : List Entry) (fs' : FS) : Prop where
  present : ∀ e ∈ es, ∃ n, fs'.get (e.path root) = some n ∧ NodeOf root mask fs' e n
  only : ∀ q, Below root q → (fs'.get q ≠ none ↔ ∃ e ∈ es, q <+: e.path root)
  implied : ∀ l1 e l2, es = l1 ++ e :: l2 → ∀ q, Below root q → q <+: e.path root → q ≠ e.path root →
    (∀ e' ∈ l1, ¬ q <+: e'.path root) → fs'.get q = some (.dir (pmode e &&& mask))
  regs : es.Pairwise (fun a b => a.kind = .reg → b.kind = .reg → fs'.get (a.path root) ≠ fs'.get (b.path root))
  rootdir : es ≠ [] → root ≠ [] → ∃ m, fs'.get root = some (.dir m)

theorem Inv.toExact {root : P} {mask : Nat} {fs' : FS} {es : List Entry} (h : Inv root mask fs' es) :
    Exact root mask es fs' := by
  refine ⟨h.present, fun q hq => ⟨fun hne => ?_, fun ⟨e, he, hpre⟩ => ?_⟩, h.implied, h.regs, ?_⟩
  rotate_left 2
  · intro hes hroot
    cases es with
    | nil => exact absurd rfl hes
    | cons e es =>
      have hb := h.below e (by simp)
      obtain ⟨n, hn, _⟩ := h.present e (by simp)
      exact wf_prefix_dir' fs' h.wf _ root n hn hb.prefix hb.ne.symm hroot
  · cases hg : fs'.get q with
    | none => exact absurd hg hne
    | some n => exact h.exact q hq n hg
  · obtain ⟨n, hn, _⟩ := h.present e he
    by_cases heq : q = e.path root
    · rw [heq, hn]; simp
    · obtain ⟨m, hm⟩ := wf_prefix_dir' fs' h.wf _ q n hn hpre heq hq.ne_nil
      rw [hm]; simp

theorem EmptyDst.inv {root : P} {fs : FS} (h : EmptyDst root fs) (mask : Nat) : Inv root mask fs [] :=
  Inv.init root mask fs h.wf h.ino h.dst h.anc h.empty

theorem tar_exact (root : P) (hr : GoodPath root) (mask : Nat) (es : List Entry) (fs : FS) (hd : EmptyDst root fs)
    (ha : ArchOK root TarEntryOK es) :
    (tarExtract fs root mask es).2 = true ∧ Exact root mask es (tarExtract fs root mask es).1 := by
  have := extractWith_exact root mask (fun fs e => tarOne fs root mask e) (fun fs e => tarOne_sys root hr fs mask e)
    TarEntryOK (fun fs e hw hok hrd hlk => tarOne_step root hr mask fs e hw hok hrd hlk) es [] fs (hd.inv mask)
    (by simpa using ha.entry) (by simpa using ha.compat) (by simpa using ha.links)
  simp only [List.nil_append] at this
  exact ⟨this.1, this.2.toExact⟩

theorem linksOK_of_zip (root : P) (es : List Entry) (h : ∀ e ∈ es, ZipEntryOK e) : LinksOK root es := by
  intro l1 e l2 hdec hk
  have hm : e ∈ es := by rw [hdec]; simp
  rcases (h e hm).1 with h1 | h1 | h1 <;> (rw [hk] at h1; cases h1)

theorem zip_exact (root : P) (hr : GoodPath root) (mask : Nat) (es : List Entry) (fs : FS) (hd : EmptyDst root fs)
    (hentry : ∀ e ∈ es, Below root (e.path root) ∧ ZipEntryOK e) (hcompat : es.Pairwise (Compat root)) :
    (zipExtract fs root mask es).2 = true ∧ Exact root mask es (zipExtract fs root mask es).1 := by
  have := extractWith_exact root mask (fun fs e => zipOne fs root mask e) (fun fs e => zipOne_sys root hr fs mask e)
    ZipEntryOK (fun fs e _ hok hrd _ => zipOne_step root hr mask fs e hok hrd) es [] fs (hd.inv mask)
    (by simpa using hentry) (by simpa using hcompat)
    (by simpa using linksOK_of_zip root es (fun e he => (hentry e he).2))
  simp only [List.nil_append] at this
  exact ⟨this.1, this.2.toExact⟩

/-- `Exact` written out -/
theorem reproduced_spelled (root : P) (mask : Nat) (es : List Entry) (r : FS × Bool) (hok : r.2 = true)
    (hex : Exact root mask es r.1) {R : Prop} (hroot : R) :
    r.2 = true ∧
    (∀ e ∈ es, e.kind = .dir → r.1.get (cleanJoin root e.name) = some (.dir (perm e.mode &&& mask))) ∧
    (∀ e ∈ es, e.kind = .reg → ∃ ino nd, r.1.get (cleanJoin root e.name) = some (.file ino) ∧
      r.1.inodes[ino]? = some nd ∧ nd.data = e.data ∧ nd.mode = perm e.mode &&& mask) ∧
    (∀ e ∈ es, e.kind = .symlink → r.1.get (cleanJoin root e.name) = some (.symlink e.link)) ∧
    (∀ e ∈ es, e.kind = .link → ∃ ino, r.1.get (cleanJoin root e.name) = some (.file ino) ∧
      r.1.get (cleanJoin root e.link) = some (.file ino)) ∧
    (∀ c t, r.1.get (root ++ c :: t) ≠ none ↔ ∃ e ∈ es, (root ++ c :: t) <+: cleanJoin root e.name) ∧
    (∀ l1 e l2, es = l1 ++ e :: l2 → ∀ c t, (root ++ c :: t) <+: cleanJoin root e.name →
      root ++ c :: t ≠ cleanJoin root e.name → (∀ e' ∈ l1, ¬ (root ++ c :: t) <+: cleanJoin root e'.name) →
      r.1.get (root ++ c :: t) = some (.dir ((if e.kind = .dir then perm e.mode else 0o755) &&& mask))) ∧
    es.Pairwise (fun a b => a.kind = .reg → b.kind = .reg →
      r.1.get (cleanJoin root a.name) ≠ r.1.get (cleanJoin root b.name)) ∧
    (es ≠ [] → root ≠ [] → ∃ m, r.1.get root = some (.dir m)) ∧ R := by
  refine ⟨hok, ?_, ?_, ?_, ?_, ?_, ?_, hex.regs, hex.rootdir, hroot⟩
  · intro e he hk
    obtain ⟨n, hn, hnode⟩ := hex.present e he
    rw [hn, hnode.2.1 hk]
  · intro e he hk
    obtain ⟨n, hn, hnode⟩ := hex.present e he
    obtain ⟨ino, nd, h1, h2, h3, h4⟩ := hnode.1 hk
    exact ⟨ino, nd, by rw [hn, h1], h2, h3, h4⟩
  · intro e he hk
    obtain ⟨n, hn, hnode⟩ := hex.present e he
    rw [hn, hnode.2.2.1 hk]
  · intro e he hk
    obtain ⟨n, hn, hnode⟩ := hex.present e he
    obtain ⟨ino, h1, h2⟩ := hnode.2.2.2 hk
    exact ⟨ino, by rw [hn, h1], h2⟩
  · intro c t
    exact hex.only _ ⟨c, t, rfl⟩
  · intro l1 e l2 hdec c t h1 h2 h3
    exact hex.implied l1 e l2 hdec _ ⟨c, t, rfl⟩ h1 h2 h3

/-! ### decidable forms of the hypotheses (used to show they are satisfiable on concrete archives) -/

theorem below_iff (root p : P) : Below root p ↔ (root <+: p ∧ p ≠ root) :=
  ⟨fun h => ⟨h.prefix, h.ne⟩, fun h => below_of h.1 h.2⟩

instance (root p : P) : Decidable (Below root p) := decidable_of_iff _ (below_iff root p).symm
instance (e : Entry) : Decidable (TarEntryOK e) := by unfold TarEntryOK; infer_instance
instance (e : Entry) : Decidable (ZipEntryOK e) := by unfold ZipEntryOK; infer_instance
instance (root : P) (a b : Entry) : Decidable (Compat root a b) := by unfold Compat; infer_instance

/-- `LinksOK` as a left-to-right check -/
def linksFrom (root : P) : List Entry → List Entry → Prop
  | _, [] => True
  | done, e :: rest =>
    (e.kind = .link → ∃ t ∈ done, (t.kind = .reg ∨ t.kind = .link) ∧ t.path root = cleanJoin root e.link) ∧
    linksFrom root (done ++ [e]) rest

instance (root : P) : ∀ (done rest : List Entry), Decidable (linksFrom root done rest)
  | _, [] => isTrue trivial
  | done, e :: rest =>
    have := instDecidableLinksFrom root (done ++ [e]) rest
    by unfold linksFrom; infer_instance

theorem linksFrom_spec (root : P) (rest done : List Entry) (h : linksFrom root done rest) :
    ∀ l1 e l2, rest = l1 ++ e :: l2 → e.kind = .link →
      ∃ t ∈ done ++ l1, (t.kind = .reg ∨ t.kind = .link) ∧ t.path root = cleanJoin root e.link := by
  induction rest generalizing done with
  | nil => intro l1 e l2 hdec; simp at hdec
  | cons x xs ih =>
    intro l1 e l2 hdec hk
    obtain ⟨h1, h2⟩ := h
    cases l1 with
    | nil =>
      simp only [List.nil_append, List.cons.injEq] at hdec
      rw [List.append_nil, ← hdec.1]
      exact h1 (hdec.1 ▸ hk)
    | cons y ys =>
      simp only [List.cons_append, List.cons.injEq] at hdec
      obtain ⟨t, ht, hres⟩ := ih (done ++ [x]) h2 ys e l2 hdec.2 hk
      exact ⟨t, by rw [← hdec.1]; simpa using ht, hres⟩

theorem linksOK_of_from (root : P) (es : List Entry) (h : linksFrom root [] es) : LinksOK root es := by
  intro l1 e l2 hdec hk
  simpa using linksFrom_spec root es [] h l1 e l2 hdec hk

/-! ### when the loop returns an error -/

theorem extractWith_ok_iff (one : FS → Entry → FS × Bool) (es : List Entry) (fs : FS) :
    (extractWith one fs es).2 = false ↔
      ∃ es1 e es2 fs1, es = es1 ++ e :: es2 ∧ extractWith one fs es1 = (fs1, true) ∧ (one fs1 e).2 = false := by
  induction es generalizing fs with
  | nil =>
    constructor
    · intro h; cases h
    · rintro ⟨es1, e, es2, fs1, h, _⟩; simp at h
  | cons x xs ih =>
    rw [extractWith_cons]
    by_cases hb : (one fs x).2 = true
    · rw [if_pos hb, ih]
      constructor
      · rintro ⟨es1, e, es2, fs1, h1, h2, h3⟩
        refine ⟨x :: es1, e, es2, fs1, by rw [h1]; rfl, ?_, h3⟩
        rw [extractWith_cons, if_pos hb]; exact h2
      · rintro ⟨es1, e, es2, fs1, h1, h2, h3⟩
        cases es1 with
        | nil =>
          simp only [List.nil_append, List.cons.injEq] at h1
          simp only [extractWith, Prod.mk.injEq] at h2
          rw [← h1.1, ← h2.1] at h3
          rw [hb] at h3; cases h3
        | cons y ys =>
          simp only [List.cons_append, List.cons.injEq] at h1
          rw [extractWith_cons, ← h1.1, if_pos hb] at h2
          exact ⟨ys, e, es2, fs1, h1.2, h2, h3⟩
    · rw [if_neg hb]
      have hb' : (one fs x).2 = false := by simpa using hb
      constructor
      · intro _
        exact ⟨[], x, xs, fs, rfl, rfl, hb'⟩
      · intro _; rfl

end Ex
