import Lemmas.Conv128Str
/-! C02 helper lemmas, part 5 (core Lean only): what `big.Int.SetString(s, 0)` can accept (character-class soundness). -/
namespace Conv

/-- ASCII letter, digit (`digitVal c < 36`) or the separator -/
def WordChar (c : Char) : Prop := c = '_' ∨ digitVal c < 36

theorem scanLoop_rest_nil (b : Nat) (hb : b ≤ 36) (l : List Char) (st : LoopSt) (hf : st.fracOk = false)
    (h : (scanLoop b st l).2 = []) : ∀ c ∈ l, WordChar c := by
  induction l generalizing st with
  | nil => intro c hc; cases hc
  | cons c t ih =>
    unfold scanLoop at h
    rw [if_neg (by rw [hf]; simp)] at h
    by_cases h1 : c = '_'
    · rw [if_pos h1] at h
      have := ih { st with invalSep := st.invalSep || st.prev != .digit, prev := .sep } hf h
      intro d hd
      rcases List.mem_cons.mp hd with e | e
      · rw [e]; exact Or.inl h1
      · exact this d e
    · rw [if_neg h1] at h
      by_cases h2 : digitVal c ≥ b
      · rw [if_pos h2] at h; cases h
      · rw [if_neg h2] at h
        have := ih { st with prev := .digit, count := st.count + 1, val := st.val * b + digitVal c } hf h
        intro d hd
        rcases List.mem_cons.mp hd with e | e
        · rw [e]; exact Or.inr (by omega)
        · exact this d e

theorem scanPrefix_base (s : List Char) : (scanPrefix false s).1 ≤ 36 := by
  unfold scanPrefix
  split
  · split
    · show 2 ≤ 36; omega
    · split
      · show 8 ≤ 36; omega
      · split
        · show 16 ≤ 36; omega
        · show 8 ≤ 36; omega
  · show 10 ≤ 36; omega
  · show 10 ≤ 36; omega

/-- the unread rest after the prefix is the input minus a prefix made of word characters -/
theorem scanPrefix_rest (s : List Char) (h : ∀ c ∈ (scanPrefix false s).2.2.2.2, WordChar c) : ∀ c ∈ s, WordChar c := by
  unfold scanPrefix at h
  split at h
  · rename_i c t
    have h0 : WordChar '0' := Or.inr (by decide)
    split at h
    · rename_i hc
      intro d hd
      rcases List.mem_cons.mp hd with e | e
      · rw [e]; exact h0
      · rcases List.mem_cons.mp e with e | e
        · rw [e]; rcases hc with hc | hc <;> (rw [hc]; exact Or.inr (by decide))
        · exact h d e
    · split at h
      · rename_i hc
        intro d hd
        rcases List.mem_cons.mp hd with e | e
        · rw [e]; exact h0
        · rcases List.mem_cons.mp e with e | e
          · rw [e]; rcases hc with hc | hc <;> (rw [hc]; exact Or.inr (by decide))
          · exact h d e
      · split at h
        · rename_i hc
          intro d hd
          rcases List.mem_cons.mp hd with e | e
          · rw [e]; exact h0
          · rcases List.mem_cons.mp e with e | e
            · rw [e]; rcases hc with hc | hc <;> (rw [hc]; exact Or.inr (by decide))
            · exact h d e
        · simp only [Bool.not_false, if_true] at h
          intro d hd
          rcases List.mem_cons.mp hd with e | e
          · rw [e]; exact h0
          · exact h d e
  · intro d hd
    rcases List.mem_cons.mp hd with e | e
    · rw [e]; exact Or.inr (by decide)
    · cases e
  · exact h

/-- **`big.Int.SetString(s, 0)` accepts only: an optional sign followed by a non-empty run of ASCII letters, digits and
    underscores** (so blanks, quotes, radix points, a second sign, control and non-ASCII bytes are all rejected) -/
theorem bigIntSetString_sound (s : List Char) (z : Int) (h : bigIntSetString s = some z) :
    ∃ sg body, s = sg ++ body ∧ (sg = [] ∨ sg = ['-'] ∨ sg = ['+']) ∧ body ≠ [] ∧ ∀ c ∈ body, WordChar c := by
  unfold bigIntSetString at h
  cases hs : scanSign s with
  | none => rw [hs] at h; cases h
  | some p =>
    obtain ⟨neg, r⟩ := p
    rw [hs] at h
    simp only [] at h
    by_cases he : (natScan false r).err = true
    · rw [if_pos he] at h; cases h
    · rw [if_neg he] at h
      by_cases hr : (natScan false r).rest.isEmpty = true
      · have hrest : (natScan false r).rest = [] := List.isEmpty_iff.mp hr
        have hbody : ∀ c ∈ r, WordChar c := by
          apply scanPrefix_rest
          refine scanLoop_rest_nil _ (scanPrefix_base r) _
            { val := 0, count := (scanPrefix false r).2.2.1, prev := (scanPrefix false r).2.2.2.1, invalSep := false,
              fracOk := false, dp := none } rfl ?_
          unfold natScan at hrest
          simp only [] at hrest
          split at hrest
          · split at hrest <;> exact hrest
          · exact hrest
        have hne : r ≠ [] := by
          intro hc; subst hc
          apply he
          unfold natScan scanPrefix
          simp [scanLoop]
        -- shape of the sign
        unfold scanSign at hs
        split at hs
        · cases hs
        · rename_i c t
          by_cases c1 : c = '-'
          · rw [if_pos c1] at hs; injection hs with hs; injection hs with _ e2
            exact ⟨['-'], r, by rw [c1, e2]; rfl, Or.inr (Or.inl rfl), hne, hbody⟩
          · rw [if_neg c1] at hs
            by_cases c2 : c = '+'
            · rw [if_pos c2] at hs; injection hs with hs; injection hs with _ e2
              exact ⟨['+'], r, by rw [c2, e2]; rfl, Or.inr (Or.inr rfl), hne, hbody⟩
            · rw [if_neg c2] at hs; injection hs with hs; injection hs with _ e2
              exact ⟨[], r, by rw [← e2]; rfl, Or.inl rfl, hne, hbody⟩
      · rw [if_pos (by simpa using hr)] at h; cases h

end Conv
