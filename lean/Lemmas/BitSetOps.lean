import Lemmas.BitSetRange
import Lemmas.BitSetSwar
/-! C08: effect of every mutator on the abstraction `mem` and on the invariant `Inv` (`set` = cardinality). -/
namespace BS

/-- the SWAR routine `countSetBits` of the source computes the population count -/
def SwarPopcount : Prop := ∀ x : W, countSetBits x = Int.ofNat (popcount x)

/-- it does: `Lemmas/BitSetSwar.lean` (byte lanes, kernel-checked) -/
theorem swarPopcount : SwarPopcount := countSetBits_eq_popcount

theorem wholeSet_spec : WholeSpec wholeSet (fun _ => true) := by
  refine ⟨fun w s k hk => ?_, fun w s => ?_⟩
  · show (BitVec.allOnes 64).getLsbD k = true
    rw [BitVec.getLsbD_allOnes]; simp [hk]
  · show s + ((dbpw : Int) - countSetBits w) = s + popcount (BitVec.allOnes 64) - popcount w
    rw [swarPopcount w, popcount_allOnes, dbpw_eq]; simp; omega

theorem wholeClear_spec : WholeSpec wholeClear (fun _ => false) := by
  refine ⟨fun w s k _ => ?_, fun w s => ?_⟩
  · show (0#64).getLsbD k = false
    simp
  · show s - countSetBits w = s + popcount 0#64 - popcount w
    rw [swarPopcount w, popcount_zero]; simp

theorem wholeFlip_spec : WholeSpec wholeFlip (fun v => !v) := by
  have hb : ∀ (w : W) k, k < 64 → (w ^^^ BitVec.allOnes 64).getLsbD k = !w.getLsbD k := by
    intro w k hk
    rw [BitVec.getLsbD_xor, BitVec.getLsbD_allOnes]; simp [hk]
  refine ⟨fun w s k hk => hb w k hk, fun w s => ?_⟩
  show s + ((dbpw : Int) - 2 * countSetBits w) = s + popcount (w ^^^ BitVec.allOnes 64) - popcount w
  have := popcount_compl w _ (hb w)
  rw [swarPopcount w, dbpw_eq]
  simp only [Int.ofNat_eq_natCast]
  omega

/-! ### single-bit operations -/

theorem idx_eq_iff (x i : Nat) : x = i ↔ (x / 64 = i / 64 ∧ x % 64 = i % 64) := by
  constructor
  · intro h; subst h; exact ⟨rfl, rfl⟩
  · intro h; omega

/-- writing back the result of a per-bit body on word `i / 64`, bit `i % 64` -/
theorem single_spec {act : W → Int → Nat → W × Int} {f : Bool → Bool} (hs : BitSpec act f) (b : T) (i : Nat)
    (hlen : i / 64 < b.data.length) :
    (∀ x, bit (b.data.set (i / 64) (act (getW b.data (i / 64)) b.set (i % 64)).1) x
        = if x = i then f (bit b.data x) else bit b.data x)
    ∧ (Inv b → (act (getW b.data (i / 64)) b.set (i % 64)).2
        = Int.ofNat (card (b.data.set (i / 64) (act (getW b.data (i / 64)) b.set (i % 64)).1))) := by
  have hi : i % 64 < 64 := Nat.mod_lt _ (by decide)
  refine ⟨fun x => ?_, fun hinv => ?_⟩
  · rw [bit_set _ _ _ hlen]
    by_cases hx : x / 64 = i / 64
    · rw [if_pos hx, hs.bits _ _ _ _ hi (Nat.mod_lt _ (by decide))]
      have hbx : (getW b.data (i / 64)).getLsbD (x % 64) = bit b.data x := by unfold bit; rw [hx]
      rw [hbx]
      by_cases h2 : x % 64 = i % 64
      · rw [if_pos h2, if_pos ((idx_eq_iff x i).mpr ⟨hx, h2⟩)]
      · rw [if_neg h2, if_neg (fun h => h2 ((idx_eq_iff x i).mp h).2)]
    · rw [if_neg hx, if_neg (fun h => hx ((idx_eq_iff x i).mp h).1)]
  · rw [hs.cnt _ _ _ hi]
    have := card_set b.data (i / 64) (act (getW b.data (i / 64)) b.set (i % 64)).1 hlen
    unfold Inv at hinv
    simp only [Int.ofNat_eq_natCast] at *
    omega

theorem setBit_eq (b : T) (i : Nat) :
    setBit b i = { data := (ensureCapacity b (i / 64 + 1)).data.set (i / 64)
                      (bitSet (getW (ensureCapacity b (i / 64 + 1)).data (i / 64)) (ensureCapacity b (i / 64 + 1)).set (i % 64)).1,
                   set := (bitSet (getW (ensureCapacity b (i / 64 + 1)).data (i / 64)) (ensureCapacity b (i / 64 + 1)).set (i % 64)).2 } := by
  unfold setBit bitSet
  simp only [wordIdx_eq, ← wordMask_mod]
  split
  · rfl
  · simp [set_getW_self]

theorem setBit_mem (b : T) (i x : Nat) : mem (setBit b i) x = (mem b x || decide (x = i)) := by
  have hlen := ensure_length b (i / 64 + 1)
  obtain ⟨h1, _⟩ := single_spec bitSet_spec (ensureCapacity b (i / 64 + 1)) i (by omega)
  rw [setBit_eq]
  unfold mem
  simp only
  rw [h1 x, ensure_bit]
  by_cases e : x = i <;> simp [e]

theorem setBit_inv (b : T) (i : Nat) (h : Inv b) : Inv (setBit b i) := by
  have hlen := ensure_length b (i / 64 + 1)
  obtain ⟨_, h2⟩ := single_spec bitSet_spec (ensureCapacity b (i / 64 + 1)) i (by omega)
  rw [setBit_eq]
  exact h2 (ensure_inv b _ h)

theorem clearBit_eq (b : T) (i : Nat) (hlen : i / 64 < b.data.length) :
    clearBit b i = { data := b.data.set (i / 64) (bitClear (getW b.data (i / 64)) b.set (i % 64)).1,
                     set := (bitClear (getW b.data (i / 64)) b.set (i % 64)).2 } := by
  unfold clearBit bitClear
  simp only [wordIdx_eq, ← wordMask_mod, hlen, if_true]
  split
  · rfl
  · simp [set_getW_self]

theorem clearBit_mem (b : T) (i x : Nat) : mem (clearBit b i) x = (mem b x && !decide (x = i)) := by
  by_cases hlen : i / 64 < b.data.length
  · obtain ⟨h1, _⟩ := single_spec bitClear_spec b i hlen
    rw [clearBit_eq b i hlen]
    unfold mem
    simp only
    rw [h1 x]
    by_cases e : x = i <;> simp [e]
  · have : clearBit b i = b := by
      unfold clearBit; simp only [wordIdx_eq, hlen, if_false]
    rw [this]
    by_cases e : x = i
    · subst e
      unfold mem; rw [bit_of_ge _ _ (by omega)]; simp
    · simp [e]

theorem clearBit_inv (b : T) (i : Nat) (h : Inv b) : Inv (clearBit b i) := by
  by_cases hlen : i / 64 < b.data.length
  · obtain ⟨_, h2⟩ := single_spec bitClear_spec b i hlen
    rw [clearBit_eq b i hlen]
    exact h2 h
  · have : clearBit b i = b := by
      unfold clearBit; simp only [wordIdx_eq, hlen, if_false]
    rw [this]; exact h

theorem flipBit_eq (b : T) (i : Nat) :
    flipBit b i = { data := (ensureCapacity b (i / 64 + 1)).data.set (i / 64)
                      (bitFlip (getW (ensureCapacity b (i / 64 + 1)).data (i / 64)) (ensureCapacity b (i / 64 + 1)).set (i % 64)).1,
                    set := (bitFlip (getW (ensureCapacity b (i / 64 + 1)).data (i / 64)) (ensureCapacity b (i / 64 + 1)).set (i % 64)).2 } := by
  unfold flipBit bitFlip
  simp only [wordIdx_eq, ← wordMask_mod]
  split <;> rfl

theorem flipBit_mem (b : T) (i x : Nat) : mem (flipBit b i) x = (mem b x ^^ decide (x = i)) := by
  have hlen := ensure_length b (i / 64 + 1)
  obtain ⟨h1, _⟩ := single_spec bitFlip_spec (ensureCapacity b (i / 64 + 1)) i (by omega)
  rw [flipBit_eq]
  unfold mem
  simp only
  rw [h1 x, ensure_bit]
  by_cases e : x = i <;> simp [e]

theorem flipBit_inv (b : T) (i : Nat) (h : Inv b) : Inv (flipBit b i) := by
  have hlen := ensure_length b (i / 64 + 1)
  obtain ⟨_, h2⟩ := single_spec bitFlip_spec (ensureCapacity b (i / 64 + 1)) i (by omega)
  rw [flipBit_eq]
  exact h2 (ensure_inv b _ h)

/-! ### range operations -/

theorem runRange_spec {whole : W → Int → W × Int} {act : W → Int → Nat → W × Int} {f : Bool → Bool}
    (hw : WholeSpec whole f) (hb : BitSpec act f) (b : T) (lo hi : Nat) (hle : lo ≤ hi)
    (hcap : hi / 64 < b.data.length) :
    (∀ x, mem (runRange whole act b lo hi (lo / 64) (hi / 64)) x
        = if lo ≤ x ∧ x ≤ hi then f (mem b x) else mem b x)
    ∧ (Inv b → Inv (runRange whole act b lo hi (lo / 64) (hi / 64)))
    ∧ (runRange whole act b lo hi (lo / 64) (hi / 64)).data.length = b.data.length := by
  unfold runRange
  simp only [bitIndexForMask_wordMask]
  obtain ⟨l1, b1, c1⟩ := rangeLoop_spec hw hb (lo / 64) (hi / 64) (hi % 64) (Nat.mod_lt _ (by decide))
    (hi / 64 + 1 - lo / 64) b.data b.set (lo / 64) (lo % 64) (Nat.le_refl _) (by omega) hcap
    (by have := Nat.mod_lt lo (show 64 > 0 by decide); omega) (fun h => absurd rfl h)
  refine ⟨fun x => ?_, fun hinv => ?_, l1⟩
  · unfold mem
    simp only
    rw [b1 x]
    have e1 : lo / 64 * 64 + lo % 64 = lo := by omega
    have e2 : hi / 64 * 64 + hi % 64 = hi := by omega
    rw [e1, e2]
  · unfold Inv at *
    simp only
    rw [c1, hinv]
    simp only [Int.ofNat_eq_natCast]
    omega

theorem setRange_spec (b : T) (s e : Nat) :
    (∀ x, mem (setRange b s e) x = (mem b x || decide (min s e ≤ x ∧ x ≤ max s e)))
    ∧ (Inv b → Inv (setRange b s e)) := by
  unfold setRange
  simp only [wordIdx_eq]
  generalize hse : (if s > e then (e, s) else (s, e)) = se
  have hlo : se.1 = min s e := by rw [← hse]; split <;> simp <;> omega
  have hhi : se.2 = max s e := by rw [← hse]; split <;> simp <;> omega
  have hlen := ensure_length b (se.2 / 64 + 1)
  obtain ⟨h1, h2, _⟩ := runRange_spec wholeSet_spec bitSet_spec (ensureCapacity b (se.2 / 64 + 1)) se.1 se.2
    (by rw [hlo, hhi]; omega) (by omega)
  refine ⟨fun x => ?_, fun hinv => h2 (ensure_inv b _ hinv)⟩
  rw [h1 x, hlo, hhi]
  unfold mem; rw [ensure_bit]
  by_cases hx : min s e ≤ x ∧ x ≤ max s e <;> simp [hx]

theorem flipRange_spec (b : T) (s e : Nat) :
    (∀ x, mem (flipRange b s e) x = (mem b x ^^ decide (min s e ≤ x ∧ x ≤ max s e)))
    ∧ (Inv b → Inv (flipRange b s e)) := by
  unfold flipRange
  simp only [wordIdx_eq]
  generalize hse : (if s > e then (e, s) else (s, e)) = se
  have hlo : se.1 = min s e := by rw [← hse]; split <;> simp <;> omega
  have hhi : se.2 = max s e := by rw [← hse]; split <;> simp <;> omega
  have hlen := ensure_length b (se.2 / 64 + 1)
  obtain ⟨h1, h2, _⟩ := runRange_spec wholeFlip_spec bitFlip_spec (ensureCapacity b (se.2 / 64 + 1)) se.1 se.2
    (by rw [hlo, hhi]; omega) (by omega)
  refine ⟨fun x => ?_, fun hinv => h2 (ensure_inv b _ hinv)⟩
  rw [h1 x, hlo, hhi]
  unfold mem; rw [ensure_bit]
  by_cases hx : min s e ≤ x ∧ x ≤ max s e <;> simp [hx]

theorem clearRange_spec (b : T) (s e : Nat) :
    (∀ x, mem (clearRange b s e) x = (mem b x && !decide (min s e ≤ x ∧ x ≤ max s e)))
    ∧ (Inv b → Inv (clearRange b s e)) := by
  unfold clearRange
  simp only [wordIdx_eq, shl_eq]
  generalize hse : (if s > e then (e, s) else (s, e)) = se
  have hlo : se.1 = min s e := by rw [← hse]; split <;> simp <;> omega
  have hhi : se.2 = max s e := by rw [← hse]; split <;> simp <;> omega
  by_cases hout : se.1 / 64 + 1 > b.data.length
  · -- the whole range lies beyond the capacity: nothing to clear
    simp only [hout, if_true]
    refine ⟨fun x => ?_, id⟩
    by_cases hx : min s e ≤ x ∧ x ≤ max s e
    · unfold mem; rw [bit_of_ge _ _ (by omega)]; simp
    · simp [hx]
  · simp only [hout, if_false]
    generalize hie : (if se.2 / 64 + 1 > b.data.length then (b.data.length - 1, b.data.length * 64 - 1)
      else (se.2 / 64, se.2)) = ie
    have hi1 : ie.1 = ie.2 / 64 := by rw [← hie]; split <;> simp; omega
    have hi2 : ie.2 / 64 < b.data.length := by rw [← hie]; split <;> simp <;> omega
    have hi3 : se.1 ≤ ie.2 := by rw [← hie]; split <;> simp <;> omega
    have hi4 : ie.2 ≤ se.2 := by rw [← hie]; split <;> simp <;> omega
    have hi5 : ie.2 = se.2 ∨ ie.2 + 1 = b.data.length * 64 := by rw [← hie]; split <;> simp <;> omega
    rw [hi1]
    obtain ⟨h1, h2, _⟩ := runRange_spec wholeClear_spec bitClear_spec b se.1 ie.2 hi3 hi2
    refine ⟨fun x => ?_, h2⟩
    rw [h1 x]
    by_cases hx : se.1 ≤ x ∧ x ≤ ie.2
    · have hx' : min s e ≤ x ∧ x ≤ max s e := by omega
      simp [hx, hx']
    · rw [if_neg hx]
      by_cases hx' : min s e ≤ x ∧ x ≤ max s e
      · have : b.data.length * 64 ≤ x := by omega
        unfold mem; rw [bit_of_ge _ _ this]; simp
      · simp [hx']

/-! ### the members after a range operation do not depend on the count bookkeeping

The words computed by the range loop never look at `set`, so the effect on `mem` holds without any assumption about
`countSetBits`; only the statement about `Count` (`Inv`) needs `SwarPopcount`. -/

theorem bitLoop_fst_congr {act : W → Int → Nat → W × Int} (ha : ∀ w s s' j, (act w s j).1 = (act w s' j).1) (n : Nat) :
    ∀ (w : W) (s s' : Int) (j : Nat), (bitLoop act w s j n).1 = (bitLoop act w s' j n).1 := by
  induction n with
  | zero => intro w s s' j; rfl
  | succ n ih =>
    intro w s s' j
    simp only [bitLoop]
    rw [ha w s s' j]
    exact ih _ _ _ _

theorem rangeLoop_fst_congr {whole whole' : W → Int → W × Int} {act : W → Int → Nat → W × Int}
    (hw : ∀ w s s', (whole w s).1 = (whole' w s').1) (ha : ∀ w s s' j, (act w s j).1 = (act w s' j).1)
    (i1 i2 lb : Nat) (n : Nat) : ∀ (d : List W) (s s' : Int) (i j : Nat),
    (rangeLoop whole act i1 i2 lb d s i j n).1 = (rangeLoop whole' act i1 i2 lb d s' i j n).1 := by
  induction n with
  | zero => intro d s s' i j; rfl
  | succ n ih =>
    intro d s s' i j
    simp only [rangeLoop]
    split
    · rw [hw (getW d i) s s']
      exact ih _ _ _ _ _
    · rw [bitLoop_fst_congr ha _ (getW d i) s s' j]
      exact ih _ _ _ _ _

theorem runRange_mem {whole : W → Int → W × Int} {act : W → Int → Nat → W × Int} {f : Bool → Bool}
    (hwb : ∀ w s k, k < 64 → (whole w s).1.getLsbD k = f (w.getLsbD k))
    (hws : ∀ w s s', (whole w s).1 = (whole w s').1)
    (hb : BitSpec act f) (ha : ∀ w s s' j, (act w s j).1 = (act w s' j).1)
    (b : T) (lo hi : Nat) (hle : lo ≤ hi) (hcap : hi / 64 < b.data.length) (x : Nat) :
    mem (runRange whole act b lo hi (lo / 64) (hi / 64)) x = if lo ≤ x ∧ x ≤ hi then f (mem b x) else mem b x := by
  -- the same word computation with an exact count: satisfies `WholeSpec` by construction
  have hw' : WholeSpec (fun w s => ((whole w 0).1, s + popcount (whole w 0).1 - popcount w)) f :=
    ⟨fun w s k hk => hwb w 0 k hk, fun w s => rfl⟩
  obtain ⟨h1, _, _⟩ := runRange_spec hw' hb b lo hi hle hcap
  rw [← h1 x]
  unfold mem runRange
  simp only
  rw [rangeLoop_fst_congr (whole' := fun w s => ((whole w 0).1, s + popcount (whole w 0).1 - popcount w))
    (fun w s s' => hws w s 0) ha]

theorem bitSet_fst (w : W) (s s' : Int) (j : Nat) : (bitSet w s j).1 = (bitSet w s' j).1 := by
  unfold bitSet; simp only; split <;> rfl
theorem bitClear_fst (w : W) (s s' : Int) (j : Nat) : (bitClear w s j).1 = (bitClear w s' j).1 := by
  unfold bitClear; simp only; split <;> rfl
theorem bitFlip_fst (w : W) (s s' : Int) (j : Nat) : (bitFlip w s j).1 = (bitFlip w s' j).1 := by
  unfold bitFlip; simp only; split <;> rfl

/-- **SetRange**: the members afterwards (no assumption) -/
theorem setRange_mem (b : T) (s e x : Nat) :
    mem (setRange b s e) x = (mem b x || decide (min s e ≤ x ∧ x ≤ max s e)) := by
  unfold setRange
  simp only [wordIdx_eq]
  generalize hse : (if s > e then (e, s) else (s, e)) = se
  have hlo : se.1 = min s e := by rw [← hse]; split <;> simp <;> omega
  have hhi : se.2 = max s e := by rw [← hse]; split <;> simp <;> omega
  have hlen := ensure_length b (se.2 / 64 + 1)
  rw [runRange_mem (f := fun _ => true)
    (fun w s k hk => by show (BitVec.allOnes 64).getLsbD k = true; rw [BitVec.getLsbD_allOnes]; simp [hk])
    (fun _ _ _ => rfl) bitSet_spec bitSet_fst (ensureCapacity b (se.2 / 64 + 1)) se.1 se.2
    (by rw [hlo, hhi]; omega) (by omega) x, hlo, hhi]
  unfold mem; rw [ensure_bit]
  by_cases hx : min s e ≤ x ∧ x ≤ max s e <;> simp [hx]

/-- **FlipRange**: the members afterwards (no assumption) -/
theorem flipRange_mem (b : T) (s e x : Nat) :
    mem (flipRange b s e) x = (mem b x ^^ decide (min s e ≤ x ∧ x ≤ max s e)) := by
  unfold flipRange
  simp only [wordIdx_eq]
  generalize hse : (if s > e then (e, s) else (s, e)) = se
  have hlo : se.1 = min s e := by rw [← hse]; split <;> simp <;> omega
  have hhi : se.2 = max s e := by rw [← hse]; split <;> simp <;> omega
  have hlen := ensure_length b (se.2 / 64 + 1)
  rw [runRange_mem (f := fun v => !v)
    (fun w s k hk => by
      show (w ^^^ BitVec.allOnes 64).getLsbD k = !w.getLsbD k
      rw [BitVec.getLsbD_xor, BitVec.getLsbD_allOnes]; simp [hk])
    (fun _ _ _ => rfl) bitFlip_spec bitFlip_fst (ensureCapacity b (se.2 / 64 + 1)) se.1 se.2
    (by rw [hlo, hhi]; omega) (by omega) x, hlo, hhi]
  unfold mem; rw [ensure_bit]
  by_cases hx : min s e ≤ x ∧ x ≤ max s e <;> simp [hx]

/-- **ClearRange**: the members afterwards, also for ranges that reach beyond the capacity (no assumption) -/
theorem clearRange_mem (b : T) (s e x : Nat) :
    mem (clearRange b s e) x = (mem b x && !decide (min s e ≤ x ∧ x ≤ max s e)) := by
  unfold clearRange
  simp only [wordIdx_eq, shl_eq]
  generalize hse : (if s > e then (e, s) else (s, e)) = se
  have hlo : se.1 = min s e := by rw [← hse]; split <;> simp <;> omega
  have hhi : se.2 = max s e := by rw [← hse]; split <;> simp <;> omega
  by_cases hout : se.1 / 64 + 1 > b.data.length
  · simp only [hout, if_true]
    by_cases hx : min s e ≤ x ∧ x ≤ max s e
    · unfold mem; rw [bit_of_ge _ _ (by omega)]; simp
    · simp [hx]
  · simp only [hout, if_false]
    generalize hie : (if se.2 / 64 + 1 > b.data.length then (b.data.length - 1, b.data.length * 64 - 1)
      else (se.2 / 64, se.2)) = ie
    have hi1 : ie.1 = ie.2 / 64 := by rw [← hie]; split <;> simp; omega
    have hi2 : ie.2 / 64 < b.data.length := by rw [← hie]; split <;> simp <;> omega
    have hi3 : se.1 ≤ ie.2 := by rw [← hie]; split <;> simp <;> omega
    have hi4 : ie.2 ≤ se.2 := by rw [← hie]; split <;> simp <;> omega
    have hi5 : ie.2 = se.2 ∨ ie.2 + 1 = b.data.length * 64 := by rw [← hie]; split <;> simp <;> omega
    rw [hi1, runRange_mem (f := fun _ => false)
      (fun w s k _ => by show (0#64).getLsbD k = false; simp)
      (fun _ _ _ => rfl) bitClear_spec bitClear_fst b se.1 ie.2 hi3 hi2 x]
    by_cases hx : se.1 ≤ x ∧ x ≤ ie.2
    · have hx' : min s e ≤ x ∧ x ≤ max s e := by omega
      simp [hx, hx']
    · rw [if_neg hx]
      by_cases hx' : min s e ≤ x ∧ x ≤ max s e
      · have : b.data.length * 64 ≤ x := by omega
        unfold mem; rw [bit_of_ge _ _ this]; simp
      · simp [hx']

end BS
