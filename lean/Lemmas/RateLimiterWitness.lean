import Lemmas.RateLimiterLive
import Lemmas.RateLimiterServe
/-! A concrete infinite run that meets all fairness assumptions of `RL.close_returns_fair` (they are satisfiable
    together) and on which root `Close` is blocked on `done` and returns.  Core Lean. -/
namespace RL

/-- root `Close` (lock, mark, unlock, hand-over), the goroutine's drain, then `Use(-1)` calls for ever -/
def witnessSched (i : Nat) : Micro :=
  if i = 0 then .closeLock else if i = 1 then .closeMark else if i = 2 then .closeUnlock
  else if i = 3 then .doneReceived else if i = 4 then .drainLock else if i = 5 then .drain
  else if i = 6 then .drainUnlock else .useNeg

def witness : Nat → S
  | 0 => init 5
  | i + 1 => micro (witness i) (witnessSched i)

theorem witnessSched_ge (i : Nat) (h : 7 ≤ i) : witnessSched i = .useNeg := by
  unfold witnessSched
  have h0 : ¬ i = 0 := by omega
  have h1 : ¬ i = 1 := by omega
  have h2 : ¬ i = 2 := by omega
  have h3 : ¬ i = 3 := by omega
  have h4 : ¬ i = 4 := by omega
  have h5 : ¬ i = 5 := by omega
  have h6 : ¬ i = 6 := by omega
  simp [h0, h1, h2, h3, h4, h5, h6]

theorem witness_tail (k : Nat) :
    (witness (7 + k)).tpc = .tend ∧ (witness (7 + k)).cpc = .ret ∧ (witness (7 + k)).holder = .free := by
  induction k with
  | zero => exact ⟨rfl, rfl, rfl⟩
  | succ k ih =>
    have e : witness (7 + (k + 1)) = answer (witness (7 + k)) .errNeg := by
      show micro (witness (7 + k)) (witnessSched (7 + k)) = _
      rw [witnessSched_ge (7 + k) (by omega)]; rfl
    rw [e]; exact ih

theorem witness_ge (i : Nat) (h : 7 ≤ i) :
    (witness i).tpc = .tend ∧ (witness i).cpc = .ret ∧ (witness i).holder = .free := by
  have := witness_tail (i - 7)
  have e : 7 + (i - 7) = i := by omega
  rw [e] at this; exact this

theorem witness_step (i : Nat) : Step (witness i) (witness (i + 1)) := by
  have key : ∀ (s : S) (m : Micro), ((micro s m).cpc ≠ s.cpc ∨ (micro s m).tpc ≠ s.tpc) → Step s (micro s m) := by
    intro s m hne
    rcases micro_step s m with h | h
    · rw [h] at hne; rcases hne with hne | hne <;> exact absurd rfl hne
    · exact h
  by_cases h7 : 7 ≤ i
  · show Step (witness i) (micro (witness i) (witnessSched i))
    rw [witnessSched_ge i h7]; exact .useNeg _
  · have : i = 0 ∨ i = 1 ∨ i = 2 ∨ i = 3 ∨ i = 4 ∨ i = 5 ∨ i = 6 := by omega
    rcases this with h | h | h | h | h | h | h <;> subst h
    · exact key _ _ (Or.inl (by decide))
    · exact key _ _ (Or.inl (by decide))
    · exact key _ _ (Or.inl (by decide))
    · exact key _ _ (Or.inl (by decide))
    · exact key _ _ (Or.inr (by decide))
    · exact key _ _ (Or.inr (by decide))
    · exact key _ _ (Or.inr (by decide))

/-- where the three positions are along the run -/
theorem witness_pos (i : Nat) :
    ((witness i).tpc = .sel ∨ (witness i).tpc = .dlock ∨ (witness i).tpc = .dcrit ∨ (witness i).tpc = .dunl ∨
      (witness i).tpc = .tend) ∧ (witness i).holder ≠ .api ∧ (4 ≤ i → (witness i).tpc ≠ .sel) := by
  by_cases h7 : 7 ≤ i
  · obtain ⟨a, _, d⟩ := witness_ge i h7
    exact ⟨Or.inr (Or.inr (Or.inr (Or.inr a))), by rw [d]; decide, fun _ => by rw [a]; decide⟩
  · have : i = 0 ∨ i = 1 ∨ i = 2 ∨ i = 3 ∨ i = 4 ∨ i = 5 ∨ i = 6 := by omega
    rcases this with h | h | h | h | h | h | h <;> subst h <;> decide

theorem witness_isRun : IsRun 5 witness := ⟨rfl, witness_step⟩

theorem witness_holdersRun : HoldersRun witness where
  api := by intro i h; exact absurd h (witness_pos i).2.1
  ticker := by
    intro i h
    rcases (witness_pos i).1 with a | a | a | a | a <;> rcases h with h | h <;> rw [a] at h <;> cases h
  closer := by
    intro i h
    by_cases h7 : 7 ≤ i
    · have := (witness_ge i h7).2.1
      rcases h with h | h <;> rw [this] at h <;> cases h
    · refine ⟨7, by omega, ?_⟩
      have e : (witness 7).cpc = .ret := rfl
      rw [e]
      rcases h with h | h <;> rw [h] <;> decide

theorem witness_lockFair : LockFair witness := by
  intro i h
  obtain ⟨k, _, hk, _⟩ := h i (Nat.le_refl _)
  rcases (witness_pos k).1 with a | a | a | a | a <;> rw [a] at hk <;> cases hk

theorem witness_selectFair : SelectFair witness := by
  intro i h
  obtain ⟨k, hk, hs, _⟩ := h (i + 4) (by omega)
  exact absurd hs ((witness_pos k).2.2 (by omega))

theorem witness_ticksServed : TicksServed witness := by
  intro i
  by_cases h6 : 6 ≤ i
  · left
    by_cases h7 : 7 ≤ i
    · exact Or.inr (witness_ge i h7).1
    · have : i = 6 := by omega
      subst this; exact Or.inl rfl
  · right
    exact ⟨5, by omega, Or.inr ⟨rfl, rfl⟩⟩

/-- on the witness run root `Close` is blocked on `done` at instant 3 and has returned at instant 4 -/
theorem witness_close : (witness 3).cpc = .send ∧ (witness 4).cpc = .ret := ⟨rfl, rfl⟩

end RL
