import Lemmas.F64Cmp
/-! C02 float lemmas, part 5 (core Lean only): the *inexact* path of `roundRatN`.

* `roundRatN_scale` — the rounding of `a/d` does not change when numerator and denominator are multiplied by `2^k`;
* `ofRat_nat_round` — a natural number `a` in the binade `[2^(52+t), 2^(53+t))` is rounded to `q'·2^t` where `q'` is the
  53-bit quotient `a / 2^t` or its successor, chosen by nearest / ties-to-even (`Rnd`);
* `add_nat`, `mul_wrap` — sums and the product by `2^64` of floats whose values are natural numbers. -/
namespace GoSem.F64

/-! ## logarithm -/

theorem log2_eq_of_bounds (a l : Nat) (h1 : 2^l ≤ a) (h2 : a < 2^(l+1)) : a.log2 = l := by
  have ha : a ≠ 0 := by
    have := pow_pos' l
    omega
  have x1 : l ≤ a.log2 := (Nat.le_log2 ha).mpr h1
  have x2 : a.log2 < l + 1 := (Nat.log2_lt ha).mpr h2
  omega

theorem log2_mul_pow (a k : Nat) (ha : a ≠ 0) : (a * 2^k).log2 = a.log2 + k := by
  obtain ⟨l1, l2⟩ := log_bounds a ha
  apply log2_eq_of_bounds
  · rw [Nat.pow_add]; exact Nat.mul_le_mul_right _ l1
  · have : a.log2 + k + 1 = (a.log2 + 1) + k := by omega
    rw [this, Nat.pow_add]; exact Nat.mul_lt_mul_of_pos_right l2 (pow_pos' k)

/-! ## scaling numerator and denominator by a power of two -/

theorem mk_scale (a d k : Nat) (e : Int) :
    mk (a * 2^k) (d * 2^k) e = ((mk a d e).1, (mk a d e).2.1 * 2^k, (mk a d e).2.2 * 2^k) := by
  have hk := pow_pos' k
  unfold mk
  by_cases he : e ≥ 0
  · simp only [if_pos he]
    rw [Nat.mul_right_comm d (2^k) (2^e.toNat), Nat.mul_div_mul_right _ _ hk, Nat.mul_mod_mul_right]
  · simp only [if_neg he]
    rw [Nat.mul_right_comm a (2^k) (2^(-e).toNat), Nat.mul_div_mul_right _ _ hk, Nat.mul_mod_mul_right]

theorem roundQ_scale (q r dv c : Nat) (hc : 0 < c) : roundQ q (r * c) (dv * c) = roundQ q r dv := by
  unfold roundQ
  have e1 : 2 * (r * c) = 2 * r * c := by rw [Nat.mul_assoc]
  rw [e1]
  by_cases h1 : 2 * r > dv
  · have : 2 * r * c > dv * c := Nat.mul_lt_mul_of_pos_right h1 hc
    rw [if_pos h1, if_pos this]
  · have n1 : ¬ 2 * r * c > dv * c := by
      intro h; exact h1 (Nat.lt_of_mul_lt_mul_right h)
    rw [if_neg h1, if_neg n1]
    by_cases h2 : 2 * r = dv
    · have : (2 * r * c == dv * c) = true := by rw [h2]; simp
      rw [this]
      have : (2 * r == dv) = true := by simp [h2]
      rw [this]
    · have : (2 * r * c == dv * c) = false := by
        simp only [beq_eq_false_iff_ne, ne_eq]
        intro h; exact h2 (Nat.eq_of_mul_eq_mul_right hc h)
      rw [this]
      have : (2 * r == dv) = false := by simp [h2]
      rw [this]

theorem chooseE_scale (a d k : Nat) (ha : a ≠ 0) (hd : d ≠ 0) : chooseE (a * 2^k) (d * 2^k) = chooseE a d := by
  unfold chooseE
  simp only [mk_scale]
  rw [log2_mul_pow a k ha, log2_mul_pow d k hd]
  have : ((a.log2 + k : Nat) : Int) - ((d.log2 + k : Nat) : Int) - 52 = (a.log2 : Int) - d.log2 - 52 := by omega
  rw [this]

/-- **scaling invariance**: `a·2^k / (d·2^k)` is rounded like `a/d` -/
theorem roundRatN_scale (neg : Bool) (a d k : Nat) (hd : d ≠ 0) :
    roundRatN neg (a * 2^k) (d * 2^k) = roundRatN neg a d := by
  have hk := pow_pos' k
  unfold roundRatN
  by_cases ha : a = 0
  · subst ha; simp
  · have h1 : (a == 0) = false := by simp [ha]
    have h2 : (a * 2^k == 0) = false := by
      simp only [beq_eq_false_iff_ne, ne_eq]
      intro h
      rcases Nat.mul_eq_zero.mp h with h | h
      · exact ha h
      · omega
    rw [h1, h2]
    simp only [Bool.false_eq_true, if_false]
    rw [chooseE_scale a d k ha hd, mk_scale]
    simp only []
    rw [roundQ_scale _ _ _ _ hk]

/-! ## rounding a natural number in a known binade -/

theorem log2_one' : (1 : Nat).log2 = 0 := log2_eq_of_bounds 1 0 (by decide) (by decide)

theorem mk_nat (a t : Nat) : mk a 1 (t : Int) = (a / 2^t, a % 2^t, 2^t) := by
  unfold mk
  have : (t : Int) ≥ 0 := by omega
  rw [if_pos this]
  simp only [Int.toNat_natCast, Nat.one_mul]

theorem chooseE_nat (a t : Nat) (h1 : 2^(52 + t) ≤ a) (h2 : a < 2^(53 + t)) : chooseE a 1 = (t : Int) := by
  have hl : a.log2 = 52 + t := log2_eq_of_bounds a (52 + t) h1 (by rw [show 52 + t + 1 = 53 + t by omega]; exact h2)
  have hp := pow_pos' t
  unfold chooseE
  simp only []
  rw [hl, log2_one']
  have e0 : ((52 + t : Nat) : Int) - ((0 : Nat) : Int) - 52 = (t : Int) := by omega
  rw [e0, mk_nat]
  simp only []
  have q1 : 2^52 ≤ a / 2^t := by
    rw [Nat.le_div_iff_mul_le hp, ← Nat.pow_add]; exact h1
  have q2 : a / 2^t < 2^53 := by
    rw [Nat.div_lt_iff_lt_mul hp, ← Nat.pow_add]; exact h2
  rw [if_neg (by omega), if_neg (by omega), if_neg (by omega)]

/-- arithmetic content of `roundQ` -/
theorem roundQ_spec (q r dv : Nat) :
    (roundQ q r dv = q ∧ 2 * r ≤ dv ∧ (2 * r = dv → q % 2 = 0)) ∨
    (roundQ q r dv = q + 1 ∧ dv ≤ 2 * r ∧ (2 * r = dv → q % 2 = 1)) := by
  unfold roundQ
  by_cases h1 : 2 * r > dv
  · rw [if_pos h1]; exact Or.inr ⟨rfl, by omega, by omega⟩
  · rw [if_neg h1]
    by_cases h2 : 2 * r = dv
    · have : (2 * r == dv) = true := by simp [h2]
      rw [this]
      simp only [if_true]
      by_cases h3 : q % 2 = 1
      · have : (q % 2 == 1) = true := by simp [h3]
        rw [this]; exact Or.inr ⟨rfl, by omega, fun _ => h3⟩
      · have : (q % 2 == 1) = false := by simp [h3]
        rw [this]; exact Or.inl ⟨rfl, by omega, fun _ => by omega⟩
    · have : (2 * r == dv) = false := by simp [h2]
      rw [this]
      exact Or.inl ⟨rfl, by omega, fun h => (h2 h).elim⟩

/-- `m·2^e` is the nearest-even rounding of the natural number `a` of the binade `[2^(52+t), 2^(53+t))`:
    `q'` is the 53-bit quotient or its successor; a carry to `2^53` moves to the next exponent -/
def Rnd (a t m : Nat) (e : Int) : Prop :=
  2^52 ≤ m ∧ m < 2^53 ∧
  ∃ q', ((e = (t : Int) ∧ m = q') ∨ (e = (t : Int) + 1 ∧ m = 2^52 ∧ q' = 2^53)) ∧
    ((q' = a / 2^t ∧ 2 * (a % 2^t) ≤ 2^t ∧ (2 * (a % 2^t) = 2^t → (a / 2^t) % 2 = 0)) ∨
     (q' = a / 2^t + 1 ∧ 2^t ≤ 2 * (a % 2^t) ∧ (2 * (a % 2^t) = 2^t → (a / 2^t) % 2 = 1)))

theorem decode_finish (q' : Nat) (t : Int) (h1 : 2^52 ≤ q') (h2 : q' ≤ 2^53) (ht1 : -1074 ≤ t) (ht2 : t ≤ 970) :
    decode (finish false q' t) = if q' = 2^53 then .fin false (2^52) (t + 1) else .fin false q' t := by
  unfold finish
  by_cases hc : q' = 2^53
  · subst hc
    rw [if_pos rfl]
    have : (2:Nat)^53 ≥ 2^53 := Nat.le_refl _
    simp only [if_pos this]
    have hh : (2:Nat)^53 / 2 = 2^52 := by decide
    rw [hh, if_neg (by omega), if_neg (by omega)]
    exact decode_encodeNormal false _ _ (Nat.le_refl _) (by decide) (by omega) (by omega)
  · rw [if_neg hc]
    have : ¬ q' ≥ 2^53 := by omega
    simp only [if_neg this]
    rw [if_neg (by omega), if_neg (by omega)]
    exact decode_encodeNormal false _ _ h1 (by omega) (by omega) (by omega)

/-- **rounding of a natural number** (the inexact path of `roundRatN`, normal range) -/
theorem ofRat_nat_round (a t : Nat) (h1 : 2^(52 + t) ≤ a) (h2 : a < 2^(53 + t)) (ht : t ≤ 900) :
    ∃ m e, ofRat false a 1 = .fin false m e ∧ Rnd a t m e := by
  have hp := pow_pos' t
  have ha : a ≠ 0 := by
    have := pow_pos' (52 + t)
    omega
  have q1 : 2^52 ≤ a / 2^t := by
    rw [Nat.le_div_iff_mul_le hp, ← Nat.pow_add]; exact h1
  have q2 : a / 2^t < 2^53 := by
    rw [Nat.div_lt_iff_lt_mul hp, ← Nat.pow_add]; exact h2
  have hr : ofRat false a 1 = decode (finish false (roundQ (a / 2^t) (a % 2^t) (2^t)) (t : Int)) := by
    unfold ofRat roundRatN
    have : (a == 0) = false := by simp [ha]
    rw [this]
    simp only [Bool.false_eq_true, if_false]
    rw [chooseE_nat a t h1 h2, mk_nat]
  rw [hr]
  rcases roundQ_spec (a / 2^t) (a % 2^t) (2^t) with ⟨hq, hs⟩ | ⟨hq, hs⟩
  · rw [hq, decode_finish _ _ q1 (by omega) (by omega) (by omega), if_neg (by omega)]
    exact ⟨_, _, rfl, q1, q2, a / 2^t, Or.inl ⟨rfl, rfl⟩, Or.inl ⟨rfl, hs⟩⟩
  · rw [hq, decode_finish _ _ (by omega) (by omega) (by omega) (by omega)]
    by_cases hc : a / 2^t + 1 = 2^53
    · rw [if_pos hc]
      exact ⟨_, _, rfl, Nat.le_refl _, by decide, 2^53, Or.inr ⟨rfl, rfl, rfl⟩, Or.inr ⟨hc.symm, hs⟩⟩
    · rw [if_neg hc]
      exact ⟨_, _, rfl, by omega, by omega, a / 2^t + 1, Or.inl ⟨rfl, rfl⟩, Or.inr ⟨rfl, hs⟩⟩

/-! ## sums and the product by 2^64 of floats whose values are natural numbers -/

theorem den_pow (e : Int) : ∃ k, den e = 2^k := by
  unfold den
  split
  · exact ⟨0, rfl⟩
  · exact ⟨_, rfl⟩

/-- the sum of two non-negative floats with natural values `X`, `Y` (`m·2^e = X`, written `num m e = X · den e`) is the
    rounding of `X + Y` -/
theorem add_nat (m1 m2 : Nat) (e1 e2 : Int) (X Y : Nat) (h1 : num m1 e1 = X * den e1) (h2 : num m2 e2 = Y * den e2)
    (h : X + Y ≠ 0) : add (.fin false m1 e1) (.fin false m2 e2) = ofRat false (X + Y) 1 := by
  obtain ⟨k1, hk1⟩ := den_pow e1
  obtain ⟨k2, hk2⟩ := den_pow e2
  show ofSigned (sInt false (num m1 e1) * den e2 + sInt false (num m2 e2) * den e1) (den e1 * den e2) (false && false) = _
  rw [h1, h2, hk1, hk2]
  have hn : sInt false (X * 2^k1) * ((2^k2 : Nat) : Int) + sInt false (Y * 2^k2) * ((2^k1 : Nat) : Int)
      = (((X + Y) * 2^(k1 + k2) : Nat) : Int) := by
    unfold sInt
    simp only [Bool.false_eq_true, if_false]
    rw [← Int.natCast_mul, ← Int.natCast_mul, ← Int.natCast_add]
    congr 1
    rw [Nat.pow_add, Nat.add_mul, Nat.mul_assoc, Nat.mul_assoc, Nat.mul_comm (2^k2) (2^k1)]
  rw [hn, ← Nat.pow_add]
  have hpos : 0 < (X + Y) * 2^(k1 + k2) := Nat.mul_pos (by omega) (pow_pos' _)
  unfold ofSigned
  have c1 : ((((X + Y) * 2^(k1 + k2) : Nat) : Int) == 0) = false := by
    simp only [beq_eq_false_iff_ne, ne_eq]; omega
  have c2 : decide ((((X + Y) * 2^(k1 + k2) : Nat) : Int) < 0) = false := by
    simp only [decide_eq_false_iff_not]; omega
  rw [c1]
  simp only [Bool.false_eq_true, if_false]
  rw [c2, Int.natAbs_natCast]
  unfold ofRat
  have := roundRatN_scale false (X + Y) 1 (k1 + k2) (by decide)
  rw [Nat.one_mul] at this
  rw [this]

theorem num_nonneg (m : Nat) (e : Int) (he : 0 ≤ e) : num m e = m * 2^e.toNat * den e := by
  unfold num den
  rw [if_pos he, if_pos he, Nat.mul_one]

/-- multiplication of a normal float by `2^64` (`wrapUint64Float`) only moves the exponent -/
theorem mul_two64 (m : Nat) (e : Int) (hm1 : 2^52 ≤ m) (hm2 : m < 2^53) (he1 : -64 ≤ e) (he2 : e ≤ 900) :
    mul (.fin false m e) (.fin false (2^52) 12) = .fin false m (e + 64) := by
  show (if (m == 0 || (2^52 : Nat) == 0) then F64.fin (false != false) 0 (-1074)
        else ofRat (false != false) (num m e * num (2^52) 12) (den e * den 12)) = _
  have c : (m == 0 || (2^52 : Nat) == 0) = false := by
    have : (m == 0) = false := by simp only [beq_eq_false_iff_ne, ne_eq]; omega
    rw [this]; decide
  rw [c]
  simp only [Bool.false_eq_true, if_false]
  have n12 : num (2^52) 12 = 2^64 := by decide
  have d12 : den 12 = 1 := by decide
  rw [n12, d12, Nat.mul_one]
  have hd : 0 < den e := by
    obtain ⟨k, hk⟩ := den_pow e; rw [hk]; exact pow_pos' k
  have hex : Exact (num m e * 2^64) (den e) m (e + 64) := by
    unfold Exact
    rw [if_pos (by omega)]
    unfold num den
    by_cases h0 : e ≥ 0
    · rw [if_pos h0, if_pos h0, Nat.one_mul]
      have : (e + 64).toNat = e.toNat + 64 := by omega
      rw [this, Nat.pow_add, Nat.mul_assoc]
    · rw [if_neg h0, if_neg h0, ← Nat.pow_add]
      have : (-e).toNat + (e + 64).toNat = 64 := by omega
      rw [this]
  show decode (roundRatN false _ _) = _
  rw [roundRatN_exact false _ _ m (e + 64) hd hex hm1 hm2 (by omega) (by omega)]
  exact decode_encodeNormal false _ _ hm1 hm2 (by omega) (by omega)

/-! ## what `Rnd` says about the value -/

/-- value facts of a rounding: `R = m·2^e` is within half a unit `2^t` of `a`, the result's own unit `2^e` is `2^t`
    or (after a carry) `2^(t+1)`, and `R` stays inside the closed binade -/
theorem Rnd.val {a t m : Nat} {e : Int} (h : Rnd a t m e) :
    0 ≤ e ∧ (t : Int) ≤ e ∧ e ≤ (t : Int) + 1 ∧ 2^t ≤ 2^e.toNat ∧
    2 * (m * 2^e.toNat) ≤ 2 * a + 2^t ∧ 2 * a ≤ 2 * (m * 2^e.toNat) + 2^t ∧
    2^(52 + t) ≤ m * 2^e.toNat ∧ m * 2^e.toNat ≤ 2^(53 + t) := by
  obtain ⟨hm1, hm2, q', hc, hq⟩ := h
  have hp := pow_pos' t
  have hdm := Nat.div_add_mod a (2^t)
  have hml := Nat.mod_lt a hp
  -- value of the result is q'·2^t
  have hv : m * 2^e.toNat = q' * 2^t ∧ 2^t ≤ 2^e.toNat ∧ 0 ≤ e ∧ (t : Int) ≤ e ∧ e ≤ (t : Int) + 1 ∧ q' ≤ 2^53 ∧ 2^52 ≤ q' := by
    rcases hc with ⟨he, hm⟩ | ⟨he, hm, hq'⟩
    · rw [he, ← hm]
      simp only [Int.toNat_natCast]
      exact ⟨trivial, Nat.le_refl _, by omega, by omega, by omega, by omega, hm1⟩
    · have e1 : e.toNat = t + 1 := by omega
      have e2 : (2:Nat)^(t + 1) = 2^t * 2 := Nat.pow_succ 2 t
      rw [e1, e2, hm, hq']
      refine ⟨?_, by omega, by omega, by omega, by omega, Nat.le_refl _, by decide⟩
      rw [show (2:Nat)^53 = 2^52 * 2 by decide, Nat.mul_assoc, Nat.mul_comm (2^t) 2]
  obtain ⟨hv1, hv2, hv3, hv4, hv5, hv6, hv7⟩ := hv
  rw [hv1]
  refine ⟨hv3, hv4, hv5, hv2, ?_, ?_, ?_, ?_⟩
  · rcases hq with ⟨e1, e2, _⟩ | ⟨e1, e2, _⟩
    · rw [e1, Nat.mul_comm (a / 2^t)]; omega
    · rw [e1, Nat.add_mul, Nat.mul_comm (a / 2^t)]; omega
  · rcases hq with ⟨e1, e2, _⟩ | ⟨e1, e2, _⟩
    · rw [e1, Nat.mul_comm (a / 2^t)]; omega
    · rw [e1, Nat.add_mul, Nat.mul_comm (a / 2^t)]; omega
  · rw [Nat.pow_add]; exact Nat.mul_le_mul_right _ hv7
  · rw [Nat.pow_add]; exact Nat.mul_le_mul_right _ hv6

/-! ## `float64(n)` for any natural number below 2^200 -/

theorem binade (a : Nat) (h : 2^52 ≤ a) : ∃ t, 2^(52 + t) ≤ a ∧ a < 2^(53 + t) := by
  have ha : a ≠ 0 := by
    have := pow_pos' 52
    omega
  obtain ⟨l1, l2⟩ := log_bounds a ha
  have : 52 ≤ a.log2 := (Nat.le_log2 ha).mpr h
  refine ⟨a.log2 - 52, ?_, ?_⟩
  · rw [show 52 + (a.log2 - 52) = a.log2 by omega]; exact l1
  · rw [show 53 + (a.log2 - 52) = a.log2 + 1 by omega]; exact l2

/-- `float64(a)` is a normal float `m·2^e` whose value is a natural number `X`: `X = a` below 2^53, and otherwise the
    nearest-even rounding of `a` in its binade -/
theorem nat_round (a : Nat) (h0 : 0 < a) (hb : a < 2^200) :
    ∃ m e X, ofRat false a 1 = .fin false m e ∧ 2^52 ≤ m ∧ m < 2^53 ∧ -52 ≤ e ∧ e ≤ 200 ∧ num m e = X * den e ∧
      ((a < 2^53 ∧ X = a) ∨
       (∃ t, 1 ≤ t ∧ 2^(52 + t) ≤ a ∧ a < 2^(53 + t) ∧ Rnd a t m e ∧ X = m * 2^e.toNat)) := by
  by_cases hs : a < 2^53
  · have hu : a ≠ 0 := by omega
    obtain ⟨l1, l2⟩ := log_bounds a hu
    have hl : a.log2 < 53 := (Nat.log2_lt hu).mpr hs
    have hm1 : 2^52 ≤ a * 2^(52 - a.log2) := by
      calc 2^52 = 2^a.log2 * 2^(52 - a.log2) := by rw [← Nat.pow_add]; congr 1; omega
        _ ≤ _ := Nat.mul_le_mul_right _ l1
    have hm2 : a * 2^(52 - a.log2) < 2^53 := by
      calc a * 2^(52 - a.log2) < 2^(a.log2 + 1) * 2^(52 - a.log2) := Nat.mul_lt_mul_of_pos_right l2 (pow_pos' _)
        _ = 2^53 := by rw [← Nat.pow_add]; congr 1; omega
    refine ⟨a * 2^(52 - a.log2), (a.log2 : Int) - 52, a, ofNat_exact a h0 hs, hm1, hm2, by omega, by omega, ?_,
      Or.inl ⟨hs, rfl⟩⟩
    unfold num den
    by_cases c : (a.log2 : Int) - 52 ≥ 0
    · have : a.log2 = 52 := by omega
      rw [if_pos c, if_pos c, this]; simp
    · rw [if_neg c, if_neg c]
      have : (-((a.log2 : Int) - 52)).toNat = 52 - a.log2 := by omega
      rw [this]
  · obtain ⟨t, ht1, ht2⟩ := binade a (by omega)
    have t1 : 1 ≤ t := by
      rcases Nat.eq_zero_or_pos t with h | h
      · subst h; exact absurd ht2 hs
      · exact h
    have t2 : 52 + t < 200 := lt_of_pow_lt (Nat.lt_of_le_of_lt ht1 hb)
    obtain ⟨m, e, hr, hR⟩ := ofRat_nat_round a t ht1 ht2 (by omega)
    have hv := hR.val
    exact ⟨m, e, m * 2^e.toNat, hr, hR.1, hR.2.1, by omega, by omega, num_nonneg m e hv.1,
      Or.inr ⟨t, t1, ht1, ht2, hR, rfl⟩⟩

/-- the value of a float times 2^64, from its fraction-free value equation -/
theorem shift64 (m : Nat) (e : Int) (X : Nat) (he : -64 ≤ e) (h : num m e = X * den e) :
    m * 2^(e + 64).toNat = X * 2^64 := by
  unfold num den at h
  by_cases c : e ≥ 0
  · rw [if_pos c, if_pos c, Nat.mul_one] at h
    have : (e + 64).toNat = e.toNat + 64 := by omega
    rw [this, Nat.pow_add, ← Nat.mul_assoc, h]
  · rw [if_neg c, if_neg c] at h
    have : 64 = (-e).toNat + (e + 64).toNat := by omega
    rw [h, Nat.mul_assoc, ← Nat.pow_add, ← this]

end GoSem.F64
