import Lemmas.BitSet
/-! C08: Trim, Data, Load, Equal, Clone/Copy, Reset. -/
namespace BS

theorem words_eq_iff_bits (a b : List W) : (∀ i, getW a i = getW b i) ↔ ∀ x, bit a x = bit b x := by
  constructor
  · intro h x; unfold bit; rw [h]
  · intro h i
    apply word_ext; intro k hk
    have := h (i * 64 + k)
    unfold bit at this
    have h1 : (i * 64 + k) / 64 = i := by omega
    have h2 : (i * 64 + k) % 64 = k := by omega
    rw [h1, h2] at this; exact this

/-! ### Trim -/

theorem trimLoop_spec (d : List W) (n : Nat) :
    (∀ k, trimLoop d n = some k → 1 ≤ k ∧ k ≤ n ∧ getW d (k - 1) ≠ 0#64 ∧ ∀ i, k ≤ i → i < n → getW d i = 0#64)
    ∧ (trimLoop d n = none → ∀ i, i < n → getW d i = 0#64) := by
  induction n with
  | zero => exact ⟨fun k h => (by simp [trimLoop] at h), fun _ i hi => by omega⟩
  | succ n ih =>
    obtain ⟨ih1, ih2⟩ := ih
    simp only [trimLoop]
    by_cases hz : getW d n = 0#64
    · simp only [hz, bne_self_eq_false, Bool.false_eq_true, if_false]
      refine ⟨fun k h => ?_, fun h i hi => ?_⟩
      · obtain ⟨a, b, c, e⟩ := ih1 k h
        refine ⟨a, by omega, c, fun i h1 h2 => ?_⟩
        by_cases ei : i = n
        · subst ei; exact hz
        · exact e i h1 (by omega)
      · by_cases ei : i = n
        · subst ei; exact hz
        · exact ih2 h i (by omega)
    · have : (getW d n != 0#64) = true := by simpa using hz
      simp only [this, if_true]
      refine ⟨fun k h => ?_, fun h => by cases h⟩
      have : n + 1 = k := by simpa using h
      subst this
      exact ⟨by omega, Nat.le_refl _, by simpa using hz, fun i h1 h2 => by omega⟩

/-- the words `Trim` keeps are the old words; what it drops is zero -/
theorem trim_getW (b : T) (i : Nat) : getW (trim b).data i = getW b.data i := by
  obtain ⟨h1, h2⟩ := trimLoop_spec b.data b.data.length
  unfold trim
  simp only
  generalize trimLoop b.data b.data.length = res at h1 h2
  cases res with
  | some k =>
    obtain ⟨_, _, _, e⟩ := h1 k rfl
    simp only
    split
    · simp only [getW_take]
      split
      · rfl
      · by_cases hi : i < b.data.length
        · exact (e i (by omega) hi).symm
        · exact (getW_of_ge _ _ (by omega)).symm
    · rfl
  | none =>
    simp only [getW_nil]
    by_cases hi : i < b.data.length
    · exact (h2 rfl i hi).symm
    · exact (getW_of_ge _ _ (by omega)).symm

theorem trim_bit (b : T) (x : Nat) : bit (trim b).data x = bit b.data x := by
  unfold bit; rw [trim_getW]

theorem trim_set (b : T) : (trim b).set = b.set := by
  unfold trim; simp only; split
  · split <;> rfl
  · rfl

theorem trim_inv (b : T) (h : Inv b) : Inv (trim b) := by
  unfold Inv at *
  rw [trim_set, h, card_congr _ _ (trim_bit b)]

/-- after `Trim` the storage is empty or ends in a non-zero word: it is the minimum that holds the members -/
theorem trim_minimal (b : T) :
    (trim b).data = [] ∨ getW (trim b).data ((trim b).data.length - 1) ≠ 0#64 := by
  obtain ⟨h1, _⟩ := trimLoop_spec b.data b.data.length
  unfold trim
  simp only
  generalize trimLoop b.data b.data.length = res at h1
  cases res with
  | some k =>
    obtain ⟨a, c, nz, _⟩ := h1 k rfl
    simp only
    split
    · refine Or.inr ?_
      have hl : (List.take k b.data).length = k := by simp; omega
      rw [hl, getW_take]
      have : k - 1 < k := by omega
      simp only [this, if_true]; exact nz
    · rename_i hk
      have hk' : k = b.data.length := by simpa using hk
      exact Or.inr (by rw [← hk']; exact nz)
  | none => exact Or.inl rfl

theorem trim_length_le (b : T) : (trim b).data.length ≤ b.data.length := by
  unfold trim; simp only; split
  · split
    · simp; omega
    · exact Nat.le_refl _
  · simp

/-! ### Load -/

/-- sum of the population counts of the first `n` words -/
def sumPop (d : List W) : Nat → Nat
  | 0 => 0
  | i + 1 => sumPop d i + popcount (getW d i)

theorem sumPop_congr (d d' : List W) (n : Nat) (h : ∀ i, i < n → getW d i = getW d' i) : sumPop d n = sumPop d' n := by
  induction n with
  | zero => rfl
  | succ n ih => simp only [sumPop]; rw [ih (fun i hi => h i (by omega)), h n (by omega)]

theorem sumPop_cons (w : W) (ws : List W) (n : Nat) : sumPop (w :: ws) (n + 1) = popcount w + sumPop ws n := by
  induction n with
  | zero => simp [sumPop, getW_cons_zero]
  | succ n ih =>
    rw [sumPop, ih, sumPop, getW_cons_succ]; omega

theorem card_eq_sumPop (d : List W) : card d = sumPop d d.length := by
  induction d with
  | nil => rfl
  | cons w ws ih => rw [List.length_cons, sumPop_cons, card, ih]

theorem countBits_succ (w : W) (n : Nat) : countBits w (n + 1) = countBits w n + (if w.getLsbD n then 1 else 0) := rfl

theorem loadBits_spec (word : W) (n : Nat) : ∀ (s : Int) (j : Nat), j + n ≤ 64 →
    loadBits word s j n = s + countBits word (j + n) - countBits word j := by
  induction n with
  | zero => intro s j _; simp only [loadBits, Nat.add_zero]; omega
  | succ n ih =>
    intro s j hj
    simp only [loadBits]
    rw [ih _ (j + 1) (by omega)]
    have ht := testSet_eq word j
    unfold testSet at ht
    rw [Nat.mod_eq_of_lt (by omega : j < 64)] at ht
    rw [ht, countBits_succ word j]
    have e : j + 1 + n = j + (n + 1) := by omega
    rw [e]
    cases word.getLsbD j <;> simp <;> omega

theorem loadLoop_spec (data : List W) (n : Nat) : ∀ s : Int, loadLoop data s n = s + sumPop data n := by
  induction n with
  | zero => intro s; simp [loadLoop, sumPop]
  | succ n ih =>
    intro s
    simp only [loadLoop, sumPop]
    rw [ih]
    by_cases hz : getW data n = 0#64
    · simp only [hz, bne_self_eq_false, Bool.false_eq_true, if_false, popcount_zero]; omega
    · have : (getW data n != 0#64) = true := by simpa using hz
      simp only [this, if_true, dbpw_eq]
      rw [loadBits_spec _ 64 _ 0 (by omega)]
      have : countBits (getW data n) 0 = 0 := rfl
      unfold popcount
      simp only [Nat.zero_add, this]
      omega

/-- **Load** installs exactly the members of the given words … -/
theorem load_bit (b : T) (ws : List W) (x : Nat) : bit (load b ws).data x = bit ws x := by
  unfold load; simp only
  exact trim_bit { b with data := ws } x

/-- … and recomputes the count, whatever the receiver held before -/
theorem load_inv (b : T) (ws : List W) : Inv (load b ws) := by
  unfold Inv load
  simp only
  rw [loadLoop_spec, card_eq_sumPop]
  have := sumPop_congr (trim { b with data := ws }).data ws (trim { b with data := ws }).data.length
    (fun i _ => trim_getW { b with data := ws } i)
  rw [this]; simp

theorem load_data_eq (b : T) (ws : List W) : (load b ws).data = (trim { b with data := ws }).data := rfl

/-! ### Equal -/

theorem prefixEq_iff (s l : List W) (h : s.length ≤ l.length) :
    prefixEq s l = true ↔ ∀ i, i < s.length → getW s i = getW l i := by
  induction s generalizing l with
  | nil => simp [prefixEq]
  | cons x s ih =>
    cases l with
    | nil => simp at h
    | cons y l =>
      simp only [prefixEq]
      by_cases hxy : x = y
      · subst hxy
        simp only [bne_self_eq_false, Bool.false_eq_true, if_false]
        rw [ih l (by simpa using h)]
        constructor
        · intro hh i hi
          cases i with
          | zero => simp [getW_cons_zero]
          | succ i => rw [getW_cons_succ, getW_cons_succ]; exact hh i (by simpa using hi)
        · intro hh i hi
          have := hh (i + 1) (by simpa using hi)
          rwa [getW_cons_succ, getW_cons_succ] at this
      · have : (x != y) = true := by simpa using hxy
        simp only [this, if_true]
        constructor
        · intro hh; cases hh
        · intro hh
          have := hh 0 (by simp)
          rw [getW_cons_zero, getW_cons_zero] at this
          exact absurd this hxy

theorem allZero_iff (l : List W) : allZero l = true ↔ ∀ i, getW l i = 0#64 := by
  induction l with
  | nil => simp [allZero, getW_nil]
  | cons w ws ih =>
    simp only [allZero]
    by_cases hz : w = 0#64
    · subst hz
      simp only [bne_self_eq_false, Bool.false_eq_true, if_false]
      rw [ih]
      constructor
      · intro hh i
        cases i with
        | zero => exact getW_cons_zero _ _
        | succ i => rw [getW_cons_succ]; exact hh i
      · intro hh i
        have := hh (i + 1)
        rwa [getW_cons_succ] at this
    · have : (w != 0#64) = true := by simpa using hz
      simp only [this, if_true]
      constructor
      · intro hh; cases hh
      · intro hh
        have := hh 0
        rw [getW_cons_zero] at this
        exact absurd this hz

theorem getW_drop (l : List W) (n i : Nat) : getW (l.drop n) i = getW l (n + i) := by
  unfold getW
  rw [List.getD_eq_getElem?_getD, List.getD_eq_getElem?_getD, List.getElem?_drop]

/-- prefix comparison plus "the rest of the longer side is zero" is equality of all words -/
theorem shorter_longer_iff (s l : List W) (h : s.length ≤ l.length) :
    ((!prefixEq s l) = false ∧ allZero (l.drop s.length) = true) ↔ ∀ i, getW s i = getW l i := by
  rw [allZero_iff]
  have hp := prefixEq_iff s l h
  constructor
  · rintro ⟨h1, h2⟩ i
    have h1' : prefixEq s l = true := by simpa using h1
    by_cases hi : i < s.length
    · exact hp.mp h1' i hi
    · have := h2 (i - s.length)
      rw [getW_drop] at this
      have e : s.length + (i - s.length) = i := by omega
      rw [e] at this
      rw [this, getW_of_ge _ _ (by omega)]
  · intro hh
    refine ⟨by simpa using hp.mpr (fun i _ => hh i), fun i => ?_⟩
    rw [getW_drop, ← hh, getW_of_ge _ _ (by omega)]

/-- **Equal** (as written: count shortcut, swap to shorter/longer, prefix, zero tail) -/
theorem equal_iff_raw (a b : T) : equal a b = true ↔ (a.set = b.set ∧ ∀ x, mem a x = mem b x) := by
  unfold equal mem
  rw [← words_eq_iff_bits]
  by_cases hs : a.set = b.set
  · simp only [hs, bne_self_eq_false, Bool.false_eq_true, if_false, true_and]
    by_cases hl : a.data.length > b.data.length
    · simp only [hl, if_true]
      have := shorter_longer_iff b.data a.data (by omega)
      constructor
      · intro h i
        refine (this.mp ?_ i).symm
        by_cases hp : (!prefixEq b.data a.data) = true
        · simp [hp] at h
        · simp only [hp, Bool.false_eq_true, if_false] at h
          exact ⟨by simpa using hp, h⟩
      · intro h
        obtain ⟨h1, h2⟩ := this.mpr (fun i => (h i).symm)
        simp only [h1, Bool.false_eq_true, if_false]; exact h2
    · simp only [hl, if_false]
      have := shorter_longer_iff a.data b.data (by omega)
      constructor
      · intro h i
        refine this.mp ?_ i
        by_cases hp : (!prefixEq a.data b.data) = true
        · simp [hp] at h
        · simp only [hp, Bool.false_eq_true, if_false] at h
          exact ⟨by simpa using hp, h⟩
      · intro h
        obtain ⟨h1, h2⟩ := this.mpr h
        simp only [h1, Bool.false_eq_true, if_false]; exact h2
  · have : (a.set != b.set) = true := by simpa using hs
    simp only [this, if_true]
    constructor
    · intro h; cases h
    · intro h; exact absurd h.1 hs

/-- **Equal**: for bit sets that satisfy the invariant, true exactly when the members are the same; capacities play no role -/
theorem equal_iff (a b : T) (ha : Inv a) (hb : Inv b) : equal a b = true ↔ ∀ x, mem a x = mem b x := by
  rw [equal_iff_raw]
  constructor
  · exact fun h => h.2
  · intro h
    refine ⟨?_, h⟩
    unfold Inv at ha hb
    rw [ha, hb, card_congr _ _ h]

end BS
