import Model.LogNest
import Lemmas.LogFanout
/-! C13: a tree of fan-out handlers behaves as the flat fan-out handler over its leaves (core only). -/
namespace ML
open TL

theorem stepTL_eq (σ : Store) (r : Record) (acc : Fan) (c : TL.Handler) :
    stepTL σ r acc c = if TL.enabled c r.level then deliverLeaf σ r acc c else acc := rfl

mutual
theorem Node.enabled_eq : ∀ (n : Node) (level : Int), n.enabled level = n.leaves.any (TL.enabled · level)
  | .leaf h, level => by simp [Node.enabled, Node.leaves]
  | .fan ks, level => by simpa [Node.enabled, Node.leaves] using anyEnabled_eq ks level
theorem anyEnabled_eq : ∀ (ks : List Node) (level : Int), anyEnabled level ks = (leavesL ks).any (TL.enabled · level)
  | [], _ => by simp [anyEnabled, leavesL]
  | k :: ks, level => by
    simp only [anyEnabled, leavesL, List.any_append]
    rw [Node.enabled_eq k level, anyEnabled_eq ks level]
end

/-- a run of the flat loop over handlers none of which is enabled does nothing -/
theorem foldl_stepTL_none (σ : Store) (r : Record) : ∀ (cs : List TL.Handler) (acc : Fan),
    cs.any (TL.enabled · r.level) = false → cs.foldl (stepTL σ r) acc = acc
  | [], _, _ => rfl
  | c :: cs, acc, h => by
    simp only [List.any_cons, Bool.or_eq_false_iff] at h
    simp only [List.foldl_cons, stepTL_eq, h.1, Bool.false_eq_true, if_false]
    exact foldl_stepTL_none σ r cs acc h.2

mutual
theorem Node.handle_eq (σ : Store) (r : Record) : ∀ (n : Node) (acc : Fan),
    (if n.enabled r.level then n.handle σ r acc else acc) = n.leaves.foldl (stepTL σ r) acc
  | .leaf h, acc => by
    simp only [Node.enabled, Node.handle, Node.leaves, List.foldl_cons, List.foldl_nil]
    by_cases he : TL.enabled h r.level = true <;> simp [stepTL_eq, he]
  | .fan ks, acc => by
    simp only [Node.enabled, Node.handle, Node.leaves]
    by_cases he : anyEnabled r.level ks = true
    · simp only [he, if_true]; exact handleKids_eq σ r ks acc
    · have he' : anyEnabled r.level ks = false := by simpa using he
      simp only [he', Bool.false_eq_true, if_false]
      rw [anyEnabled_eq] at he'
      exact (foldl_stepTL_none σ r _ acc he').symm
theorem handleKids_eq (σ : Store) (r : Record) : ∀ (ks : List Node) (acc : Fan),
    handleKids σ r acc ks = (leavesL ks).foldl (stepTL σ r) acc
  | [], acc => by simp [handleKids, leavesL]
  | k :: ks, acc => by
    simp only [handleKids, leavesL, List.foldl_append]
    rw [Node.handle_eq σ r k acc]
    exact handleKids_eq σ r ks _
end

/-- `mapDerive` over a concatenation: left part first, the store threaded into the right part -/
theorem mapDerive_append (f : Store → TL.Handler → Store × TL.Handler × Bool) : ∀ (a b : List TL.Handler) (σ : Store),
    mapDerive f σ (a ++ b) =
      ((mapDerive f (mapDerive f σ a).1 b).1, (mapDerive f σ a).2 ++ (mapDerive f (mapDerive f σ a).1 b).2)
  | [], b, σ => by simp [mapDerive]
  | c :: a, b, σ => by
    simp only [List.cons_append, mapDerive]
    rw [mapDerive_append f a b]

mutual
theorem Node.derive_eq (f : Store → TL.Handler → Store × TL.Handler × Bool) : ∀ (n : Node) (σ : Store),
    (n.derive f σ).1 = (mapDerive f σ n.leaves).1 ∧ (n.derive f σ).2.leaves = (mapDerive f σ n.leaves).2
  | .leaf h, σ => by simp [Node.derive, Node.leaves, mapDerive]
  | .fan ks, σ => by
    simp only [Node.derive, Node.leaves]
    exact deriveL_eq f ks σ
theorem deriveL_eq (f : Store → TL.Handler → Store × TL.Handler × Bool) : ∀ (ks : List Node) (σ : Store),
    (deriveL f σ ks).1 = (mapDerive f σ (leavesL ks)).1 ∧ leavesL (deriveL f σ ks).2 = (mapDerive f σ (leavesL ks)).2
  | [], σ => by simp [deriveL, leavesL, mapDerive]
  | k :: ks, σ => by
    obtain ⟨h1, h2⟩ := Node.derive_eq f k σ
    obtain ⟨h3, h4⟩ := deriveL_eq f ks (k.derive f σ).1
    simp only [deriveL, leavesL, mapDerive_append]
    rw [h1] at h3 h4 ⊢
    exact ⟨h3, by rw [h2, h4]⟩
end

end ML
