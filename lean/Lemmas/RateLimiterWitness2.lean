import Lemmas.RateLimiterTicks
/-! A second concrete infinite run, with a request that has to wait, a tick that serves it and root `Close` afterwards:
    it meets ALL the scheduler / time assumptions (`HoldersRun`, `LockFair`, `SelectFair`, `DrainFair`, `TicksFire`)
    from which `ticksServed_of_fairness` and `eventually_answered` conclude.  Core Lean. -/
namespace RL

/-- root of capacity 1: `Use(1)` (granted), `Use(1)` (waits), one whole tick (serves it), root `Close`, the drain -/
def sched2 : List Micro :=
  [.apiLock, .use 0 1, .apiLock, .use 0 1, .tickFires, .tickLock, .tickRuns, .tickUnlock,
   .closeLock, .closeMark, .closeUnlock, .doneReceived, .drainLock, .drain, .drainUnlock]

def witness2 : Nat → S
  | 0 => init 1
  | i + 1 => micro (witness2 i) (sched2.getD i .useNeg)

theorem sched2_ge (i : Nat) (h : 15 ≤ i) : sched2.getD i .useNeg = .useNeg := by
  have hn : sched2[i]? = none := List.getElem?_eq_none (show sched2.length ≤ i from h)
  simp [List.getD, hn]

theorem witness2_tail (k : Nat) :
    (witness2 (15 + k)).tpc = .tend ∧ (witness2 (15 + k)).cpc = .ret ∧ (witness2 (15 + k)).holder = .free := by
  induction k with
  | zero => exact ⟨by decide, by decide, by decide⟩
  | succ k ih =>
    have e : witness2 (15 + (k + 1)) = answer (witness2 (15 + k)) .errNeg := by
      show micro (witness2 (15 + k)) (sched2.getD (15 + k) .useNeg) = _
      rw [sched2_ge (15 + k) (by omega)]; rfl
    rw [e]; exact ih

theorem witness2_ge (i : Nat) (h : 15 ≤ i) :
    (witness2 i).tpc = .tend ∧ (witness2 i).cpc = .ret ∧ (witness2 i).holder = .free := by
  have := witness2_tail (i - 15)
  have e : 15 + (i - 15) = i := by omega
  rw [e] at this; exact this

theorem lt15 (i : Nat) (h : ¬ 15 ≤ i) :
    i = 0 ∨ i = 1 ∨ i = 2 ∨ i = 3 ∨ i = 4 ∨ i = 5 ∨ i = 6 ∨ i = 7 ∨ i = 8 ∨ i = 9 ∨ i = 10 ∨ i = 11 ∨ i = 12 ∨
    i = 13 ∨ i = 14 := by omega

theorem witness2_step (i : Nat) : Step (witness2 i) (witness2 (i + 1)) := by
  have key : ∀ (s : S) (m : Micro),
      ((micro s m).cpc ≠ s.cpc ∨ (micro s m).tpc ≠ s.tpc ∨ (micro s m).holder ≠ s.holder) → Step s (micro s m) := by
    intro s m hne
    rcases micro_step s m with h | h
    · rw [h] at hne; rcases hne with hne | hne | hne <;> exact absurd rfl hne
    · exact h
  by_cases h15 : 15 ≤ i
  · show Step (witness2 i) (micro (witness2 i) (sched2.getD i .useNeg))
    rw [sched2_ge i h15]; exact .useNeg _
  · rcases lt15 i h15 with h | h | h | h | h | h | h | h | h | h | h | h | h | h | h <;> subst h
    · exact key _ _ (Or.inr (Or.inr (by decide)))
    · exact key _ _ (Or.inr (Or.inr (by decide)))
    · exact key _ _ (Or.inr (Or.inr (by decide)))
    · exact key _ _ (Or.inr (Or.inr (by decide)))
    · exact key _ _ (Or.inr (Or.inl (by decide)))
    · exact key _ _ (Or.inr (Or.inl (by decide)))
    · exact key _ _ (Or.inr (Or.inl (by decide)))
    · exact key _ _ (Or.inr (Or.inl (by decide)))
    · exact key _ _ (Or.inl (by decide))
    · exact key _ _ (Or.inl (by decide))
    · exact key _ _ (Or.inl (by decide))
    · exact key _ _ (Or.inl (by decide))
    · exact key _ _ (Or.inr (Or.inl (by decide)))
    · exact key _ _ (Or.inr (Or.inl (by decide)))
    · exact key _ _ (Or.inr (Or.inl (by decide)))

theorem witness2_isRun : IsRun 1 witness2 := ⟨rfl, witness2_step⟩

/-- whoever is inside a critical section of its own at instant `i` has moved on at instant `i + 1` -/
theorem witness2_moves (i : Nat) :
    ((witness2 i).holder = .api → (witness2 (i + 1)).holder ≠ .api) ∧
    (((witness2 i).tpc = .tcrit ∨ (witness2 i).tpc = .tunl ∨ (witness2 i).tpc = .dcrit) →
      (witness2 (i + 1)).tpc ≠ (witness2 i).tpc) ∧
    (((witness2 i).cpc = .crit ∨ (witness2 i).cpc = .marked) → (witness2 (i + 1)).cpc ≠ (witness2 i).cpc) := by
  by_cases h15 : 15 ≤ i
  · obtain ⟨a, b, d⟩ := witness2_ge i h15
    refine ⟨fun h => ?_, fun h => ?_, fun h => ?_⟩
    · rw [d] at h; cases h
    · rw [a] at h; rcases h with h | h | h <;> cases h
    · rw [b] at h; rcases h with h | h <;> cases h
  · rcases lt15 i h15 with h | h | h | h | h | h | h | h | h | h | h | h | h | h | h <;> subst h <;> decide

theorem witness2_holdersRun : HoldersRun witness2 where
  api := fun i h => ⟨i + 1, by omega, (witness2_moves i).1 h⟩
  ticker := fun i h => ⟨i + 1, by omega, (witness2_moves i).2.1 (by rcases h with h | h <;> simp [h])⟩
  closer := fun i h => ⟨i + 1, by omega, (witness2_moves i).2.2 h⟩

theorem witness2_lockFair : LockFair witness2 := by
  intro i h
  obtain ⟨k, hk, ht, _⟩ := h (i + 15) (by omega)
  rw [(witness2_ge k (by omega)).1] at ht; cases ht

theorem witness2_selectFair : SelectFair witness2 := by
  intro i h
  obtain ⟨k, hk, ht, _⟩ := h (i + 15) (by omega)
  rw [(witness2_ge k (by omega)).1] at ht; cases ht

theorem witness2_drainFair : DrainFair witness2 where
  lock := by
    intro i h
    obtain ⟨k, hk, ht, _⟩ := h (i + 15) (by omega)
    rw [(witness2_ge k (by omega)).1] at ht; cases ht
  runs := fun i h => ⟨i + 1, by omega, by have := (witness2_moves i).2.1 (Or.inr (Or.inr h)); rwa [h] at this⟩

theorem witness2_ticksFire : TicksFire witness2 := by
  intro i _
  refine ⟨i + 15, by omega, ?_⟩
  rw [(witness2_ge (i + 15) (by omega)).1]; decide

/-- on this run the second request waits from instant 4 on, the lock is taken by the waiting ticker goroutine at
    instant 5, and the request has its one answer — nil — after the body of the tick (instant 7) -/
theorem witness2_facts :
    (witness2 4).waiting.map (·.id) = [1] ∧ (witness2 5).tpc = .tlock ∧ (witness2 6).tpc = .tcrit ∧
    (witness2 7).waiting.map (·.id) = [] ∧ (witness2 7).answered = [(1, .ok), (0, .ok)] ∧
    (witness2 11).cpc = .send ∧ (witness2 12).cpc = .ret := by
  decide

end RL
