import Lemmas.Errs
/-! C11: variants of `Append` WITHOUT one of its mechanisms, for the contrast theorems of `Props/C11.lean`.
    Nothing here is run against the code; the variants differ from `Errs.appendLoop` / `Errs.argNode` in one place each. -/
namespace Errs

/-- the argument loop without the walk to the end of what was just linked (the code before fix e5d8074): the cursor stays
    on the FIRST cell of the argument -/
def appendLoopNoWalk (h : Heap) (root cur : Option Nat) (log : List Nat) : List Val → Heap × Option Nat × List Nat
  | [] => (h, root, log)
  | a :: as =>
    match argNode h a with
    | (h1, none, _) => appendLoopNoWalk h1 root cur log as
    | (h1, some n, w) =>
      match cur with
      | none => appendLoopNoWalk h1 (some n) (some n) (log ++ w) as
      | some e => appendLoopNoWalk (setNext h1 e n) root (some n) (log ++ w ++ [e]) as

/-- `Append(err, errs...)` onto a non-empty `*Error` with that loop -/
def appendNoWalk (h : Heap) (id : Nat) (args : List Val) : Heap × Option Nat × List Nat :=
  appendLoopNoWalk h (some id) (some (tailOf h (fuelOf h) id)) [] args

/-- one argument WITHOUT the cell-by-cell copy: an `*Error` argument is linked as it is -/
def argNodeNoCopy (h : Heap) (a : Val) : Heap × Option Nat × List Nat :=
  match a with
  | .ref id => if isEmpty h id then (h, none, []) else (h, some id, [])
  | .typedNil => (h, none, [])
  | v => if isNil v then (h, none, []) else (h.push (wrapperNode v), some h.size, [])

def appendLoopNoCopy (h : Heap) (root cur : Option Nat) (log : List Nat) : List Val → Heap × Option Nat × List Nat
  | [] => (h, root, log)
  | a :: as =>
    match argNodeNoCopy h a with
    | (h1, none, _) => appendLoopNoCopy h1 root cur log as
    | (h1, some n, w) =>
      match cur with
      | none => appendLoopNoCopy h1 (some n) (some (tailOf h1 (fuelOf h1) n)) (log ++ w) as
      | some e =>
        let h2 := setNext h1 e n
        appendLoopNoCopy h2 root (some (tailOf h2 (fuelOf h2) n)) (log ++ w ++ [e]) as

def appendNoCopy (h : Heap) (id : Nat) (args : List Val) : Heap × Option Nat × List Nat :=
  appendLoopNoCopy h (some id) (some (tailOf h (fuelOf h) id)) [] args

/-! ### a cached `tail` hint (the variant of round 7): the first error of a chain remembers the last one -/

/-- the heap with the hint of every cell beside it -/
structure CHeap where
  h : Heap
  tl : Array (Option Nat)

/-- where `Append` starts: the hint when there is one, else the walk -/
def tailC (s : CHeap) (id : Nat) : Nat :=
  match s.tl[id]? with
  | some (some t) => t
  | _ => tailOf s.h (fuelOf s.h) id

/-- `Append` onto the non-empty `*Error` `id`: start at the hint, clear the hint on the copies it makes, record the new last
    cell on the root -/
def appendC (s : CHeap) (id : Nat) (args : List Val) : CHeap :=
  let r := appendLoop s.h (some id) (some (tailC s id)) [] args
  { h := r.1,
    tl := (s.tl ++ Array.replicate (r.1.size - s.h.size) none).setIfInBounds id (some (tailOf r.1 (fuelOf r.1) id)) }

/-- element `i` of `WrappedErrors()` as a value of its own: `eCopy := *err; eCopy.next = nil` — with `copyHint` the hint is
    copied by value along with the rest of the struct (the defect), without it the copy has no hint -/
def elemC (copyHint : Bool) (s : CHeap) (id i : Nat) : CHeap :=
  match (wrappedErrors s.h id)[i]?, (chain s.h (fuelOf s.h) id)[i]? with
  | some n, some j => { h := s.h.push n, tl := s.tl.push (if copyHint then (s.tl[j]?).getD none else none) }
  | _, _ => s

end Errs
