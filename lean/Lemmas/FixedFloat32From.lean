import Lemmas.FixedFloat32

/-! C03 float paths, part 4: `f64.From` of a **float32** (`Int[T](value * float32(Multiplier[T]()))`): the float32 product
    is one rounding to the float32 grid of the exact product with `float32(mult)`, which itself is `mult` rounded to 24 bits
    (exact up to D10, inexact from D11 on). -/
namespace Fixed.FloatLemmas
open GoSem.F64 Fixed.Rat

/-- **a float32 rounding lands on its grid within half a grid unit**: the result is `q·2^t` with `q ≤ 2^24`, `t ≥ -149`,
    at most `2^t / 2` from `a/d` (or overflows, only from `2^127` on) -/
theorem round32_grid (neg : Bool) (a d : ℕ) (ha : 0 < a) (hd : 0 < d) :
    (round32 neg a d = .inf neg ∧ (2 : ℚ) ^ (127 : ℤ) ≤ (a : ℚ) / d) ∨
    (∃ (m : ℕ) (e : ℤ) (q : ℕ) (t : ℤ), round32 neg a d = .fin neg m e ∧ (m : ℚ) * (2 : ℚ) ^ e = (q : ℚ) * (2 : ℚ) ^ t ∧ q ≤ 2 ^ 24 ∧
      -149 ≤ t ∧ (2 ^ 23 ≤ q ∨ t = -149) ∧ |(q : ℚ) * (2 : ℚ) ^ t - (a : ℚ) / d| ≤ (2 : ℚ) ^ t / 2) := by
  obtain ⟨s1, s2⟩ := expP_spec 24 a d (by norm_num) ha hd
  have hab : (a == 0) = false := by simp; omega
  unfold round32
  rw [hab]
  simp only [Bool.false_eq_true, if_false]
  by_cases hc : expP 24 a d < -149
  · -- below the float32 normal range: fixed exponent -149
    rw [if_pos hc]
    obtain ⟨g1, g2⟩ := round_at a d (-149) hd
    obtain ⟨f1, _⟩ := mk_floor a d (-149) hd
    generalize hq0 : (mk a d (-149)).1 = q0 at *
    generalize hq : roundQ q0 (mk a d (-149)).2.1 (mk a d (-149)).2.2 = q at *
    have hsmall : (a : ℚ) / d < (2 : ℚ) ^ (-126 : ℤ) := by
      refine lt_of_lt_of_le s2 (zp_le ?_)
      push_cast; omega
    have hz := zp_pos (-149)
    have hq0lt : q0 < 2 ^ 23 := by
      have h1 : (q0 : ℚ) < (2 : ℚ) ^ (-126 : ℤ) / (2 : ℚ) ^ (-149 : ℤ) :=
        lt_of_le_of_lt f1 (div_lt_div_of_pos_right hsmall hz)
      have h2 : (2 : ℚ) ^ (-126 : ℤ) / (2 : ℚ) ^ (-149 : ℤ) = ((2 ^ 23 : ℕ) : ℚ) := by
        rw [← zpow_sub₀ (by norm_num)]; norm_num
      rw [h2] at h1
      exact_mod_cast h1
    have hqle : q ≤ 2 ^ 24 := by rcases g1 with h | h <;> omega
    have hno : ¬ (q * 2 ^ ((-149 : ℤ) + 149).toNat ≥ 2 ^ (128 + 149)) := by
      have : ((-149 : ℤ) + 149).toNat = 0 := by norm_num
      rw [this]
      have : (2 : ℕ) ^ 24 < 2 ^ (128 + 149) := Nat.pow_lt_pow_right (by norm_num) (by norm_num)
      omega
    rw [if_neg hno]
    right
    rcases Nat.eq_zero_or_pos q with hq00 | hqpos
    · subst hq00
      have hn0 : num 0 (-149) = 0 := by unfold num; simp
      rw [hn0, ofRat_zero]
      exact ⟨0, -1074, 0, -149, rfl, by simp, by norm_num, le_refl _, Or.inr rfl, g2⟩
    · have hhi : (q : ℚ) * (2 : ℚ) ^ (-149 : ℤ) < (2 : ℚ) ^ (1023 : ℤ) := by
        have h1 : (q : ℚ) ≤ ((2 ^ 24 : ℕ) : ℚ) := by exact_mod_cast hqle
        rw [← zp_nat] at h1
        calc (q : ℚ) * (2 : ℚ) ^ (-149 : ℤ) ≤ (2 : ℚ) ^ ((24 : ℕ) : ℤ) * (2 : ℚ) ^ (-149 : ℤ) :=
              mul_le_mul_of_nonneg_right h1 (le_of_lt hz)
          _ = (2 : ℚ) ^ (((24 : ℕ) : ℤ) + -149) := (zp_add _ _).symm
          _ < (2 : ℚ) ^ (1023 : ℤ) := zp_lt_iff.mpr (by norm_num)
      obtain ⟨m, e, h1, h2⟩ := ofRat_dyadic neg q (-149) hqpos
        (le_trans hqle (Nat.pow_le_pow_right (by norm_num) (by norm_num))) (by norm_num) hhi
      exact ⟨m, e, q, -149, h1, h2, hqle, le_refl _, Or.inr rfl, g2⟩
  · -- 24 significant bits at the exponent found by the search
    rw [if_neg hc]
    obtain ⟨p1, p2, p3, _, _⟩ := roundPrec_val 24 a d (by norm_num) ha hd
    unfold roundPrec at p1 p2 p3
    simp only [] at p1 p2 p3
    obtain ⟨_, gg⟩ := round_at a d (expP 24 a d) hd
    generalize ht : expP 24 a d = t at *
    generalize hq : roundQ (mk a d t).1 (mk a d t).2.1 (mk a d t).2.2 = q at *
    have htge : -149 ≤ t := by omega
    have hz := zp_pos t
    have hρ : (0 : ℚ) < (a : ℚ) / d := div_pos (by exact_mod_cast ha) (by exact_mod_cast hd)
    have hnorm : (2 : ℚ) ^ (-126 : ℤ) ≤ (a : ℚ) / d := by
      refine le_trans (zp_le ?_) s1
      push_cast; omega
    have hcast : (((2 : ℕ) ^ (t + 149).toNat : ℕ) : ℚ) = (2 : ℚ) ^ (t + 149) := by
      rw [← zp_nat]; congr 1; omega
    obtain ⟨b1, b2⟩ := abs_le.mp p3
    by_cases ho : q * 2 ^ (t + 149).toNat ≥ 2 ^ (128 + 149)
    · rw [if_pos ho]
      left
      refine ⟨rfl, ?_⟩
      have h1 : (((2 : ℕ) ^ (128 + 149) : ℕ) : ℚ) ≤ ((q * 2 ^ (t + 149).toNat : ℕ) : ℚ) := by exact_mod_cast ho
      rw [Nat.cast_mul, hcast, zp_add, ← zp_nat] at h1
      have h277 : (2 : ℚ) ^ (((128 + 149 : ℕ) : ℕ) : ℤ) = (2 : ℚ) ^ (128 : ℤ) * (2 : ℚ) ^ (149 : ℤ) := by
        rw [← zp_add]; norm_num
      rw [h277, ← mul_assoc] at h1
      have h128 : (2 : ℚ) ^ (128 : ℤ) ≤ (q : ℚ) * (2 : ℚ) ^ t := le_of_mul_le_mul_right h1 (zp_pos 149)
      have e128 : (2 : ℚ) ^ (128 : ℤ) = 2 * (2 : ℚ) ^ (127 : ℤ) := by
        rw [show (128 : ℤ) = 1 + 127 by norm_num, zp_add]; norm_num
      rw [e128] at h128
      have hsm : (a : ℚ) / d / 2 ^ 24 ≤ (a : ℚ) / d := div_le_self (le_of_lt hρ) (by norm_num)
      linarith
    · rw [if_neg ho]
      right
      have hlt : (q : ℚ) * (2 : ℚ) ^ t < (2 : ℚ) ^ (128 : ℤ) := by
        have h1 : ((q * 2 ^ (t + 149).toNat : ℕ) : ℚ) < (((2 : ℕ) ^ (128 + 149) : ℕ) : ℚ) := by
          exact_mod_cast (not_le.mp ho)
        rw [Nat.cast_mul, hcast, zp_add, ← zp_nat] at h1
        have h277 : (2 : ℚ) ^ (((128 + 149 : ℕ) : ℕ) : ℤ) = (2 : ℚ) ^ (128 : ℤ) * (2 : ℚ) ^ (149 : ℤ) := by
          rw [← zp_add]; norm_num
        rw [h277, ← mul_assoc] at h1
        exact lt_of_mul_lt_mul_right h1 (le_of_lt (zp_pos 149))
      have hqpos : 0 < q := Nat.lt_of_lt_of_le (Nat.pow_pos (by norm_num)) p1
      obtain ⟨m, e, h1, h2⟩ := ofRat_dyadic neg q t hqpos
        (le_trans p2 (Nat.pow_le_pow_right (by norm_num) (by norm_num))) (by omega)
        (lt_trans hlt (zp_lt_iff.mpr (by norm_num)))
      exact ⟨m, e, q, t, h1, h2, p2, htge, Or.inl (by simpa using p1), gg⟩


theorem tau_small : (2 : ℚ) ^ (-1075 : ℤ) ≤ 1 / 2 ^ 100 := by
  have h := zp_le (show (-1075 : ℤ) ≤ -100 by norm_num)
  have e : (2 : ℚ) ^ (-100 : ℤ) = 1 / 2 ^ 100 := by
    rw [zpow_neg, one_div]; norm_cast
  rw [e] at h; exact h

theorem tau_le_grid (t : ℤ) (ht : -149 ≤ t) : (2 : ℚ) ^ (-1075 : ℤ) ≤ (2 : ℚ) ^ t / 2 ^ 100 := by
  have e : (2 : ℚ) ^ (-1075 : ℤ) = (2 : ℚ) ^ t * (2 : ℚ) ^ (-1075 - t) := by
    rw [← zp_add]; congr 1; ring
  have h := zp_le (show (-1075 - t : ℤ) ≤ -100 by omega)
  have e2 : (2 : ℚ) ^ (-100 : ℤ) = 1 / 2 ^ 100 := by
    rw [zpow_neg, one_div]; norm_cast
  rw [e2] at h
  rw [e, div_eq_mul_one_div]
  exact mul_le_mul_of_nonneg_left h (le_of_lt (zp_pos t))

/-- the arithmetic of truncating a float32 product (pure ℚ) -/
theorem from32_arith (k q : ℕ) (t : ℤ) (y P ρ : ℚ)
    (hq : q ≤ 2 ^ 24) (ht : -149 ≤ t) (hnorm : 2 ^ 23 ≤ q ∨ t = -149)
    (hk1 : (k : ℚ) ≤ (q : ℚ) * (2 : ℚ) ^ t) (hk2 : (q : ℚ) * (2 : ℚ) ^ t < (k : ℚ) + 1)
    (hzy : |(q : ℚ) * (2 : ℚ) ^ t - y| ≤ (2 : ℚ) ^ t / 2)
    (hyP : |y - P| ≤ y / 2 ^ 53 + (2 : ℚ) ^ (-1075 : ℤ))
    (hPρ : |P - ρ| ≤ ρ * (15 / 2 ^ 29)) :
    |(k : ℚ) - ρ| < 1 ∨ |(k : ℚ) - ρ| ≤ ρ / 2 ^ 23 := by
  obtain ⟨a1, a2⟩ := abs_le.mp hzy
  obtain ⟨b1, b2⟩ := abs_le.mp hyP
  obtain ⟨c1, c2⟩ := abs_le.mp hPρ
  have hqq : (q : ℚ) ≤ 2 ^ 24 := by exact_mod_cast hq
  by_cases htn : 0 ≤ t
  · right
    obtain ⟨n, rfl⟩ := Int.eq_ofNat_of_zero_le htn
    have hq23 : 2 ^ 23 ≤ q := by rcases hnorm with h | h <;> omega
    have hq23q : (2 : ℚ) ^ 23 ≤ (q : ℚ) := by exact_mod_cast hq23
    have hcast : (q : ℚ) * (2 : ℚ) ^ (n : ℤ) = ((q * 2 ^ n : ℕ) : ℚ) := by rw [zp_nat]; push_cast; ring
    rw [hcast] at hk1 hk2
    have hkN : k = q * 2 ^ n := by
      have h1 : k ≤ q * 2 ^ n := by exact_mod_cast hk1
      have h2 : q * 2 ^ n < k + 1 := by exact_mod_cast hk2
      omega
    have hg1 : (1 : ℚ) ≤ (2 : ℚ) ^ (n : ℤ) := by
      have := zp_le (show (0 : ℤ) ≤ (n : ℤ) by omega); simpa using this
    have hτ := tau_small
    have hkz : (k : ℚ) = (q : ℚ) * (2 : ℚ) ^ (n : ℤ) := by rw [hcast, hkN]
    rw [hkz]
    generalize (2 : ℚ) ^ (-1075 : ℤ) = τ at *
    generalize hg : (2 : ℚ) ^ (n : ℤ) = g at *
    have hzg : (2 : ℚ) ^ 23 * g ≤ (q : ℚ) * g := mul_le_mul_of_nonneg_right hq23q (by linarith)
    generalize (q : ℚ) * g = z at *
    rw [abs_le]
    constructor <;> linarith
  · left
    obtain ⟨n, hn'⟩ : ∃ n : ℕ, t = -(n : ℤ) := ⟨(-t).toNat, by omega⟩
    subst hn'
    have hn1 : 1 ≤ n := by omega
    have hP : (0 : ℚ) < ((2 ^ n : ℕ) : ℚ) := by exact_mod_cast (pow_pos' n)
    have h2n : (2 : ℚ) ≤ ((2 ^ n : ℕ) : ℚ) := by
      have : 2 ^ 1 ≤ 2 ^ n := Nat.pow_le_pow_right (by norm_num) hn1
      exact_mod_cast this
    have hu : (2 : ℚ) ^ (-(n : ℤ)) = 1 / ((2 ^ n : ℕ) : ℚ) := by rw [zpow_neg, zp_nat]; simp
    have hτ := tau_le_grid (-(n : ℤ)) ht
    -- grid: z + g ≤ k + 1
    have hgrid : (q : ℚ) * (2 : ℚ) ^ (-(n : ℤ)) + (2 : ℚ) ^ (-(n : ℤ)) ≤ (k : ℚ) + 1 := by
      rw [hu] at hk2 ⊢
      have h1 : (q : ℚ) < ((k : ℚ) + 1) * ((2 ^ n : ℕ) : ℚ) := by
        rw [mul_one_div, div_lt_iff₀ hP] at hk2; exact hk2
      have h2 : q < (k + 1) * 2 ^ n := by exact_mod_cast h1
      have h3 : q + 1 ≤ (k + 1) * 2 ^ n := h2
      have h4 : ((q + 1 : ℕ) : ℚ) ≤ (((k + 1) * 2 ^ n : ℕ) : ℚ) := by exact_mod_cast h3
      push_cast at h4
      rw [← add_one_mul, mul_one_div, div_le_iff₀ hP]
      push_cast
      linarith
    have hg0 : (0 : ℚ) < (2 : ℚ) ^ (-(n : ℤ)) := zp_pos _
    have hghalf : (2 : ℚ) ^ (-(n : ℤ)) ≤ 1 / 2 := by
      rw [hu, div_le_div_iff₀ hP (by norm_num)]; linarith
    generalize (2 : ℚ) ^ (-1075 : ℤ) = τ at *
    generalize hg : (2 : ℚ) ^ (-(n : ℤ)) = g at *
    have hzg : (q : ℚ) * g ≤ 2 ^ 24 * g := mul_le_mul_of_nonneg_right hqq (le_of_lt hg0)
    have hz0 : (0 : ℚ) ≤ (q : ℚ) * g := by positivity
    generalize (q : ℚ) * g = z at *
    have hk0 : (0 : ℚ) ≤ (k : ℚ) := by positivity
    rw [abs_lt]
    constructor <;> linarith

/-- the natural number Go's float → integer conversion keeps is the floor of the (non-negative) magnitude -/
theorem truncNat_floor (m : ℕ) (e : ℤ) :
    (((if e ≥ 0 then m * 2 ^ e.toNat else m / 2 ^ (-e).toNat : ℕ)) : ℚ) ≤ (m : ℚ) * (2 : ℚ) ^ e ∧
    (m : ℚ) * (2 : ℚ) ^ e < (((if e ≥ 0 then m * 2 ^ e.toNat else m / 2 ^ (-e).toNat : ℕ)) : ℚ) + 1 := by
  by_cases he : e ≥ 0
  · rw [if_pos he]
    obtain ⟨n, rfl⟩ := Int.eq_ofNat_of_zero_le he
    simp only [Int.toNat_natCast]
    have hcast : ((m * 2 ^ n : ℕ) : ℚ) = (m : ℚ) * (2 : ℚ) ^ (n : ℤ) := by rw [zp_nat]; push_cast; ring
    rw [hcast]; constructor <;> linarith
  · rw [if_neg he]
    obtain ⟨n, hn'⟩ : ∃ n : ℕ, e = -(n : ℤ) := ⟨(-e).toNat, by omega⟩
    subst hn'
    simp only [neg_neg, Int.toNat_natCast]
    have hdm := Nat.div_add_mod m (2 ^ n)
    have hlt := Nat.mod_lt m (pow_pos' n)
    have hP : (0 : ℚ) < ((2 ^ n : ℕ) : ℚ) := by exact_mod_cast (pow_pos' n)
    have hm : (m : ℚ) = ((2 ^ n : ℕ) : ℚ) * ((m / 2 ^ n : ℕ) : ℚ) + ((m % 2 ^ n : ℕ) : ℚ) := by
      exact_mod_cast hdm.symm
    have hrem : ((m % 2 ^ n : ℕ) : ℚ) < ((2 ^ n : ℕ) : ℚ) := by exact_mod_cast hlt
    have hrem0 : (0 : ℚ) ≤ ((m % 2 ^ n : ℕ) : ℚ) := by positivity
    have hu : (2 : ℚ) ^ (-(n : ℤ)) = 1 / ((2 ^ n : ℕ) : ℚ) := by rw [zpow_neg, zp_nat]; simp
    rw [hu, mul_one_div]
    generalize ((2 ^ n : ℕ) : ℚ) = T at *
    generalize ((m / 2 ^ n : ℕ) : ℚ) = k at *
    generalize ((m % 2 ^ n : ℕ) : ℚ) = rem at *
    rw [hm]
    constructor
    · rw [le_div_iff₀ hP]; nlinarith
    · rw [div_lt_iff₀ hP]; nlinarith

/-! ## `float32(Multiplier[T]())` -/

/-- decidable form of: `float32(mult)` is a positive finite float within `15/16 · 2^-25` (relative) of `mult` -/
def m32ok (p : ℕ × ℤ) : Bool :=
  match round32 (decide (p.2 < 0)) p.2.natAbs 1 with
  | .fin false mm me =>
    decide (mm ≠ 0 ∧ ((num mm me : ℤ) - p.2 * (den me : ℤ)).natAbs * 2 ^ 29 ≤ 15 * p.2.natAbs * den me)
  | _ => false

theorem m32ok_all : ∀ p ∈ Facts.fixedConfigs, m32ok p = true := by decide

/-- `float32(Multiplier[T]())` in every configuration: a positive finite float `V` with `|V − mult| ≤ mult·15/2^29`
    (it is exact up to D10; from D11 on `10^D` has more than 24 significant bits) -/
theorem mult32_val (m : ℤ) (hm : Mult m) :
    ∃ mm me, round32 (decide (m < 0)) m.natAbs 1 = .fin false mm me ∧ mm ≠ 0 ∧
      |(mm : ℚ) * (2 : ℚ) ^ me - (m : ℚ)| ≤ (m : ℚ) * (15 / 2 ^ 29) := by
  have hm0 := hm.pos
  obtain ⟨p, hp, rfl⟩ := hm
  have hok := m32ok_all p hp
  unfold m32ok at hok
  split at hok
  · rename_i mm me heq
    simp only [decide_eq_true_eq] at hok
    obtain ⟨h1, h2⟩ := hok
    refine ⟨mm, me, heq, h1, ?_⟩
    have hD : (0 : ℚ) < ((den me : ℕ) : ℚ) := by exact_mod_cast den_pos me
    rw [← num_den_val mm me]
    have e : ((num mm me : ℕ) : ℚ) / ((den me : ℕ) : ℚ) - (p.2 : ℚ)
        = (((num mm me : ℤ) - p.2 * (den me : ℤ) : ℤ) : ℚ) / ((den me : ℕ) : ℚ) := by
      push_cast; field_simp
    rw [e, abs_div, abs_of_pos hD, div_le_iff₀ hD]
    have h3 : ((((num mm me : ℤ) - p.2 * (den me : ℤ)).natAbs * 2 ^ 29 : ℕ) : ℚ)
        ≤ ((15 * p.2.natAbs * den me : ℕ) : ℚ) := by exact_mod_cast h2
    push_cast at h3
    rw [Nat.cast_natAbs, Nat.cast_natAbs, abs_of_pos hm0] at h3
    push_cast at h3 ⊢
    linarith
  · cases hok

/-! ## f64.From of a float32 -/

/-- **f64.From on a float32**: whenever Go defines the conversion (`.ok r`), the raw result is less than one raw unit,
    or at most one part in `2^23` (one unit in the last place of a float32), from the exact product `x · mult` -/
theorem f64_from32_val (m : ℤ) (hm : Mult m) (x : Flt) (r : ℤ) (h : F64.fromFloat32 m x = .ok r) :
    |(r : ℚ) - fval x * m| < 1 ∨ |(r : ℚ) - fval x * m| ≤ |fval x * m| / 2 ^ 23 := by
  unfold F64.fromFloat32 at h
  obtain ⟨mm, me, hmf, hmm0, hV⟩ := mult32_val m hm
  simp only [] at h
  rw [hmf] at h
  have hmq : (0 : ℚ) < (m : ℚ) := by exact_mod_cast hm.pos
  cases x with
  | nan => simp [GoSem.F64.mul, toF32, toI64, isFinite] at h
  | inf s => simp [GoSem.F64.mul, toF32, toI64, isFinite, hmm0] at h
  | fin s mx ex =>
    by_cases hmx : mx = 0
    · subst hmx
      have e0 : GoSem.F64.mul (.fin s 0 ex) (.fin false mm me) = .fin s 0 (-1074) := by simp [GoSem.F64.mul]
      have e1 : toF32 (.fin s 0 (-1074)) = .fin s 0 (-1074) := by simp [toF32, round32, num]
      rw [e0, e1, toI64_zero] at h
      injection h with h'
      left; subst h'
      simp [fval]
    · have hprod : GoSem.F64.mul (.fin s mx ex) (.fin false mm me)
          = ofRat s (num mx ex * num mm me) (den ex * den me) := by
        simp [GoSem.F64.mul, hmx, hmm0]
      rw [hprod] at h
      have hX : (0 : ℚ) < (mx : ℚ) * (2 : ℚ) ^ ex := by
        have : (0 : ℚ) < (mx : ℚ) := by exact_mod_cast (Nat.pos_of_ne_zero hmx)
        have := zp_pos ex
        positivity
      have hD : 0 < den ex * den me := Nat.mul_pos (den_pos _) (den_pos _)
      have hratio : ((num mx ex * num mm me : ℕ) : ℚ) / ((den ex * den me : ℕ) : ℚ)
          = (mx : ℚ) * (2 : ℚ) ^ ex * ((mm : ℚ) * (2 : ℚ) ^ me) := by
        push_cast
        rw [mul_div_mul_comm, num_den_val, num_den_val]
      obtain ⟨v1, v2⟩ := abs_le.mp hV
      have hVpos : (0 : ℚ) < (mm : ℚ) * (2 : ℚ) ^ me := by
        have : (m : ℚ) * (15 / 2 ^ 29) ≤ (m : ℚ) / 2 := by
          rw [div_eq_mul_one_div (m : ℚ) 2]
          exact mul_le_mul_of_nonneg_left (by norm_num) (le_of_lt hmq)
        linarith
      have hA : 0 < num mx ex * num mm me := by
        rcases Nat.eq_zero_or_pos (num mx ex * num mm me) with h0 | h0
        · rw [h0, Nat.cast_zero, zero_div] at hratio
          have := mul_pos hX hVpos
          linarith
        · exact h0
      -- the exact quantities: ρ = |x|·mult, P = |x|·float32(mult)
      have hPρ : |(mx : ℚ) * (2 : ℚ) ^ ex * ((mm : ℚ) * (2 : ℚ) ^ me) - (mx : ℚ) * (2 : ℚ) ^ ex * m|
          ≤ (mx : ℚ) * (2 : ℚ) ^ ex * m * (15 / 2 ^ 29) := by
        have e : (mx : ℚ) * (2 : ℚ) ^ ex * ((mm : ℚ) * (2 : ℚ) ^ me) - (mx : ℚ) * (2 : ℚ) ^ ex * m
            = (mx : ℚ) * (2 : ℚ) ^ ex * ((mm : ℚ) * (2 : ℚ) ^ me - m) := by ring
        rw [e, abs_mul, abs_of_pos hX]
        calc (mx : ℚ) * (2 : ℚ) ^ ex * |(mm : ℚ) * (2 : ℚ) ^ me - m|
            ≤ (mx : ℚ) * (2 : ℚ) ^ ex * ((m : ℚ) * (15 / 2 ^ 29)) := mul_le_mul_of_nonneg_left hV (le_of_lt hX)
          _ = (mx : ℚ) * (2 : ℚ) ^ ex * m * (15 / 2 ^ 29) := by ring
      have hx : fval (.fin s mx ex) * m = sgn s * ((mx : ℚ) * (2 : ℚ) ^ ex * m) := by
        unfold fval; ring
      have hρpos : (0 : ℚ) < (mx : ℚ) * (2 : ℚ) ^ ex * m := mul_pos hX hmq
      unfold ofRat at h
      rcases roundRatN_val s _ _ hA hD with ⟨hi, _⟩ | ⟨m', e', hf, _, _, hn, habs, _⟩
      · rw [hi] at h; simp [toF32, toI64, isFinite] at h
      · rw [hratio] at habs
        rw [hf] at h
        simp only [toF32] at h
        have hy0 : (0 : ℚ) ≤ (m' : ℚ) * (2 : ℚ) ^ e' := mul_nonneg (Nat.cast_nonneg _) (le_of_lt (zp_pos e'))
        have hyP : |(m' : ℚ) * (2 : ℚ) ^ e' - (mx : ℚ) * (2 : ℚ) ^ ex * ((mm : ℚ) * (2 : ℚ) ^ me)|
            ≤ (m' : ℚ) * (2 : ℚ) ^ e' / 2 ^ 53 + (2 : ℚ) ^ (-1075 : ℤ) := by
          have hτ0 := zp_pos (-1075)
          have hu := zp_pos e'
          rcases hn with h52 | h52
          · have h1 : (4503599627370496 : ℚ) ≤ (m' : ℚ) := by exact_mod_cast h52
            refine le_trans habs ?_
            generalize (2 : ℚ) ^ e' = u at *
            generalize (2 : ℚ) ^ (-1075 : ℤ) = τ at *
            nlinarith
          · have e75 : (2 : ℚ) ^ e' / 2 = (2 : ℚ) ^ (-1075 : ℤ) := by
              have e1 : (-1075 : ℤ) = e' + -1 := by omega
              have e2 : (2 : ℚ) ^ (-1 : ℤ) = 1 / 2 := by norm_num
              rw [e1, zp_add, e2]; ring
            rw [e75] at habs
            have : (0 : ℚ) ≤ (m' : ℚ) * (2 : ℚ) ^ e' / 2 ^ 53 := by positivity
            linarith
        by_cases hm'0 : m' = 0
        · subst hm'0
          have e1 : round32 s (num 0 e') (den e') = .fin s 0 (-1074) := by simp [round32, num]
          rw [e1, toI64_zero] at h
          injection h with h'
          left; subst h'
          rw [hx]
          simp only [Int.cast_zero, zero_sub, abs_neg, abs_sgn_mul, abs_of_pos hρpos]
          simp only [Nat.cast_zero, zero_mul, zero_div, zero_add, zero_sub, abs_neg] at hyP
          have hτ := tau_small
          obtain ⟨c1, c2⟩ := abs_le.mp hPρ
          have hP0 := abs_nonneg ((mx : ℚ) * (2 : ℚ) ^ ex * ((mm : ℚ) * (2 : ℚ) ^ me))
          rw [abs_of_pos (mul_pos hX hVpos)] at hyP
          generalize (2 : ℚ) ^ (-1075 : ℤ) = τ at *
          linarith
        · have hy := num_den_val m' e'
          have hypos : (0 : ℚ) < (m' : ℚ) * (2 : ℚ) ^ e' := by
            have : (0 : ℚ) < (m' : ℚ) := by exact_mod_cast (Nat.pos_of_ne_zero hm'0)
            have := zp_pos e'
            positivity
          have ha : 0 < num m' e' := by
            rcases Nat.eq_zero_or_pos (num m' e') with h0 | h0
            · rw [h0] at hy; simp at hy
              rcases hy with h' | h'
              · exact absurd h' hm'0
              · exact absurd h' (ne_of_gt (zp_pos e'))
            · exact h0
          rcases round32_grid s (num m' e') (den e') ha (den_pos e') with ⟨hi, _⟩ | ⟨m2, e2, q, t, g1, g2, hq, ht, hnorm, hzy⟩
          · rw [hi] at h; simp [toI64, isFinite] at h
          · rw [g1] at h
            rw [hy] at hzy
            have hr : r = sInt s (if e2 ≥ 0 then m2 * 2 ^ e2.toNat else m2 / 2 ^ (-e2).toNat) := by
              unfold toI64 at h
              split at h
              · injection h with h'; rw [← h']; rfl
              · cases h
            obtain ⟨k1, k2⟩ := truncNat_floor m2 e2
            rw [g2] at k1 k2
            rw [hx, hr, sInt_cast, ← mul_sub, abs_sgn_mul, abs_sgn_mul, abs_of_pos hρpos]
            exact from32_arith _ q t _ _ _ hq ht hnorm k1 k2 hzy hyP hPρ

/-- **the domain of f64.From on a float32 contains every product up to 2^62** -/
theorem f64_from32_defined (m : ℤ) (hm : Mult m) (s : Bool) (mx : ℕ) (ex : ℤ)
    (hb : (mx : ℚ) * (2 : ℚ) ^ ex * m ≤ 2 ^ 62) : ∃ r, F64.fromFloat32 m (.fin s mx ex) = .ok r := by
  unfold F64.fromFloat32
  obtain ⟨mm, me, hmf, hmm0, hV⟩ := mult32_val m hm
  simp only []
  rw [hmf]
  have hmq : (0 : ℚ) < (m : ℚ) := by exact_mod_cast hm.pos
  by_cases hmx : mx = 0
  · subst hmx
    have e0 : GoSem.F64.mul (.fin s 0 ex) (.fin false mm me) = .fin s 0 (-1074) := by simp [GoSem.F64.mul]
    have e1 : toF32 (.fin s 0 (-1074)) = .fin s 0 (-1074) := by simp [toF32, round32, num]
    rw [e0, e1, toI64_zero]; exact ⟨0, rfl⟩
  · have hprod : GoSem.F64.mul (.fin s mx ex) (.fin false mm me)
        = ofRat s (num mx ex * num mm me) (den ex * den me) := by
      simp [GoSem.F64.mul, hmx, hmm0]
    rw [hprod]
    have hX : (0 : ℚ) < (mx : ℚ) * (2 : ℚ) ^ ex := by
      have : (0 : ℚ) < (mx : ℚ) := by exact_mod_cast (Nat.pos_of_ne_zero hmx)
      have := zp_pos ex
      positivity
    have hD : 0 < den ex * den me := Nat.mul_pos (den_pos _) (den_pos _)
    have hratio : ((num mx ex * num mm me : ℕ) : ℚ) / ((den ex * den me : ℕ) : ℚ)
        = (mx : ℚ) * (2 : ℚ) ^ ex * ((mm : ℚ) * (2 : ℚ) ^ me) := by
      push_cast
      rw [mul_div_mul_comm, num_den_val, num_den_val]
    obtain ⟨v1, v2⟩ := abs_le.mp hV
    have hVpos : (0 : ℚ) < (mm : ℚ) * (2 : ℚ) ^ me := by
      have : (m : ℚ) * (15 / 2 ^ 29) ≤ (m : ℚ) / 2 := by
        rw [div_eq_mul_one_div (m : ℚ) 2]
        exact mul_le_mul_of_nonneg_left (by norm_num) (le_of_lt hmq)
      linarith
    have hA : 0 < num mx ex * num mm me := by
      rcases Nat.eq_zero_or_pos (num mx ex * num mm me) with h0 | h0
      · rw [h0, Nat.cast_zero, zero_div] at hratio
        have := mul_pos hX hVpos
        linarith
      · exact h0
    -- P ≤ ρ·(1 + c) ≤ 2^62·(1 + c)
    have hP : (mx : ℚ) * (2 : ℚ) ^ ex * ((mm : ℚ) * (2 : ℚ) ^ me) ≤ 2 ^ 62 * (1 + 15 / 2 ^ 29) := by
      have h1 : (mx : ℚ) * (2 : ℚ) ^ ex * ((mm : ℚ) * (2 : ℚ) ^ me)
          ≤ (mx : ℚ) * (2 : ℚ) ^ ex * ((m : ℚ) * (1 + 15 / 2 ^ 29)) :=
        mul_le_mul_of_nonneg_left (by linarith) (le_of_lt hX)
      have h2 : (mx : ℚ) * (2 : ℚ) ^ ex * ((m : ℚ) * (1 + 15 / 2 ^ 29))
          = (mx : ℚ) * (2 : ℚ) ^ ex * m * (1 + 15 / 2 ^ 29) := by ring
      have h3 : (mx : ℚ) * (2 : ℚ) ^ ex * m * (1 + 15 / 2 ^ 29) ≤ 2 ^ 62 * (1 + 15 / 2 ^ 29) :=
        mul_le_mul_of_nonneg_right hb (by norm_num)
      linarith
    have finish : ∀ (m2 : ℕ) (e2 : ℤ), (m2 : ℚ) * (2 : ℚ) ^ e2 < 2 ^ 63 → ∃ r, toI64 (.fin s m2 e2) = .ok r := by
      intro m2 e2 hz
      obtain ⟨k1, _⟩ := truncNat_floor m2 e2
      refine ⟨sInt s (if e2 ≥ 0 then m2 * 2 ^ e2.toNat else m2 / 2 ^ (-e2).toNat), ?_⟩
      have htr : truncInt (.fin s m2 e2) = sInt s (if e2 ≥ 0 then m2 * 2 ^ e2.toNat else m2 / 2 ^ (-e2).toNat) := rfl
      have hk : (if e2 ≥ 0 then m2 * 2 ^ e2.toNat else m2 / 2 ^ (-e2).toNat) < 2 ^ 63 := by
        have : (((if e2 ≥ 0 then m2 * 2 ^ e2.toNat else m2 / 2 ^ (-e2).toNat : ℕ)) : ℚ) < ((2 ^ 63 : ℕ) : ℚ) :=
          lt_of_le_of_lt k1 (by rw [Nat.cast_pow]; exact_mod_cast hz)
        exact_mod_cast this
      unfold toI64
      rw [htr]
      generalize (if e2 ≥ 0 then m2 * 2 ^ e2.toNat else m2 / 2 ^ (-e2).toNat) = k at hk ⊢
      have h1 : -(2 ^ 63 : ℤ) ≤ sInt s k := by unfold sInt; split <;> omega
      have h2 : sInt s k < (2 ^ 63 : ℤ) := by unfold sInt; split <;> omega
      simp only [isFinite, Bool.true_and, Bool.and_eq_true, decide_eq_true_eq]
      rw [if_pos ⟨h1, h2⟩]
    unfold ofRat
    rcases roundRatN_val s _ _ hA hD with ⟨_, hbig⟩ | ⟨m', e', hf, _, _, hn, habs, _⟩
    · exfalso
      rw [hratio] at hbig
      have : (2 : ℚ) ^ (64 : ℕ) < (2 : ℚ) ^ (1023 : ℤ) := by
        exact_mod_cast (zp_lt_iff.mpr (show (64 : ℤ) < 1023 by norm_num))
      generalize (2 : ℚ) ^ (1023 : ℤ) = c at *
      norm_num at hP this
      linarith
    · rw [hratio] at habs
      rw [hf]
      simp only [toF32]
      have hu := zp_pos e'
      have hy0 : (0 : ℚ) ≤ (m' : ℚ) * (2 : ℚ) ^ e' := mul_nonneg (Nat.cast_nonneg _) (le_of_lt hu)
      -- y ≤ P·(1 + 2^-52) + 1
      have hyle : (m' : ℚ) * (2 : ℚ) ^ e' ≤ 2 ^ 62 * (1 + 15 / 2 ^ 29) * (1 + 1 / 2 ^ 51) + 1 := by
        obtain ⟨b1, b2⟩ := abs_le.mp habs
        rcases hn with h52 | h52
        · have h1 : (4503599627370496 : ℚ) ≤ (m' : ℚ) := by exact_mod_cast h52
          generalize (2 : ℚ) ^ e' = u at *
          nlinarith
        · have : (2 : ℚ) ^ e' ≤ 1 := by
            rw [h52]; have := zp_le (show (-1074 : ℤ) ≤ 0 by norm_num); simpa using this
          nlinarith
      by_cases hm'0 : m' = 0
      · subst hm'0
        have e1 : round32 s (num 0 e') (den e') = .fin s 0 (-1074) := by simp [round32, num]
        rw [e1, toI64_zero]; exact ⟨0, rfl⟩
      · have hy := num_den_val m' e'
        have ha : 0 < num m' e' := by
          rcases Nat.eq_zero_or_pos (num m' e') with h0 | h0
          · rw [h0] at hy; simp at hy
            rcases hy with h' | h'
            · exact absurd h' hm'0
            · exact absurd h' (ne_of_gt (zp_pos e'))
          · exact h0
        rcases round32_grid s (num m' e') (den e') ha (den_pos e') with ⟨_, hbig⟩ | ⟨m2, e2, q, t, g1, g2, hq, ht, hnorm, hzy⟩
        · exfalso
          rw [hy] at hbig
          have : (2 : ℚ) ^ (64 : ℕ) < (2 : ℚ) ^ (127 : ℤ) := by
            exact_mod_cast (zp_lt_iff.mpr (show (64 : ℤ) < 127 by norm_num))
          generalize (2 : ℚ) ^ (127 : ℤ) = c at *
          norm_num at hyle this
          linarith
        · rw [g1]
          apply finish
          rw [g2]
          rw [hy] at hzy
          obtain ⟨a1, a2⟩ := abs_le.mp hzy
          have hg := zp_pos t
          -- half a grid unit is at most z/2^24 (normal) or tiny (t = -149)
          rcases hnorm with h23 | h149
          · have h1 : (8388608 : ℚ) ≤ (q : ℚ) := by exact_mod_cast h23
            generalize (2 : ℚ) ^ t = g at *
            generalize (m' : ℚ) * (2 : ℚ) ^ e' = y at *
            norm_num at hyle ⊢
            nlinarith
          · have : (2 : ℚ) ^ t ≤ 1 := by
              rw [h149]; have := zp_le (show (-149 : ℤ) ≤ 0 by norm_num); simpa using this
            generalize (2 : ℚ) ^ t = g at *
            generalize (m' : ℚ) * (2 : ℚ) ^ e' = y at *
            norm_num at hyle ⊢
            linarith

end Fixed.FloatLemmas
