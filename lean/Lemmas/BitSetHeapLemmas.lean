import Model.BitSetHeap
import Lemmas.BitSetHist
/-! C08: the heap model (`Model/BitSetHeap.lean`) keeps the storage of the two bit sets and of the caller's slices
    separate after every history, and therefore computes exactly what the value model computes. -/
namespace BS

/-! ### memory -/

theorem arrAt_append_lt (m : Mem) (v : List W) (a : Nat) (h : a < m.length) : arrAt (m ++ [v]) a = arrAt m a := by
  unfold arrAt
  rw [List.getD_eq_getElem?_getD, List.getD_eq_getElem?_getD, List.getElem?_append_left h]

theorem arrAt_append_new (m : Mem) (v : List W) : arrAt (m ++ [v]) m.length = v := by
  unfold arrAt
  rw [List.getD_eq_getElem?_getD, List.getElem?_append_right (Nat.le_refl _)]
  simp

theorem arrAt_set_same (m : Mem) (v : List W) (a : Nat) (h : a < m.length) : arrAt (m.set a v) a = v := by
  unfold arrAt
  rw [List.getD_eq_getElem?_getD, List.getElem?_set]
  simp [h]

theorem arrAt_set_ne (m : Mem) (v : List W) (a a' : Nat) (h : a ≠ a') : arrAt (m.set a v) a' = arrAt m a' := by
  unfold arrAt
  rw [List.getD_eq_getElem?_getD, List.getD_eq_getElem?_getD, List.getElem?_set]
  simp [h]

/-- the slice header points into the memory -/
def ValidP (m : Mem) (p : Option Nat) : Prop := ∀ a, p = some a → a < m.length

/-- what one object-level operation may do: the memory only grows, the new header is valid, arrays other than the
    receiver's keep their content, the new header is the old one, nil, or a FRESH address, and the value is `v` -/
def Step (m : Mem) (o : Obj) (r : Mem × Obj) (v : T) : Prop :=
  m.length ≤ r.1.length ∧ ValidP r.1 r.2.ptr
  ∧ (∀ a, a < m.length → o.ptr ≠ some a → arrAt r.1 a = arrAt m a)
  ∧ (r.2.ptr = o.ptr ∨ r.2.ptr = none ∨ ∃ a, r.2.ptr = some a ∧ m.length ≤ a)
  ∧ viewO r.1 r.2 = v

/-- `f` implements the value-level function `g` locally -/
def Local (f : OOp) (g : T → T) : Prop := ∀ m o, ValidP m o.ptr → Step m o (f m o) (g (viewO m o))

theorem step_same (m : Mem) (o : Obj) (hv : ValidP m o.ptr) : Step m o (m, o) (viewO m o) :=
  ⟨Nat.le_refl _, hv, fun _ _ _ => rfl, Or.inl rfl, rfl⟩

theorem step_nil (m : Mem) (o : Obj) (s : Int) : Step m o (m, { ptr := none, set := s }) { data := [], set := s } :=
  ⟨Nat.le_refl _, fun a h => (by cases h), fun _ _ _ => rfl, Or.inr (Or.inl rfl), rfl⟩

theorem step_fresh (m : Mem) (o : Obj) (v : List W) (s : Int) :
    Step m o ((allocArr m v).1, { ptr := some (allocArr m v).2, set := s }) { data := v, set := s } := by
  refine ⟨by simp [allocArr], ?_, fun a ha _ => arrAt_append_lt m v a ha, Or.inr (Or.inr ⟨m.length, rfl, Nat.le_refl _⟩), ?_⟩
  · intro a h
    have : a = m.length := by simpa [allocArr] using h.symm
    subst this; simp [allocArr]
  · show ({ data := arrAt (m ++ [v]) m.length, set := s } : T) = _
    rw [arrAt_append_new]

theorem step_store (m : Mem) (o : Obj) (v : T) (hv : ValidP m o.ptr) (hlen : v.data.length = (viewO m o).data.length) :
    Step m o (storeO m o v) v := by
  cases hp : o.ptr with
  | none =>
    have : v.data = [] := by
      apply List.eq_nil_of_length_eq_zero
      rw [hlen]; simp [viewO, sliceOf, hp]
    simp only [storeO, hp]
    refine ⟨Nat.le_refl _, fun a h => (by cases h), fun _ _ _ => rfl, Or.inl hp.symm, ?_⟩
    show ({ data := [], set := v.set } : T) = v
    rw [← this]
  | some a =>
    have ha : a < m.length := hv a hp
    simp only [storeO, hp]
    refine ⟨by simp, ?_, ?_, Or.inl hp.symm, ?_⟩
    · intro x hx
      have : x = a := by simpa using hx.symm
      subst this; simpa using ha
    · intro x _ hx
      exact arrAt_set_ne m _ a x (fun e => hx (by rw [← e]; exact hp))
    · show ({ data := arrAt (m.set a v.data) a, set := v.set } : T) = v
      rw [arrAt_set_same m _ a ha]

theorem step_seq (m : Mem) (o : Obj) (r1 r2 : Mem × Obj) (v1 v2 : T)
    (h1 : Step m o r1 v1) (h2 : Step r1.1 r1.2 r2 v2) : Step m o r2 v2 := by
  obtain ⟨l1, _, f1, p1, _⟩ := h1
  obtain ⟨l2, va2, f2, p2, w2⟩ := h2
  refine ⟨Nat.le_trans l1 l2, va2, ?_, ?_, w2⟩
  · intro a ha hne
    rw [f2 a (by omega) ?_, f1 a ha hne]
    rcases p1 with e | e | ⟨x, e, hx⟩
    · rw [e]; exact hne
    · rw [e]; intro h; cases h
    · rw [e]; intro h
      have : x = a := by simpa using h
      omega
  · rcases p2 with e | e | ⟨x, e, hx⟩
    · rw [e]
      rcases p1 with e1 | e1 | ⟨y, e1, hy⟩
      · exact Or.inl e1
      · exact Or.inr (Or.inl e1)
      · exact Or.inr (Or.inr ⟨y, e1, hy⟩)
    · exact Or.inr (Or.inl e)
    · exact Or.inr (Or.inr ⟨x, e, by omega⟩)

/-- changing only the cached count of the result -/
theorem step_setcount (m : Mem) (o : Obj) (r : Mem × Obj) (v : T) (s : Int) (h : Step m o r v) :
    Step m o (r.1, { ptr := r.2.ptr, set := s }) { data := v.data, set := s } := by
  obtain ⟨l, va, f, p, w⟩ := h
  refine ⟨l, va, f, p, ?_⟩
  show ({ data := sliceOf r.1 r.2.ptr, set := s } : T) = _
  rw [← w]; rfl

theorem local_seq {f f' : OOp} {g g' : T → T} (h : Local f g) (h' : Local f' g') : Local (seqO f f') (fun b => g' (g b)) := by
  intro m o hv
  have s1 := h m o hv
  have s2 := h' (f m o).1 (f m o).2 s1.2.1
  rw [s1.2.2.2.2] at s2
  exact step_seq m o _ _ _ _ s1 s2

theorem local_inPlace {f : T → T} (hlen : ∀ b, (f b).data.length = b.data.length) : Local (inPlaceO f) f := by
  intro m o hv
  exact step_store m o _ hv (hlen _)

theorem local_ensure (words : Nat) : Local (ensureO words) (fun b => ensureCapacity b words) := by
  intro m o hv
  unfold ensureO
  split
  · rename_i h
    have := step_fresh m o (ensureCapacity (viewO m o) words).data o.set
    have e : ({ data := (ensureCapacity (viewO m o) words).data, set := o.set } : T) = ensureCapacity (viewO m o) words := by
      have := ensure_set (viewO m o) words
      cases hh : ensureCapacity (viewO m o) words with
      | mk d s => rw [hh] at this; simp only at this ⊢; rw [this]; rfl
    rw [e] at this; exact this
  · rename_i h
    have e : ensureCapacity (viewO m o) words = viewO m o := by unfold ensureCapacity; simp only [h, if_false]
    show Step m o (m, o) (ensureCapacity (viewO m o) words)
    rw [e]; exact step_same m o hv

theorem local_trim : Local trimO trim := by
  intro m o hv
  unfold trimO trim
  simp only
  generalize trimLoop (viewO m o).data (viewO m o).data.length = res
  cases res with
  | none => exact step_nil m o o.set
  | some i =>
    simp only
    split
    · exact step_fresh m o _ o.set
    · exact step_same m o hv

theorem local_reset : Local resetO reset := by
  intro m o _
  exact step_nil m o 0

theorem local_copy (src : T) : Local (copyO src) (fun b => copy b src) := by
  intro m o _
  exact step_fresh m o src.data src.set

theorem local_load (ws : List W) : Local (loadO ws) (fun b => load b ws) := by
  intro m o _
  have s1 := step_fresh m o ws o.set
  have s2 := local_trim (allocArr m ws).1 { ptr := some (allocArr m ws).2, set := o.set } s1.2.1
  rw [s1.2.2.2.2] at s2
  have s3 := step_seq m o _ _ _ _ s1 s2
  have s4 := step_setcount m o _ _
    (loadLoop ws 0 (sliceOf (trimO (allocArr m ws).1 { ptr := some (allocArr m ws).2, set := o.set }).1
      (trimO (allocArr m ws).1 { ptr := some (allocArr m ws).2, set := o.set }).2.ptr).length) s3
  have e : sliceOf (trimO (allocArr m ws).1 { ptr := some (allocArr m ws).2, set := o.set }).1
      (trimO (allocArr m ws).1 { ptr := some (allocArr m ws).2, set := o.set }).2.ptr
      = (trim { data := ws, set := o.set }).data := congrArg T.data s3.2.2.2.2
  unfold loadO load
  simp only
  rw [e] at s4 ⊢
  exact s4

/-! ### the in-place parts keep the length of the slice -/

theorem rangeLoop_length (whole : W → Int → W × Int) (act : W → Int → Nat → W × Int) (i1 i2 lb : Nat) (n : Nat) :
    ∀ (d : List W) (s : Int) (i j : Nat), (rangeLoop whole act i1 i2 lb d s i j n).1.length = d.length := by
  induction n with
  | zero => intro d s i j; rfl
  | succ n ih =>
    intro d s i j
    simp only [rangeLoop]
    split <;> (rw [ih]; simp)

theorem runRange_length (whole : W → Int → W × Int) (act : W → Int → Nat → W × Int) (b : T) (s e i1 i2 : Nat) :
    (runRange whole act b s e i1 i2).data.length = b.data.length := by
  unfold runRange; exact rangeLoop_length _ _ _ _ _ _ _ _ _ _

theorem setBitIP_length (b : T) (i : Nat) : (setBitIP b i).data.length = b.data.length := by
  unfold setBitIP; simp only; split <;> simp
theorem flipBitIP_length (b : T) (i : Nat) : (flipBitIP b i).data.length = b.data.length := by
  unfold flipBitIP; simp
theorem clearBit_length (b : T) (i : Nat) : (clearBit b i).data.length = b.data.length := by
  unfold clearBit; simp only; split
  · split <;> simp
  · rfl
theorem clearRange_length (b : T) (s e : Nat) : (clearRange b s e).data.length = b.data.length := by
  unfold clearRange; simp only
  generalize (if s > e then (e, s) else (s, e)) = se
  split
  · rfl
  · exact runRange_length _ _ _ _ _ _ _

theorem setBit_split (b : T) (i : Nat) : setBit b i = setBitIP (ensureCapacity b (wordIdx i + 1)) i := rfl
theorem flipBit_split (b : T) (i : Nat) : flipBit b i = flipBitIP (ensureCapacity b (wordIdx i + 1)) i := rfl
theorem setRange_split (b : T) (s e : Nat) : setRange b s e = setRangeIP (ensureCapacity b (rangeWords s e)) s e := rfl
theorem flipRange_split (b : T) (s e : Nat) : flipRange b s e = flipRangeIP (ensureCapacity b (rangeWords s e)) s e := rfl

theorem local_setBit (i : Nat) : Local (setBitO i) (fun b => setBit b i) :=
  local_seq (local_ensure _) (local_inPlace (fun b => setBitIP_length b i))
theorem local_flipBit (i : Nat) : Local (flipBitO i) (fun b => flipBit b i) :=
  local_seq (local_ensure _) (local_inPlace (fun b => flipBitIP_length b i))
theorem local_clearBit (i : Nat) : Local (clearBitO i) (fun b => clearBit b i) :=
  local_inPlace (fun b => clearBit_length b i)
theorem local_setRange (s e : Nat) : Local (setRangeO s e) (fun b => setRange b s e) :=
  local_seq (local_ensure _) (local_inPlace (fun b => runRange_length _ _ b _ _ _ _))
theorem local_flipRange (s e : Nat) : Local (flipRangeO s e) (fun b => flipRange b s e) :=
  local_seq (local_ensure _) (local_inPlace (fun b => runRange_length _ _ b _ _ _ _))
theorem local_clearRange (s e : Nat) : Local (clearRangeO s e) (fun b => clearRange b s e) :=
  local_inPlace (fun b => clearRange_length b s e)

/-! ### two bit sets and the caller's slices -/

/-- the separation invariant: every header points into the memory, the two bit sets do not share an array, and the
    caller's slices are none of theirs -/
structure Sep (h : Heap) : Prop where
  vo : ∀ r, ValidP h.mem (h.obj r).ptr
  ve : ∀ a, a ∈ h.ext → a < h.mem.length
  ne : ∀ r r' x, r ≠ r' → (h.obj r).ptr = some x → (h.obj r').ptr ≠ some x
  eo : ∀ r a, a ∈ h.ext → (h.obj r).ptr ≠ some a

theorem obj_setObj (h : Heap) (r r' : Reg) (m : Mem) (o : Obj) :
    (h.setObj r m o).obj r' = if r' = r then o else h.obj r' := by
  cases r <;> cases r' <;> simp [Heap.setObj, Heap.obj]
theorem mem_setObj (h : Heap) (r : Reg) (m : Mem) (o : Obj) : (h.setObj r m o).mem = m := by
  cases r <;> rfl
theorem ext_setObj (h : Heap) (r : Reg) (m : Mem) (o : Obj) : (h.setObj r m o).ext = h.ext := by
  cases r <;> rfl

theorem view_frame (m m' : Mem) (o : Obj) (hv : ValidP m o.ptr) (hf : ∀ a, o.ptr = some a → arrAt m' a = arrAt m a) :
    viewO m' o = viewO m o := by
  unfold viewO sliceOf
  cases hp : o.ptr with
  | none => rfl
  | some a => simp only; rw [hf a hp]

/-- a local operation on register `r` of a separated heap: `r` gets the value-level result, the other register and
    the caller's slices keep their content, the heap stays separated -/
theorem updH_spec {f : OOp} {g : T → T} (hl : Local f g) (h : Heap) (hs : Sep h) (r : Reg) :
    (updH h r f).view r = g (h.view r)
    ∧ (∀ r', r' ≠ r → (updH h r f).view r' = h.view r')
    ∧ Sep (updH h r f)
    ∧ (updH h r f).ext = h.ext
    ∧ (∀ a, a ∈ h.ext → arrAt (updH h r f).mem a = arrAt h.mem a)
    ∧ h.mem.length ≤ (updH h r f).mem.length := by
  obtain ⟨l, va, fr, pt, vw⟩ := hl h.mem (h.obj r) (hs.vo r)
  have hmem : (updH h r f).mem = (f h.mem (h.obj r)).1 := mem_setObj _ _ _ _
  have hext : (updH h r f).ext = h.ext := ext_setObj _ _ _ _
  have hobj : ∀ r', (updH h r f).obj r' = if r' = r then (f h.mem (h.obj r)).2 else h.obj r' := fun r' => obj_setObj _ _ _ _ _
  -- arrays of the other register are untouched
  have hother : ∀ r', r' ≠ r → ∀ a, (h.obj r').ptr = some a → arrAt (f h.mem (h.obj r)).1 a = arrAt h.mem a := by
    intro r' hne a ha
    exact fr a (hs.vo r' a ha) (fun e => hs.ne r r' a (fun e' => hne e'.symm) e ha)
  refine ⟨?_, ?_, ?_, hext, ?_, by rw [hmem]; exact l⟩
  · unfold Heap.view; rw [hmem, hobj]; simp only [if_true]; exact vw
  · intro r' hne
    unfold Heap.view; rw [hmem, hobj]; simp only [hne, if_false]
    exact view_frame _ _ _ (hs.vo r') (hother r' hne)
  · refine ⟨?_, ?_, ?_, ?_⟩
    · intro r'
      rw [hmem, hobj]
      by_cases e : r' = r
      · simp only [e, if_true]; exact va
      · simp only [e, if_false]
        intro a ha; exact Nat.lt_of_lt_of_le (hs.vo r' a ha) l
    · intro a ha
      rw [hmem]; rw [hext] at ha
      exact Nat.lt_of_lt_of_le (hs.ve a ha) l
    · -- the new header of `r` is the old one, nil or fresh: never the other register's array
      have key : ∀ r', r' ≠ r → ∀ x, (f h.mem (h.obj r)).2.ptr = some x → (h.obj r').ptr ≠ some x := by
        intro r' hne x hx hx'
        rcases pt with e | e | ⟨y, e, hy⟩
        · rw [e] at hx; exact hs.ne r r' x (fun e' => hne e'.symm) hx hx'
        · rw [e] at hx; cases hx
        · rw [e] at hx
          have : y = x := by simpa using hx
          have := hs.vo r' x hx'
          omega
      intro r1 r2 x hne h1 h2
      rw [hobj] at h1 h2
      by_cases e1 : r1 = r
      · have e2 : r2 ≠ r := fun e => hne (e1.trans e.symm)
        simp only [e1, if_true] at h1; simp only [e2, if_false] at h2
        exact key r2 e2 x h1 h2
      · simp only [e1, if_false] at h1
        by_cases e2 : r2 = r
        · simp only [e2, if_true] at h2
          exact key r1 e1 x h2 h1
        · simp only [e2, if_false] at h2
          exact hs.ne r1 r2 x hne h1 h2
    · intro r' a ha
      rw [hext] at ha
      rw [hobj]
      by_cases e : r' = r
      · simp only [e, if_true]
        intro hx
        rcases pt with e' | e' | ⟨y, e', hy⟩
        · rw [e'] at hx; exact hs.eo r a ha hx
        · rw [e'] at hx; cases hx
        · rw [e'] at hx
          have : y = a := by simpa using hx
          have := hs.ve a ha
          omega
      · simp only [e, if_false]; exact hs.eo r' a ha
  · intro a ha
    rw [hmem]
    exact fr a (hs.ve a ha) (hs.eo r a ha)

/-- the caller (or `Data`) allocates a slice: nothing else changes -/
theorem pushExt_spec (h : Heap) (hs : Sep h) (v : List W) :
    (∀ r, (pushExt h v).view r = h.view r) ∧ Sep (pushExt h v)
    ∧ (pushExt h v).ext = h.ext ++ [h.mem.length]
    ∧ arrAt (pushExt h v).mem (pushExt h v).lastExt = v
    ∧ (∀ a, a ∈ h.ext → arrAt (pushExt h v).mem a = arrAt h.mem a) := by
  have hobj : ∀ r, (pushExt h v).obj r = h.obj r := fun r => by cases r <;> rfl
  refine ⟨?_, ?_, rfl, ?_, ?_⟩
  · intro r
    unfold Heap.view; rw [hobj]
    exact view_frame _ _ _ (hs.vo r) (fun a ha => arrAt_append_lt _ _ _ (hs.vo r a ha))
  · refine ⟨?_, ?_, ?_, ?_⟩
    · intro r a ha; rw [hobj] at ha
      have := hs.vo r a ha
      show a < (h.mem ++ [v]).length
      simp; omega
    · intro a ha
      show a < (h.mem ++ [v]).length
      have : a ∈ h.ext ++ [h.mem.length] := ha
      rcases List.mem_append.mp this with h1 | h1
      · have := hs.ve a h1; simp; omega
      · have : a = h.mem.length := by simpa using h1
        simp; omega
    · intro r r' x hne h1 h2; rw [hobj] at h1 h2; exact hs.ne r r' x hne h1 h2
    · intro r a ha hx
      rw [hobj] at hx
      have : a ∈ h.ext ++ [h.mem.length] := ha
      rcases List.mem_append.mp this with h1 | h1
      · exact hs.eo r a h1 hx
      · have : a = h.mem.length := by simpa using h1
        have := hs.vo r a hx
        omega
  · show arrAt (h.mem ++ [v]) ((h.ext ++ [h.mem.length]).getLastD 0) = v
    rw [List.getLastD_concat]; exact arrAt_append_new _ _
  · intro a ha
    exact arrAt_append_lt _ _ _ (hs.ve a ha)

/-- the caller's slices of `h` are still held, with the same content, in `h'` -/
def ExtStable (h h' : Heap) : Prop := (∃ l, h'.ext = h.ext ++ l) ∧ ∀ a, a ∈ h.ext → arrAt h'.mem a = arrAt h.mem a

theorem extStable_trans (h1 h2 h3 : Heap) (a : ExtStable h1 h2) (b : ExtStable h2 h3) : ExtStable h1 h3 := by
  obtain ⟨⟨l1, e1⟩, c1⟩ := a
  obtain ⟨⟨l2, e2⟩, c2⟩ := b
  refine ⟨⟨l1 ++ l2, by rw [e2, e1, List.append_assoc]⟩, fun x hx => ?_⟩
  rw [c2 x (by rw [e1]; exact List.mem_append_left _ hx), c1 x hx]

theorem denote_get (h : Heap) (r : Reg) : h.denote.get r = h.view r := by cases r <;> rfl

theorem pair_ext (p q : Pair) (h : ∀ r, p.get r = q.get r) : p = q := by
  cases p; cases q
  have ha := h .A; have hb := h .B
  simp only [Pair.get] at ha hb
  rw [ha, hb]

/-- a local operation on `r` is the value-level `put` -/
theorem updH_denote {f : OOp} {g : T → T} (hl : Local f g) (h : Heap) (hs : Sep h) (r : Reg) :
    (updH h r f).denote = h.denote.put r (g (h.denote.get r)) ∧ Sep (updH h r f) ∧ ExtStable h (updH h r f) := by
  obtain ⟨h1, h2, h3, h4, h5, _⟩ := updH_spec hl h hs r
  refine ⟨pair_ext _ _ (fun r' => ?_), h3, ⟨[], by rw [h4]; simp⟩, h5⟩
  rw [denote_get, get_put, denote_get]
  by_cases e : r' = r
  · subst e; simp only [if_true]; exact h1
  · simp only [e, if_false]; rw [denote_get]; exact h2 r' e

theorem pushExt_denote (h : Heap) (hs : Sep h) (v : List W) :
    (pushExt h v).denote = h.denote ∧ Sep (pushExt h v) ∧ ExtStable h (pushExt h v) := by
  obtain ⟨h1, h2, h3, _, h5⟩ := pushExt_spec h hs v
  exact ⟨pair_ext _ _ (fun r => by rw [denote_get, denote_get]; exact h1 r), h2, ⟨[h.mem.length], h3⟩, h5⟩

/-- **one call on a separated heap**: the heap model computes what the value model computes, stays separated, and
    leaves every slice the caller holds alone -/
theorem applyOpH_spec (h : Heap) (hs : Sep h) (op : Op) :
    (applyOpH h op).denote = applyOp h.denote op ∧ Sep (applyOpH h op) ∧ ExtStable h (applyOpH h op) := by
  cases op with
  | set r i => exact updH_denote (local_setBit i) h hs r
  | clear r i => exact updH_denote (local_clearBit i) h hs r
  | flip r i => exact updH_denote (local_flipBit i) h hs r
  | setRange r s e => exact updH_denote (local_setRange s e) h hs r
  | clearRange r s e => exact updH_denote (local_clearRange s e) h hs r
  | flipRange r s e => exact updH_denote (local_flipRange s e) h hs r
  | copy r q =>
    obtain ⟨d, s, e⟩ := updH_denote (local_copy (h.view q)) h hs r
    refine ⟨?_, s, e⟩
    show (updH h r (copyO (h.view q))).denote = h.denote.put r (copy (h.denote.get r) (h.denote.get q))
    rw [d, denote_get h q]
  | clone r q =>
    obtain ⟨d, s, e⟩ := updH_denote (local_copy (h.view q)) h hs r
    refine ⟨?_, s, e⟩
    show (updH h r (copyO (h.view q))).denote = h.denote.put r (clone (h.denote.get q))
    rw [d, denote_get h q]; rfl
  | trim r => exact updH_denote local_trim h hs r
  | ensure r n => exact updH_denote (local_ensure n) h hs r
  | reset r => exact updH_denote local_reset h hs r
  | load r ws =>
    obtain ⟨d1, s1, e1⟩ := pushExt_denote h hs ws
    have hl := (pushExt_spec h hs ws).2.2.2.1
    obtain ⟨d2, s2, e2⟩ := updH_denote (local_load (arrAt (pushExt h ws).mem (pushExt h ws).lastExt)) (pushExt h ws) s1 r
    refine ⟨?_, s2, extStable_trans _ _ _ e1 e2⟩
    show (updH (pushExt h ws) r (loadO (arrAt (pushExt h ws).mem (pushExt h ws).lastExt))).denote = _
    rw [d2, d1, hl]; rfl
  | data r =>
    obtain ⟨d1, s1, e1⟩ := updH_denote local_trim h hs r
    obtain ⟨d2, s2, e2⟩ := pushExt_denote (updH h r trimO) s1 ((updH h r trimO).view r).data
    refine ⟨?_, s2, extStable_trans _ _ _ e1 e2⟩
    show (pushExt (updH h r trimO) ((updH h r trimO).view r).data).denote = _
    rw [d2, d1]; rfl
  | loadData r q =>
    obtain ⟨d1, s1, e1⟩ := updH_denote local_trim h hs q
    obtain ⟨d2, s2, e2⟩ := pushExt_denote (updH h q trimO) s1 ((updH h q trimO).view q).data
    have hl := (pushExt_spec (updH h q trimO) s1 ((updH h q trimO).view q).data).2.2.2.1
    generalize hh2 : pushExt (updH h q trimO) ((updH h q trimO).view q).data = h2 at d2 s2 e2 hl
    obtain ⟨d3, s3, e3⟩ := updH_denote (local_load (arrAt h2.mem h2.lastExt)) h2 s2 r
    refine ⟨?_, by
      show Sep (updH (pushExt (updH h q trimO) ((updH h q trimO).view q).data) r _)
      rw [hh2]; exact s3, by
      show ExtStable h (updH (pushExt (updH h q trimO) ((updH h q trimO).view q).data) r _)
      rw [hh2]; exact extStable_trans _ _ _ (extStable_trans _ _ _ e1 e2) e3⟩
    show (updH (pushExt (updH h q trimO) ((updH h q trimO).view q).data) r _).denote = _
    rw [hh2, d3, d2, hl, d1]
    have hv : (updH h q trimO).view q = trim (h.denote.get q) := by
      rw [← denote_get, d1, get_put]; simp
    rw [hv]
    rfl

/-- the caller scribbles on a slice it holds: neither bit set notices -/
theorem scribbleH_spec (h : Heap) (hs : Sep h) (a : Nat) (ha : a ∈ h.ext) :
    (scribbleH h a).denote = h.denote ∧ Sep (scribbleH h a) ∧ (scribbleH h a).ext = h.ext := by
  have hobj : ∀ r, (scribbleH h a).obj r = h.obj r := fun r => by cases r <;> rfl
  refine ⟨pair_ext _ _ (fun r => ?_), ⟨?_, ?_, ?_, ?_⟩, rfl⟩
  · rw [denote_get, denote_get]
    unfold Heap.view; rw [hobj]
    exact view_frame _ _ _ (hs.vo r) (fun x hx => arrAt_set_ne _ _ a x (fun e => hs.eo r a ha (by rw [e]; exact hx)))
  · intro r x hx; rw [hobj] at hx
    show x < (h.mem.set a _).length
    simpa using hs.vo r x hx
  · intro x hx
    show x < (h.mem.set a _).length
    simpa using hs.ve x hx
  · intro r r' x hne h1 h2; rw [hobj] at h1 h2; exact hs.ne r r' x hne h1 h2
  · intro r x hx; rw [hobj]; exact hs.eo r x hx

theorem sep_init : Sep {} :=
  ⟨fun r a h => (by cases r <;> cases h), fun a h => (by cases h), fun r r' x _ h => (by cases r <;> cases h),
   fun r a h => (by cases h)⟩

theorem applyEv_spec (h : Heap) (hs : Sep h) (ev : Ev) :
    (applyEv h ev).denote = (match ev with | .op o => applyOp h.denote o | .scribble _ => h.denote) ∧ Sep (applyEv h ev) := by
  cases ev with
  | op o => exact ⟨(applyOpH_spec h hs o).1, (applyOpH_spec h hs o).2.1⟩
  | scribble k =>
    simp only [applyEv]
    split
    · rename_i hk
      have hmem : h.ext.getD k 0 ∈ h.ext := by
        rw [List.getD_eq_getElem?_getD, List.getElem?_eq_getElem hk]; simp
      exact ⟨(scribbleH_spec h hs _ hmem).1, (scribbleH_spec h hs _ hmem).2.1⟩
    · exact ⟨rfl, hs⟩

theorem foldl_heap (evs : List Ev) : ∀ h : Heap, Sep h →
    Sep (evs.foldl applyEv h) ∧ (evs.foldl applyEv h).denote = (opsOf evs).foldl applyOp h.denote := by
  induction evs with
  | nil => intro h hs; exact ⟨hs, rfl⟩
  | cons ev evs ih =>
    intro h hs
    obtain ⟨d, s⟩ := applyEv_spec h hs ev
    obtain ⟨s2, d2⟩ := ih _ s
    refine ⟨s2, ?_⟩
    simp only [List.foldl_cons]
    rw [d2, d]
    cases ev <;> rfl

/-- the registers a call may change -/
def opWrites : Op → List Reg
  | .set r _ | .clear r _ | .flip r _ | .setRange r _ _ | .clearRange r _ _ | .flipRange r _ _ | .load r _
  | .copy r _ | .clone r _ | .trim r | .ensure r _ | .reset r | .data r => [r]
  | .loadData r q => [r, q]

theorem applyOp_get_other (p : Pair) (op : Op) (r' : Reg) (h : r' ∉ opWrites op) : (applyOp p op).get r' = p.get r' := by
  cases op <;> simp only [opWrites, List.mem_cons, List.mem_singleton, List.not_mem_nil, or_false, not_or] at h <;>
    simp only [applyOp, get_put, h, if_false]
  all_goals simp [get_put, h]

end BS
