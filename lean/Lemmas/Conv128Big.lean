import Lemmas.Conv128
/-! C02 helper lemmas, part 2: `FromBigInt` / `AsBigInt` (core Lean only). -/
namespace Conv
open GoSem

theorem xor_max (b : Nat) (h : b < 2^128) : b ^^^ maxBigUint128 = 2^128 - 1 - b := by
  have h1 : (BitVec.ofNat 128 b ^^^ BitVec.allOnes 128).toNat = b ^^^ (2^128 - 1) := by
    rw [BitVec.toNat_xor, BitVec.toNat_ofNat, BitVec.toNat_allOnes, Nat.mod_eq_of_lt h]
  show b ^^^ (2^128 - 1) = _
  rw [← h1, BitVec.xor_allOnes, BitVec.toNat_not, BitVec.toNat_ofNat, Nat.mod_eq_of_lt h]

theorem U128.asBigInt_eq (u : U128) : u.asBigInt = (u.toNat : Int) := rfl

theorem I128.asBigInt_eq (i : I128) : i.asBigInt = i.toInt := by
  have hh := i.hi.isLt; have hl := i.lo.isLt
  unfold I128.asBigInt I128.isUint128 I128.toInt
  rw [and_signBit]
  simp only []
  by_cases hs : i.hi.toNat < 2^63
  · rw [decide_eq_true hs, if_pos hs]; simp
  · rw [decide_eq_false hs, if_neg hs]
    simp only [Bool.not_false, if_true]
    rw [xor_max _ (by omega)]
    omega

/-- the word import: exact below 2^128, all ones above -/
theorem wordsToU128_toNat (n : Nat) : (wordsToU128 n).toNat = if n < 2^128 then n else 2^128 - 1 := by
  unfold wordsToU128 wordCount
  by_cases h0 : n = 0
  · subst h0; decide
  · rw [if_neg h0]
    by_cases h1 : n < 2^64
    · rw [if_pos h1]
      simp only [U128.toNat, BitVec.toNat_ofNat]
      rw [if_pos (by omega)]
      omega
    · rw [if_neg h1]
      by_cases h2 : n < 2^128
      · rw [if_pos h2, if_pos h2]
        simp only [U128.toNat, BitVec.toNat_ofNat]
        omega
      · rw [if_neg h2, if_neg h2]
        show U128.max.toNat = 2^128 - 1
        decide

/-- `Uint128FromBigInt`: exact in range, nearest bound otherwise -/
theorem U128.fromBigInt_spec (z : Int) :
    ((U128.fromBigInt z).toNat : Int) = if z < 0 then 0 else if z < 2^128 then z else 2^128 - 1 := by
  unfold U128.fromBigInt
  by_cases hz : z < 0
  · rw [if_pos hz, if_pos hz]; decide
  · rw [if_neg hz, if_neg hz, wordsToU128_toNat]
    by_cases h : z < 2^128
    · rw [if_pos h, if_pos (by omega)]; omega
    · rw [if_neg h, if_neg (by omega)]; omega

theorem U128.lessThan_iff (u n : U128) : u.lessThan n = decide (u.toNat < n.toNat) := by
  have := u.hi.isLt; have := u.lo.isLt; have := n.hi.isLt; have := n.lo.isLt
  unfold U128.lessThan U128.toNat
  have e1 : decide (u.hi < n.hi) = decide (u.hi.toNat < n.hi.toNat) := by simp [BitVec.lt_def]
  have e2 : decide (u.lo < n.lo) = decide (u.lo.toNat < n.lo.toNat) := by simp [BitVec.lt_def]
  have e3 : (u.hi == n.hi) = decide (u.hi.toNat = n.hi.toNat) := by
    by_cases h : u.hi = n.hi
    · rw [h]; simp
    · have : u.hi.toNat ≠ n.hi.toNat := fun e => h (BitVec.eq_of_toNat_eq e)
      simp [h, this]
  rw [e1, e2, e3]
  by_cases a : u.hi.toNat < n.hi.toNat <;> by_cases b : u.hi.toNat = n.hi.toNat <;>
    by_cases c : u.lo.toNat < n.lo.toNat <;> simp [a, b, c] <;> omega

theorem maxInt128AsUint128_toNat : maxInt128AsUint128.toNat = 2^127 - 1 := by decide
theorem minInt128AsAbsUint128_toNat : minInt128AsAbsUint128.toNat = 2^127 := by decide
theorem I128.max_toInt : I128.max.toInt = 2^127 - 1 := by decide

theorem U128.asInt128_toInt_of_lt (u : U128) (h : u.toNat < 2^127) : u.asInt128.toInt = (u.toNat : Int) := by
  have := u.hi.isLt; have := u.lo.isLt
  unfold U128.toNat at h
  unfold U128.asInt128 I128.toInt U128.toNat
  rw [if_pos (by simp only []; omega)]

/-- `Int128FromBigInt`: exact in range, nearest bound otherwise -/
theorem I128.fromBigInt_spec (z : Int) :
    (I128.fromBigInt z).toInt = if z < -(2^127) then -(2^127) else if z < 2^127 then z else 2^127 - 1 := by
  unfold I128.fromBigInt
  simp only []
  have hw := wordsToU128_toNat z.natAbs
  rw [U128.lessThan_iff, U128.lessThan_iff, maxInt128AsUint128_toNat, minInt128AsAbsUint128_toNat]
  generalize wordsToU128 z.natAbs = w at *
  by_cases hz : z ≥ 0
  · rw [if_pos hz]
    by_cases hlt : w.toNat < 2^127 - 1
    · rw [decide_eq_true hlt, if_pos rfl, U128.asInt128_toInt_of_lt _ (by omega)]
      split at hw <;> (rw [if_neg (by omega)]; split <;> omega)
    · rw [decide_eq_false hlt, if_neg (by simp), I128.max_toInt]
      split at hw <;> (rw [if_neg (by omega)]; split <;> omega)
  · rw [if_neg hz]
    by_cases hlt : w.toNat < 2^127
    · rw [decide_eq_true hlt, if_pos rfl]
      have hv := U128.asInt128_toInt_of_lt w hlt
      rw [I128.neg_toInt _ (by omega), hv]
      split at hw <;> (split <;> omega)
    · rw [decide_eq_false hlt, if_neg (by simp), I128.min_toInt]
      split at hw <;> (split <;> omega)

theorem U128.fromBigInt_asBigInt (u : U128) : U128.fromBigInt u.asBigInt = u := by
  apply U128.eq_of_toNat_eq
  have h := U128.fromBigInt_spec u.asBigInt
  have := u.toNat_lt
  rw [U128.asBigInt_eq] at h ⊢
  rw [if_neg (by omega), if_pos (by omega)] at h
  omega

theorem I128.fromBigInt_asBigInt (i : I128) : I128.fromBigInt i.asBigInt = i := by
  apply I128.eq_of_toInt_eq
  have h := I128.fromBigInt_spec i.asBigInt
  have := i.toInt_lo; have := i.toInt_hi
  rw [I128.asBigInt_eq] at h ⊢
  rw [if_neg (by omega), if_pos (by omega)] at h
  exact h

end Conv
