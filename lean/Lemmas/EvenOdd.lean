import Model.EvenOdd
import Mathlib.Data.Rat.Defs
import Mathlib.Data.Rat.Cast.Order
import Mathlib.Algebra.Order.Field.Rat
import Mathlib.Algebra.Order.Field.Basic
import Mathlib.Tactic.Linarith
import Mathlib.Tactic.Push
import Mathlib.Tactic.NormNum
import Mathlib.Tactic.Ring

/-! C05 helper lemmas.  `EOQ` is the even-odd rule over ℚ with the crossing test written with the division, as
    `Contour.Contains` writes it; the lemmas tie the executable division-free `EO` definitions (on `Int` coordinates
    after scaling to a common denominator) to it, and prove that on rectilinear lattice polygons `inside` is constant
    on every open unit cell. -/

namespace EOQ

structure QPt where
  x : ℚ
  y : ℚ

abbrev QContour := List QPt
abbrev QPolygon := List QContour

/-- does the rightward ray from `p` cross the edge `a → b` (the usual even-odd crossing test) -/
def crosses (a b p : QPt) : Prop :=
  a.y ≠ b.y ∧ min a.y b.y ≤ p.y ∧ p.y < max a.y b.y ∧
    p.x < a.x + (p.y - a.y) * (b.x - a.x) / (b.y - a.y)

instance (a b p : QPt) : Decidable (crosses a b p) := by unfold crosses; infer_instance

def crossCount (P : QPolygon) (p : QPt) : Nat :=
  (EO.allEdges P).countP (fun e => decide (crosses e.1 e.2 p))

/-- even-odd rule -/
def inside (P : QPolygon) (p : QPt) : Prop := crossCount P p % 2 = 1

instance (P : QPolygon) (p : QPt) : Decidable (inside P p) := by unfold inside; infer_instance

/-- the pointwise Boolean combinations -/
def holds : EO.Op → Prop → Prop → Prop
  | .union, a, b => a ∨ b
  | .inter, a, b => a ∧ b
  | .sub, a, b => a ∧ ¬ b
  | .xor, a, b => ¬ (a ↔ b)

def toQ (p : EO.Pt) : QPt := ⟨p.x, p.y⟩
def polyQ (P : EO.Polygon) : QPolygon := P.map (fun c => c.map toQ)
def scale (s : ℚ) (p : QPt) : QPt := ⟨s * p.x, s * p.y⟩
def scalePoly (s : ℚ) (P : QPolygon) : QPolygon := P.map (fun c => c.map (scale s))

/-! ### division-free form of the crossing test -/

theorem crosses_iff (a b p : QPt) :
    crosses a b p ↔
      (a.y < b.y ∧ a.y ≤ p.y ∧ p.y < b.y ∧ (p.x - a.x) * (b.y - a.y) < (p.y - a.y) * (b.x - a.x)) ∨
      (b.y < a.y ∧ b.y ≤ p.y ∧ p.y < a.y ∧ (p.y - a.y) * (b.x - a.x) < (p.x - a.x) * (b.y - a.y)) := by
  unfold crosses
  rcases lt_trichotomy a.y b.y with h | h | h
  · have hd : 0 < b.y - a.y := by linarith
    have e : p.x < a.x + (p.y - a.y) * (b.x - a.x) / (b.y - a.y) ↔
        (p.x - a.x) * (b.y - a.y) < (p.y - a.y) * (b.x - a.x) := by
      rw [← sub_lt_iff_lt_add', lt_div_iff₀ hd]
    rw [min_eq_left h.le, max_eq_right h.le, e]
    constructor
    · rintro ⟨_, h1, h2, h3⟩; exact Or.inl ⟨h, h1, h2, h3⟩
    · rintro (⟨_, h1, h2, h3⟩ | ⟨h', _⟩)
      · exact ⟨ne_of_lt h, h1, h2, h3⟩
      · exact absurd h' (not_lt.mpr h.le)
  · simp [h]
  · have hd : b.y - a.y < 0 := by linarith
    have e : p.x < a.x + (p.y - a.y) * (b.x - a.x) / (b.y - a.y) ↔
        (p.y - a.y) * (b.x - a.x) < (p.x - a.x) * (b.y - a.y) := by
      rw [← sub_lt_iff_lt_add', lt_div_iff_of_neg hd]
    rw [min_eq_right h.le, max_eq_left h.le, e]
    constructor
    · rintro ⟨_, h1, h2, h3⟩; exact Or.inr ⟨h, h1, h2, h3⟩
    · rintro (⟨h', _⟩ | ⟨_, h1, h2, h3⟩)
      · exact absurd h' (not_lt.mpr h.le)
      · exact ⟨ne_of_gt h, h1, h2, h3⟩

/-- the executable test on `Int` coordinates is the ℚ test -/
theorem crosses_toQ (a b p : EO.Pt) : EO.crosses a b p = true ↔ crosses (toQ a) (toQ b) (toQ p) := by
  rw [crosses_iff]
  unfold EO.crosses toQ
  simp only
  have c1 : (a.y < b.y) ↔ ((a.y : ℚ) < b.y) := by exact_mod_cast Iff.rfl
  have c2 : (b.y < a.y) ↔ ((b.y : ℚ) < a.y) := by exact_mod_cast Iff.rfl
  have c3 : (a.y ≤ p.y) ↔ ((a.y : ℚ) ≤ p.y) := by exact_mod_cast Iff.rfl
  have c4 : (p.y < b.y) ↔ ((p.y : ℚ) < b.y) := by exact_mod_cast Iff.rfl
  have c5 : (b.y ≤ p.y) ↔ ((b.y : ℚ) ≤ p.y) := by exact_mod_cast Iff.rfl
  have c6 : (p.y < a.y) ↔ ((p.y : ℚ) < a.y) := by exact_mod_cast Iff.rfl
  have c7 : ((p.x - a.x) * (b.y - a.y) < (p.y - a.y) * (b.x - a.x)) ↔
      (((p.x : ℚ) - a.x) * ((b.y : ℚ) - a.y) < ((p.y : ℚ) - a.y) * ((b.x : ℚ) - a.x)) := by exact_mod_cast Iff.rfl
  have c8 : ((p.y - a.y) * (b.x - a.x) < (p.x - a.x) * (b.y - a.y)) ↔
      (((p.y : ℚ) - a.y) * ((b.x : ℚ) - a.x) < ((p.x : ℚ) - a.x) * ((b.y : ℚ) - a.y)) := by exact_mod_cast Iff.rfl
  rw [← c1, ← c2, ← c3, ← c4, ← c5, ← c6, ← c7, ← c8]
  by_cases h1 : a.y < b.y
  · have h2 : ¬ b.y < a.y := by omega
    simp [h1, h2]
  · by_cases h2 : b.y < a.y
    · simp [h1, h2]
    · simp [h1, h2]

/-- the crossing test is invariant under uniform positive scaling -/
theorem crosses_scale (s : ℚ) (hs : 0 < s) (a b p : QPt) :
    crosses (scale s a) (scale s b) (scale s p) ↔ crosses a b p := by
  rw [crosses_iff, crosses_iff]
  unfold scale
  simp only
  have hss : 0 < s * s := mul_pos hs hs
  have e1 : (s * p.x - s * a.x) * (s * b.y - s * a.y) = s * s * ((p.x - a.x) * (b.y - a.y)) := by ring
  have e2 : (s * p.y - s * a.y) * (s * b.x - s * a.x) = s * s * ((p.y - a.y) * (b.x - a.x)) := by ring
  rw [e1, e2, mul_lt_mul_iff_right₀ hs, mul_lt_mul_iff_right₀ hs, mul_lt_mul_iff_right₀ hs,
    mul_lt_mul_iff_right₀ hs, mul_le_mul_iff_right₀ hs, mul_le_mul_iff_right₀ hs,
    mul_lt_mul_iff_right₀ hss, mul_lt_mul_iff_right₀ hss]

/-! ### edges under a map of the vertices -/

theorem pairs_map {α β : Type} (f : α → β) (l : List α) (v : α) :
    EO.pairs (l.map f) (f v) = (EO.pairs l v).map (Prod.map f f) := by
  induction l with
  | nil => simp [EO.pairs]
  | cons a t ih =>
    cases t with
    | nil => simp [EO.pairs]
    | cons b t' =>
      simp only [List.map_cons, EO.pairs] at ih ⊢
      rw [ih]; rfl

theorem edgesOf_map {α β : Type} (f : α → β) (c : List α) :
    EO.edgesOf (c.map f) = (EO.edgesOf c).map (Prod.map f f) := by
  cases c with
  | nil => simp [EO.edgesOf]
  | cons v t =>
    simp only [List.map_cons, EO.edgesOf]
    exact pairs_map f (v :: t) v

theorem allEdges_map {α β : Type} (f : α → β) (P : List (List α)) :
    EO.allEdges (P.map (fun c => c.map f)) = (EO.allEdges P).map (Prod.map f f) := by
  unfold EO.allEdges
  induction P with
  | nil => simp
  | cons c P ih => simp only [List.map_cons, List.flatMap_cons, List.map_append, ih, edgesOf_map]

theorem crossCount_toQ (P : EO.Polygon) (p : EO.Pt) : crossCount (polyQ P) (toQ p) = EO.crossCount P p := by
  unfold crossCount EO.crossCount polyQ
  rw [allEdges_map, List.countP_map]
  apply List.countP_congr
  intro e _
  simp only [Function.comp, Prod.map, decide_eq_true_eq]
  exact (crosses_toQ e.1 e.2 p).symm

/-- the executable `inside` on `Int` coordinates is the ℚ-level even-odd rule -/
theorem inside_toQ (P : EO.Polygon) (p : EO.Pt) : EO.inside P p = true ↔ inside (polyQ P) (toQ p) := by
  unfold inside EO.inside
  rw [crossCount_toQ]; simp

theorem crossCount_scale (s : ℚ) (hs : 0 < s) (P : QPolygon) (p : QPt) :
    crossCount (scalePoly s P) (scale s p) = crossCount P p := by
  unfold crossCount scalePoly
  rw [allEdges_map, List.countP_map]
  apply List.countP_congr
  intro e _
  simp only [Function.comp, Prod.map, decide_eq_true_eq]
  exact crosses_scale s hs e.1 e.2 p

/-- the even-odd rule is invariant under uniform positive scaling (this is what allows the driver to bring all
    numbers of a call to a common denominator) -/
theorem inside_scale (s : ℚ) (hs : 0 < s) (P : QPolygon) (p : QPt) :
    inside (scalePoly s P) (scale s p) ↔ inside P p := by
  unfold inside; rw [crossCount_scale s hs]

/-! ### rectilinear lattice polygons: `inside` is constant on every open unit cell -/

/-- an edge of a rectilinear lattice polygon: integer end points, horizontal or vertical -/
structure LatticeEdge (a b : QPt) : Prop where
  ax : ∃ n : ℤ, a.x = n
  ay : ∃ n : ℤ, a.y = n
  bx : ∃ n : ℤ, b.x = n
  by_ : ∃ n : ℤ, b.y = n
  rect : a.x = b.x ∨ a.y = b.y

/-- the open unit cell `(i,i+1)×(j,j+1)` -/
def InCell (i j : ℤ) (p : QPt) : Prop := (i : ℚ) < p.x ∧ p.x < i + 1 ∧ (j : ℚ) < p.y ∧ p.y < j + 1
def centre (i j : ℤ) : QPt := ⟨i + 1/2, j + 1/2⟩

theorem centre_inCell (i j : ℤ) : InCell i j (centre i j) := by
  unfold InCell centre; norm_num

theorem int_le_iff (n j : ℤ) (q : ℚ) (h1 : (j : ℚ) < q) (h2 : q < j + 1) : (n : ℚ) ≤ q ↔ n ≤ j := by
  constructor
  · intro h
    have : (n : ℚ) < (j : ℚ) + 1 := lt_of_le_of_lt h h2
    have : (n : ℚ) < ((j + 1 : ℤ) : ℚ) := by push_cast; exact this
    have := Int.cast_lt.mp this
    omega
  · intro h
    have : (n : ℚ) ≤ (j : ℚ) := Int.cast_le.mpr h
    linarith

theorem lt_int_iff (n j : ℤ) (q : ℚ) (h1 : (j : ℚ) < q) (h2 : q < j + 1) : q < (n : ℚ) ↔ j + 1 ≤ n := by
  constructor
  · intro h
    have : (j : ℚ) < (n : ℚ) := lt_trans h1 h
    have := Int.cast_lt.mp this
    omega
  · intro h
    have : ((j + 1 : ℤ) : ℚ) ≤ (n : ℚ) := Int.cast_le.mpr h
    push_cast at this
    linarith

/-- the crossing test of a lattice edge gives the same answer at every point of an open cell -/
theorem crosses_const (a b p q : QPt) (i j : ℤ) (he : LatticeEdge a b) (hp : InCell i j p) (hq : InCell i j q) :
    crosses a b p ↔ crosses a b q := by
  obtain ⟨⟨ax, hax⟩, ⟨ay, hay⟩, ⟨bx, hbx⟩, ⟨by_, hby⟩, hr⟩ := he
  unfold crosses
  by_cases hh : a.y = b.y
  · simp [hh]
  · have hv : a.x = b.x := hr.resolve_right hh
    have hx : ∀ y : ℚ, a.x + (y - a.y) * (b.x - a.x) / (b.y - a.y) = a.x := by
      intro y; rw [hv]; simp
    simp only [hx, ne_eq, hh, not_false_eq_true, true_and]
    obtain ⟨p1, p2, p3, p4⟩ := hp
    obtain ⟨q1, q2, q3, q4⟩ := hq
    have hmin : ∃ n : ℤ, min a.y b.y = n := by
      rcases le_total a.y b.y with h | h
      · exact ⟨ay, by rw [min_eq_left h, hay]⟩
      · exact ⟨by_, by rw [min_eq_right h, hby]⟩
    have hmax : ∃ n : ℤ, max a.y b.y = n := by
      rcases le_total a.y b.y with h | h
      · exact ⟨by_, by rw [max_eq_right h, hby]⟩
      · exact ⟨ay, by rw [max_eq_left h, hay]⟩
    obtain ⟨lo, hlo⟩ := hmin
    obtain ⟨hi, hhi⟩ := hmax
    rw [hlo, hhi, hax]
    rw [int_le_iff lo j p.y p3 p4, int_le_iff lo j q.y q3 q4, lt_int_iff hi j p.y p3 p4, lt_int_iff hi j q.y q3 q4,
      lt_int_iff ax i p.x p1 p2, lt_int_iff ax i q.x q1 q2]

def LatticeRectilinear (P : QPolygon) : Prop := ∀ e ∈ EO.allEdges P, LatticeEdge e.1 e.2

/-- on a rectilinear lattice polygon the even-odd test is constant on every open unit cell -/
theorem inside_const (P : QPolygon) (hP : LatticeRectilinear P) (i j : ℤ) (p : QPt) (hp : InCell i j p) :
    inside P p ↔ inside P (centre i j) := by
  unfold inside crossCount
  have : (EO.allEdges P).countP (fun e => decide (crosses e.1 e.2 p)) =
         (EO.allEdges P).countP (fun e => decide (crosses e.1 e.2 (centre i j))) := by
    apply List.countP_congr
    intro e he
    have := crosses_const e.1 e.2 p (centre i j) i j (hP e he) hp (centre_inCell i j)
    simp [this]
  rw [this]

/-- **completeness of the cell check** (one cell): if the Boolean law holds at the centre of a cell, it holds at
    every point of the open cell -/
theorem lattice_cell_complete (A B R : QPolygon) (hA : LatticeRectilinear A) (hB : LatticeRectilinear B)
    (hR : LatticeRectilinear R) (op : Prop → Prop → Prop) (i j : ℤ)
    (hcheck : inside R (centre i j) ↔ op (inside A (centre i j)) (inside B (centre i j))) :
    ∀ p : QPt, InCell i j p → (inside R p ↔ op (inside A p) (inside B p)) := by
  intro p hp
  rw [inside_const R hR i j p hp, hcheck]
  have ea := inside_const A hA i j p hp
  have eb := inside_const B hB i j p hp
  rw [propext ea, propext eb]

/-! ### from the executable checks to the ℚ-level hypotheses -/

theorem latticeOK_rectilinear (N : Nat) (P : EO.Polygon) (h : EO.latticeOK N P = true) :
    LatticeRectilinear (polyQ P) := by
  unfold EO.latticeOK at h
  rw [Bool.and_eq_true] at h
  have h2 := h.2
  rw [List.all_eq_true] at h2
  intro e he
  unfold polyQ at he
  rw [allEdges_map, List.mem_map] at he
  obtain ⟨⟨a, b⟩, hab, rfl⟩ := he
  have hr := h2 (a, b) hab
  unfold EO.rectEdge at hr
  simp only [Bool.or_eq_true, beq_iff_eq] at hr
  refine ⟨⟨a.x, rfl⟩, ⟨a.y, rfl⟩, ⟨b.x, rfl⟩, ⟨b.y, rfl⟩, ?_⟩
  rcases hr with hr | hr
  · left; simp only [Prod.map, toQ]; exact_mod_cast hr
  · right; simp only [Prod.map, toQ]; exact_mod_cast hr

theorem toQ_dbl (v : EO.Pt) : toQ (EO.dbl v) = scale 2 (toQ v) := by
  unfold toQ EO.dbl scale; simp

theorem polyQ_dblPoly (P : EO.Polygon) : polyQ (EO.dblPoly P) = scalePoly 2 (polyQ P) := by
  unfold polyQ EO.dblPoly scalePoly
  simp only [List.map_map]
  apply List.map_congr_left
  intro c _
  simp only [Function.comp, List.map_map]
  apply List.map_congr_left
  intro v _
  exact toQ_dbl v

theorem toQ_centre2 (i j : Nat) : toQ (EO.centre2 i j) = scale 2 (centre i j) := by
  unfold toQ EO.centre2 scale centre
  simp only [QPt.mk.injEq]
  constructor <;> (push_cast; ring)

/-- the executable cell-centre test (doubled coordinates) is the ℚ-level test at the centre of the cell -/
theorem inside_centre (P : EO.Polygon) (i j : Nat) :
    EO.inside (EO.dblPoly P) (EO.centre2 i j) = true ↔ inside (polyQ P) (centre i j) := by
  rw [inside_toQ, polyQ_dblPoly, toQ_centre2, inside_scale 2 (by norm_num)]

theorem apply_iff (op : EO.Op) (a b : Bool) : op.apply a b = true ↔ holds op (a = true) (b = true) := by
  cases op <;> cases a <;> cases b <;> simp [EO.Op.apply, holds]

theorem lawAt_iff (A B R : EO.Polygon) (op : EO.Op) (p : EO.Pt) :
    EO.lawAt A B R op p = true ↔
      (EO.inside R p = true ↔ holds op (EO.inside A p = true) (EO.inside B p = true)) := by
  unfold EO.lawAt
  rw [← apply_iff]
  cases EO.inside R p <;> cases op.apply (EO.inside A p) (EO.inside B p) <;> simp

theorem crosses_straddles (a b p : EO.Pt) (h : EO.crosses a b p = true) : EO.straddles p.y (a, b) = true := by
  unfold EO.crosses at h
  unfold EO.straddles
  split at h
  · simp only [decide_eq_true_eq] at h
    simp [h.1, h.2.1]
  · split at h
    · simp only [decide_eq_true_eq] at h
      simp [h.1, h.2.1]
    · cases h

/-- dropping the edges that do not straddle the ordinate of `p` does not change the even-odd test at `p` -/
theorem insideE_filter (E : List (EO.Pt × EO.Pt)) (p : EO.Pt) :
    EO.insideE (E.filter (EO.straddles p.y)) p = EO.insideE E p := by
  unfold EO.insideE EO.crossCountE
  rw [List.countP_filter]
  have : List.countP (fun e => EO.crosses e.1 e.2 p && EO.straddles p.y e) E =
      List.countP (fun e => EO.crosses e.1 e.2 p) E := by
    apply List.countP_congr
    intro e _
    cases h : EO.crosses e.1 e.2 p
    · simp
    · simp [crosses_straddles e.1 e.2 p h]
  rw [this]

theorem lawAtE_filter (EA EB ER : List (EO.Pt × EO.Pt)) (op : EO.Op) (p : EO.Pt) :
    EO.lawAtE (EA.filter (EO.straddles p.y)) (EB.filter (EO.straddles p.y)) (ER.filter (EO.straddles p.y)) op p =
      EO.lawAtE EA EB ER op p := by
  unfold EO.lawAtE
  rw [insideE_filter, insideE_filter, insideE_filter]

theorem cellsOK_cell (N : Nat) (A2 B2 R2 : EO.Polygon) (op : EO.Op) (h : EO.cellsOK N A2 B2 R2 op = true)
    (i j : Nat) (hi : i < N) (hj : j < N) : EO.lawAt A2 B2 R2 op (EO.centre2 i j) = true := by
  unfold EO.cellsOK at h
  simp only at h
  rw [List.all_eq_true] at h
  have h1 := h j (List.mem_range.mpr hj)
  rw [List.all_eq_true] at h1
  have h2 := h1 i (List.mem_range.mpr hi)
  have hy : (EO.centre2 i j).y = 2 * (j : Int) + 1 := rfl
  rw [← hy, lawAtE_filter, EO.lawAtE_allEdges] at h2
  exact h2

/-! ### translation invariance (lattice calls whose coordinates carry a common offset) -/

def translate (t p : QPt) : QPt := ⟨p.x + t.x, p.y + t.y⟩
def translatePoly (t : QPt) (P : QPolygon) : QPolygon := P.map (fun c => c.map (translate t))

theorem crosses_translate (t a b p : QPt) :
    crosses (translate t a) (translate t b) (translate t p) ↔ crosses a b p := by
  rw [crosses_iff, crosses_iff]
  unfold translate
  simp only
  have e1 : p.x + t.x - (a.x + t.x) = p.x - a.x := by ring
  have e2 : b.y + t.y - (a.y + t.y) = b.y - a.y := by ring
  have e3 : p.y + t.y - (a.y + t.y) = p.y - a.y := by ring
  have e4 : b.x + t.x - (a.x + t.x) = b.x - a.x := by ring
  rw [e1, e2, e3, e4, add_lt_add_iff_right, add_lt_add_iff_right, add_lt_add_iff_right, add_lt_add_iff_right,
    add_le_add_iff_right, add_le_add_iff_right]

/-- the even-odd rule is invariant under translation -/
theorem inside_translate (t : QPt) (P : QPolygon) (p : QPt) :
    inside (translatePoly t P) (translate t p) ↔ inside P p := by
  unfold inside crossCount translatePoly
  rw [allEdges_map, List.countP_map]
  have : List.countP ((fun e : QPt × QPt => decide (crosses e.1 e.2 (translate t p))) ∘ Prod.map (translate t) (translate t))
      (EO.allEdges P) = List.countP (fun e => decide (crosses e.1 e.2 p)) (EO.allEdges P) := by
    apply List.countP_congr
    intro e _
    simp only [Function.comp, Prod.map, decide_eq_true_eq]
    exact crosses_translate t e.1 e.2 p
  rw [this]

end EOQ
