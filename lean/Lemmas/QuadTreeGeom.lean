import Lemmas.GeomRect
import Lemmas.QuadTreeNode
/-! The rectangle laws the quadtree refinement needs, discharged for `geom`'s rectangles from C18's theorems —
    for every linearly ordered commutative ring and every halving function (the laws do not look at the quadrants). -/
set_option linter.unusedSectionVars false
namespace QT
open Geom
variable {α : Type} [CommRing α] [LinearOrder α] [IsStrictOrderedRing α]

theorem geomLaws (half : α → α) : @RectLaws (Rect α) (Point α) (geomOps half) := by
  letI := geomOps half
  refine ⟨?_, ?_, ?_, ?_, ?_, ?_, ?_, ?_, ?_, ?_⟩
  · intro a b p h hp
    show p.inRect a = true
    have h : a.contains b = true := h
    have hp : p.inRect b = true := hp
    rw [Rect.inRect_iff] at *; rw [Rect.contains_iff_Contains] at h
    exact Rect.prune_point a b p h hp
  · intro a b q h hq
    show a.intersects q = true
    have h : a.contains b = true := h
    have hq : b.intersects q = true := hq
    rw [Rect.intersects_iff_Intersects] at *; rw [Rect.contains_iff_Contains] at h
    exact Rect.prune_intersects a b q h hq
  · intro a b q h hq
    show a.intersects q = true
    have h : a.contains b = true := h
    have hq : b.contains q = true := hq
    rw [Rect.intersects_iff_Intersects]; rw [Rect.contains_iff_Contains] at h hq
    exact Rect.prune_containsRect a b q h hq
  · intro a b q h hq
    show a.intersects q = true
    have h : a.contains b = true := h
    have hq : q.contains b = true := hq
    rw [Rect.intersects_iff_Intersects]; rw [Rect.contains_iff_Contains] at h hq
    exact Rect.prune_containedBy a b q h hq
  · intro a b c h1 h2
    show a.contains c = true
    have h1 : a.contains b = true := h1
    have h2 : b.contains c = true := h2
    rw [Rect.contains_iff_Contains] at *
    obtain ⟨a1, a2, a3, a4, a5, a6⟩ := h1
    obtain ⟨b1, b2, b3, b4, b5, b6⟩ := h2
    exact ⟨a1, b2, le_trans a3 b3, le_trans a4 b4, le_trans b5 a5, le_trans b6 a6⟩
  · intro a b h
    show a.empty = false ∧ b.empty = false
    have h : a.contains b = true := h
    rw [Rect.contains_iff_Contains] at h
    rw [Rect.empty_false_iff, Rect.empty_false_iff]
    exact ⟨h.1, h.2.1⟩
  · intro a h
    show a.contains a = true
    have h : a.empty = false := h
    rw [Rect.contains_iff_Contains]; rw [Rect.empty_false_iff] at h
    exact ⟨h, h, le_refl _, le_refl _, le_refl _, le_refl _⟩
  · intro a b h1 h2
    show a.union b = b
    have h1 : a.empty = true := h1
    have h2 : b.empty = false := h2
    rw [Rect.empty_iff] at h1; rw [Rect.empty_false_iff] at h2
    rw [Rect.union_eq, if_neg (fun h => h2 h.2), if_pos h1]
  · intro a b h1 h2
    show (a.union b).contains a = true ∧ (a.union b).contains b = true
    have h1 : a.empty = false := h1
    have h2 : b.empty = false := h2
    rw [Rect.empty_false_iff] at h1 h2
    rw [Rect.contains_iff_Contains, Rect.contains_iff_Contains]
    have hu := Rect.union_not_empty a b h1 h2
    obtain ⟨c1, c2⟩ := Rect.union_covers_edges a b h1 h2
    exact ⟨Rect.Contains_of_covers _ _ hu h1 c1, Rect.Contains_of_covers _ _ hu h2 c2⟩
  · show (Rect.zero : Rect α).empty = true
    rw [Rect.empty_iff]; exact Rect.zero_Empty

/-- the two instances the driver runs -/
instance lawsInt : RectLaws (Rect Int) (Point Int) := geomLaws Geom.halfInt
instance lawsRat : RectLaws (Rect Rat) (Point Rat) := geomLaws Geom.halfRat

end QT
