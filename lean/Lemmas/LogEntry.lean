import Model.LogEntry
import Lemmas.LogHandlers
import Lemmas.LogHandlersErrs
/-! Lemmas for the C13 models of `errs/log.go` (`ELog`) and `errs/recovery.go` (`Rec`).  Core-only. -/

namespace ELog
open TL

theorem splitLF_ne_nil : ∀ b : Bytes, splitLF b ≠ []
  | [] => by simp [splitLF]
  | x :: rest => by
    unfold splitLF
    by_cases hx : x = 10
    · simp [hx]
    · simp only [hx, if_false]
      cases h : splitLF rest <;> simp

/-- no piece of `strings.Split(s, "\n")` contains a line feed -/
theorem splitLF_no_lf : ∀ (b : Bytes) (l : Bytes), l ∈ splitLF b → 10 ∉ l
  | [], l, h => by
    simp [splitLF] at h
    subst h; simp
  | x :: rest, l, h => by
    unfold splitLF at h
    by_cases hx : x = 10
    · simp only [hx, if_true, List.mem_cons] at h
      rcases h with h | h
      · subst h; simp
      · exact splitLF_no_lf rest l h
    · simp only [hx, if_false] at h
      cases hs : splitLF rest with
      | nil => exact absurd hs (splitLF_ne_nil rest)
      | cons l0 ls =>
        rw [hs] at h
        simp only [List.mem_cons] at h
        have ih := splitLF_no_lf rest
        rw [hs] at ih
        rcases h with h | h
        · subst h
          intro hm
          simp only [List.mem_cons] at hm
          rcases hm with hm | hm
          · exact hx hm.symm
          · exact ih l0 (by simp) hm
        · exact ih l (by simp [h])

/-- the line feeds are all that `Split` removes: joining the pieces with line feeds gives the text back -/
def joinLF : List Bytes → Bytes
  | [] => []
  | [l] => l
  | l :: ls => l ++ [10] ++ joinLF ls

theorem joinLF_splitLF : ∀ b : Bytes, joinLF (splitLF b) = b
  | [] => rfl
  | x :: rest => by
    have ih := joinLF_splitLF rest
    unfold splitLF
    by_cases hx : x = 10
    · simp only [hx, if_true]
      cases hs : splitLF rest with
      | nil => exact absurd hs (splitLF_ne_nil rest)
      | cons l0 ls => rw [hs] at ih; simp [joinLF, ih]
    · simp only [hx, if_false]
      cases hs : splitLF rest with
      | nil => exact absurd hs (splitLF_ne_nil rest)
      | cons l0 ls =>
        rw [hs] at ih
        cases ls with
        | nil => simp [joinLF] at ih ⊢; exact ih
        | cons l1 ls => simp [joinLF] at ih ⊢; exact ih

theorem stripOne_suffix (seqs : List Bytes) (l r : Bytes) (h : stripOne seqs l = some r) : r <:+ l := by
  unfold stripOne at h
  obtain ⟨q, _, hq⟩ := List.exists_of_findSome?_eq_some h
  by_cases hp : q.isPrefixOf l = true
  · simp only [hp, if_true, Option.some.injEq] at hq
    subst hq
    exact List.drop_suffix _ _
  · simp [hp] at hq

theorem trimLeftWith_suffix (seqs : List Bytes) : ∀ (n : Nat) (l : Bytes), trimLeftWith seqs n l <:+ l
  | 0, l => List.suffix_refl l
  | n + 1, l => by
    unfold trimLeftWith
    cases h : stripOne seqs l with
    | none => exact List.suffix_refl l
    | some r => exact (trimLeftWith_suffix seqs n r).trans (stripOne_suffix seqs l r h)

/-- `TrimSpace` only removes: every byte of the result is a byte of the argument -/
theorem trimSpace_mem (l : Bytes) (x : Nat) (h : x ∈ trimSpace l) : x ∈ l := by
  unfold trimSpace at h
  simp only [List.mem_reverse] at h
  have h1 := (trimLeftWith_suffix (spaceSeqs.map List.reverse) _ _).subset h
  simp only [List.mem_reverse] at h1
  exact (trimLeftWith_suffix spaceSeqs _ _).subset h1

theorem joinSp_mem : ∀ (ls : List Bytes) (x : Nat), x ∈ joinSp ls → x = 32 ∨ ∃ l ∈ ls, x ∈ l
  | [], x, h => by simp [joinSp] at h
  | [l], x, h => by simp only [joinSp] at h; exact Or.inr ⟨l, by simp, h⟩
  | l :: m :: ls, x, h => by
    simp only [joinSp, List.mem_append, List.mem_singleton] at h
    rcases h with (h | h) | h
    · exact Or.inr ⟨l, by simp, h⟩
    · exact Or.inl h
    · rcases joinSp_mem (m :: ls) x h with h | ⟨l', hl', hx⟩
      · exact Or.inl h
      · exact Or.inr ⟨l', List.mem_cons_of_mem _ hl', hx⟩

/-- what `stackValue.LogValue` prints never contains a line feed, whatever the stack text is -/
theorem logValueText_no_lf (trace : Bytes) : 10 ∉ logValueText trace := by
  intro h
  simp only [logValueText, List.mem_append, List.mem_singleton] at h
  rcases h with (h | h) | h
  · omega
  · rcases joinSp_mem _ _ h with h | ⟨l, hl, hx⟩
    · omega
    · simp only [List.mem_map] at hl
      obtain ⟨l0, hl0, rfl⟩ := hl
      exact splitLF_no_lf trace l0 hl0 (trimSpace_mem l0 10 hx)
  · omega

end ELog

namespace Rec
open Errs

theorem push_get_old (h : Heap) (n : ENode) (i : Nat) (hi : i < h.size) : (h.push n)[i]? = h[i]? := by
  rw [Array.getElem?_push]; simp [Nat.ne_of_lt hi]

/-- the heap after `Recovery`: only fresh cells were added, the invariant holds -/
theorem recovery_heap (g : Bool) (eh : Heap) (hk : HKind) (p? : Option PVal) (hwf : WF eh) :
    WF (recovery g eh hk p?).1 ∧ eh.size ≤ (recovery g eh hk p?).1.size ∧
    ∀ i, i < eh.size → (recovery g eh hk p?).1[i]? = eh[i]? := by
  cases p? with
  | none => exact ⟨hwf, Nat.le_refl _, fun _ _ => rfl⟩
  | some p =>
    cases hk with
    | nil => exact ⟨hwf, Nat.le_refl _, fun _ _ => rfl⟩
    | returns =>
      cases p with
      | err v =>
        simp only [recovery, newWithCause]
        exact ⟨push_wf _ _ hwf rfl, by simp, fun i hi => push_get_old _ _ i hi⟩
      | other t =>
        simp only [recovery, newWithCause, Errs.new]
        refine ⟨push_wf _ _ (push_wf _ _ hwf rfl) rfl, by simp; omega, fun i hi => ?_⟩
        rw [push_get_old _ _ i (by simp; omega), push_get_old _ _ i hi]
    | panics q =>
      cases p with
      | err v =>
        simp only [recovery, newWithCause]
        exact ⟨push_wf _ _ hwf rfl, by simp, fun i hi => push_get_old _ _ i hi⟩
      | other t =>
        simp only [recovery, newWithCause, Errs.new]
        refine ⟨push_wf _ _ (push_wf _ _ hwf rfl) rfl, by simp; omega, fun i hi => ?_⟩
        rw [push_get_old _ _ i (by simp; omega), push_get_old _ _ i hi]

/-- the error the handler receives, for a non-nil handler and a panic in flight: one call, with a fresh `*errs.Error`
    whose message is "recovered from panic" and whose cause is the panic value itself when that is a (non-nil) error,
    and otherwise a fresh `*errs.Error` with the `%+v` text -/
theorem recovery_arg (g : Bool) (eh : Heap) (hk : HKind) (p : PVal) (hh : hk ≠ .nil) :
    ∃ r, (recovery g eh hk (some p)).2.calls = [.ref r] ∧ eh.size ≤ r ∧ r < (recovery g eh hk (some p)).1.size ∧
      msgOf (recovery g eh hk (some p)).1 r = "recovered from panic" ∧
      isEmpty (recovery g eh hk (some p)).1 r = false ∧
      (∀ v, p = .err v → unwrap (recovery g eh hk (some p)).1 (.ref r) = (if isNil v then .nilIface else v)) ∧
      (∀ t, p = .other t → unwrap (recovery g eh hk (some p)).1 (.ref r) = .ref eh.size ∧
        msgOf (recovery g eh hk (some p)).1 eh.size = t) := by
  have key : ∀ (h1 : Heap) (n : ENode), (h1.push n)[h1.size]? = some n := by intro h1 n; simp
  have key2 : ∀ (h1 : Heap) (n m : ENode), ((h1.push n).push m)[h1.size]? = some n := by
    intro h1 n m; rw [push_get_old _ _ _ (by simp)]; exact key h1 n
  have other : ∀ (t : String) (o : Out), o.calls = [.ref (eh.push { msg := t, hasStack := true }).size] →
      ∃ r, o.calls = [.ref r] ∧ eh.size ≤ r ∧
        r < ((eh.push { msg := t, hasStack := true }).push
              { msg := "recovered from panic", hasStack := true, cause := .ref eh.size }).size ∧
        msgOf ((eh.push { msg := t, hasStack := true }).push
              { msg := "recovered from panic", hasStack := true, cause := .ref eh.size }) r = "recovered from panic" ∧
        isEmpty ((eh.push { msg := t, hasStack := true }).push
              { msg := "recovered from panic", hasStack := true, cause := .ref eh.size }) r = false ∧
        (∀ v, PVal.other t = .err v → unwrap ((eh.push { msg := t, hasStack := true }).push
              { msg := "recovered from panic", hasStack := true, cause := .ref eh.size }) (.ref r) =
              (if isNil v then .nilIface else v)) ∧
        (∀ t', PVal.other t = .other t' → unwrap ((eh.push { msg := t, hasStack := true }).push
              { msg := "recovered from panic", hasStack := true, cause := .ref eh.size }) (.ref r) = .ref eh.size ∧
          msgOf ((eh.push { msg := t, hasStack := true }).push
              { msg := "recovered from panic", hasStack := true, cause := .ref eh.size }) eh.size = t') := by
    intro t o ho
    refine ⟨_, ho, by simp, by simp, ?_, ?_, (fun v hv => by cases hv), fun t' ht' => ?_⟩
    · simp only [msgOf, key]
    · simp only [isEmpty, key]; rfl
    · cases ht'
      simp only [msgOf, unwrap, key, key2]
      first | trivial | simp
  cases hk with
  | nil => exact absurd rfl hh
  | returns =>
    cases p with
    | err v =>
      refine ⟨eh.size, ?_⟩
      simp [recovery, newWithCause, msgOf, isEmpty, nodeEmpty, unwrap]
    | other t => exact other t _ rfl
  | panics q =>
    cases p with
    | err v =>
      refine ⟨eh.size, ?_⟩
      simp [recovery, newWithCause, msgOf, isEmpty, nodeEmpty, unwrap]
    | other t => exact other t _ rfl

/-- `h'` extends `h`: well formed, at least as large, every cell of `h` untouched -/
structure Ext (h h' : Heap) : Prop where
  wf : WF h'
  sz : h.size ≤ h'.size
  fr : ∀ i, i < h.size → h'[i]? = h[i]?

theorem Ext.refl {h : Heap} (hwf : WF h) : Ext h h := ⟨hwf, Nat.le_refl _, fun _ _ => rfl⟩

theorem Ext.trans {a b c : Heap} (x : Ext a b) (y : Ext b c) : Ext a c :=
  ⟨y.wf, Nat.le_trans x.sz y.sz, fun i hi => (y.fr i (Nat.lt_of_lt_of_le hi x.sz)).trans (x.fr i hi)⟩

/-- an error value that was valid before reads the same in an extension -/
theorem Ext.argItems {h h' : Heap} (x : Ext h h') (hwf : WF h) (a : Val) (hid : ∀ id, a = .ref id → id < h.size) :
    argItems h' a = argItems h a :=
  argItems_frame h h' hwf x.wf x.sz a
    (fun id e => ⟨hid id e, fun i hi => x.fr i ((hwf.chain_spec (hid id e)).2 i hi).2⟩)

theorem Ext.isEmpty {h h' : Heap} (x : Ext h h') (i : Nat) (hi : i < h.size) : isEmpty h' i = isEmpty h i := by
  unfold Errs.isEmpty; rw [x.fr i hi]

theorem runHandler_ext (eh : Heap) (f : Flow) (hwf : WF eh) : Ext eh (runHandler eh f).1 := by
  cases f with
  | ret v => exact Ext.refl hwf
  | panic p =>
    obtain ⟨a, b, c⟩ := recovery_heap true eh .returns (some p) hwf
    exact ⟨a, b, c⟩

/-- `runHandler` hands back what the child returned, or — when the child panicked — a fresh, non-empty `*errs.Error` -/
theorem runHandler_val (eh : Heap) (f : Flow) :
    (∀ v, f = .ret v → runHandler eh f = (eh, v)) ∧
    (∀ p, f = .panic p → ∃ r, (runHandler eh f).2 = .ref r ∧ eh.size ≤ r ∧ r < (runHandler eh f).1.size ∧
      isEmpty (runHandler eh f).1 r = false ∧ msgOf (runHandler eh f).1 r = "recovered from panic") := by
  refine ⟨fun v hv => by subst hv; rfl, fun p hp => ?_⟩
  subst hp
  obtain ⟨r, h1, h2, h3, h4, h5, _⟩ := recovery_arg true eh .returns p (by intro h; cases h)
  refine ⟨r, ?_, h2, h3, h5, h4⟩
  simp only [runHandler, h1]
  rfl

/-- the deliveries of one record, child after child: the heap only grows, every value that comes back is valid, and
    ALL of them count as "no error" exactly when every child RETURNED (did not panic) a value that counts as no error -/
theorem runAll_spec : ∀ (fl : List Flow) (eh : Heap), WF eh → (∀ id, Flow.ret (.ref id) ∈ fl → id < eh.size) →
    Ext eh (runAll eh fl).1 ∧ (∀ id, Val.ref id ∈ (runAll eh fl).2 → id < (runAll eh fl).1.size) ∧
    ((∀ v ∈ (runAll eh fl).2, argItems (runAll eh fl).1 v = []) ↔
      ∀ f ∈ fl, ∃ v, f = .ret v ∧ argItems eh v = [])
  | [], eh, hwf, _ => by simp [runAll, Ext.refl hwf]
  | f :: fs, eh, hwf, hids => by
    have xa := runHandler_ext eh f hwf
    have hids' : ∀ id, Flow.ret (.ref id) ∈ fs → id < (runHandler eh f).1.size := fun id hm =>
      Nat.lt_of_lt_of_le (hids id (List.mem_cons_of_mem _ hm)) xa.sz
    obtain ⟨xb, hb, hiff⟩ := runAll_spec fs (runHandler eh f).1 xa.wf hids'
    have xab := xa.trans xb
    have hval := runHandler_val eh f
    simp only [runAll]
    refine ⟨xab, ?_, ?_⟩
    · intro id hm
      simp only [List.mem_cons] at hm
      rcases hm with hm | hm
      · cases f with
        | ret v =>
          have := (hval.1 v rfl)
          rw [this] at hm
          simp only at hm
          exact Nat.lt_of_lt_of_le (hids id (by rw [hm]; simp)) xab.sz
        | panic p =>
          obtain ⟨r, h1, _, h3, _⟩ := hval.2 p rfl
          rw [h1] at hm
          cases hm
          exact Nat.lt_of_lt_of_le h3 xb.sz
      · exact hb id hm
    · -- the tail, rebased from the intermediate heap to `eh`
      have htail : (∀ f' ∈ fs, ∃ v, f' = Flow.ret v ∧ argItems (runHandler eh f).1 v = []) ↔
          (∀ f' ∈ fs, ∃ v, f' = Flow.ret v ∧ argItems eh v = []) := by
        constructor
        · intro hh f' hf'
          obtain ⟨v, rfl, hv⟩ := hh f' hf'
          refine ⟨v, rfl, ?_⟩
          rw [← xa.argItems hwf v (fun id e => hids id (by rw [← e]; exact List.mem_cons_of_mem _ hf'))]
          exact hv
        · intro hh f' hf'
          obtain ⟨v, rfl, hv⟩ := hh f' hf'
          refine ⟨v, rfl, ?_⟩
          rw [xa.argItems hwf v (fun id e => hids id (by rw [← e]; exact List.mem_cons_of_mem _ hf'))]
          exact hv
      simp only [List.forall_mem_cons]
      rw [hiff, htail]
      apply and_congr_left'
      cases f with
      | ret v =>
        rw [hval.1 v rfl]
        have hv : ∀ id, v = .ref id → id < eh.size := fun id e => hids id (by rw [e]; simp)
        have : argItems (runAll eh fs).1 v = argItems eh v := by
          have := xab.argItems hwf v hv
          rw [hval.1 v rfl] at this
          exact this
        rw [this]
        constructor
        · intro h; exact ⟨v, rfl, h⟩
        · rintro ⟨v', hv', h⟩; cases hv'; exact h
      | panic p =>
        obtain ⟨r, h1, _, h3, h4, _⟩ := hval.2 p rfl
        rw [h1]
        constructor
        · intro h
          have hne : isEmpty (runAll (runHandler eh (.panic p)).1 fs).1 r = false := by
            rw [xb.isEmpty r h3]; exact h4
          exact absurd h (items_ne_nil xb.wf (Nat.lt_of_lt_of_le h3 xb.sz) hne)
        · rintro ⟨v', hv', _⟩; cases hv'

end Rec
