import Lemmas.Cmdline
/-! CONTRAST variants of the short-option loop: the code before the fixes `multibyte-short` (the option name was assumed
    to be one byte wide: `arg[j+1:]`) is `shortLoopW (fun _ => 1)`; the loop of the current code is `shortLoopW nextLen`. -/
namespace Cmd

/-- `Cmd.shortLoop` with the width of the option name (`next - j`) as a parameter -/
def shortLoopW (w : Str → Nat) (tbl : Table) (acc : Accepts) : Str → PAcc → Option (PAcc × Mode)
  | [], a => some (a, .look)
  | c :: t, a =>
    match tbl (runeKey (c :: t)) with
    | none => none
    | some o =>
      if o.isBool then
        match set acc a o strTrue with
        | none => none
        | some a' => shortLoopW w tbl acc (t.drop ((runeLen (c :: t)).1 - 1)) a'
      else match (c :: t).drop (w (c :: t)) with
        | [] => some (a, .value o)
        | 61 :: v => (set acc a o v).map (fun a' => (a', .look))
        | v => (set acc a o v).map (fun a' => (a', .look))
termination_by s => s.length
decreasing_by simp; omega

/-- with the width of the decoded rune it is the loop the driver runs -/
theorem shortLoopW_nextLen (tbl : Table) (acc : Accepts) (s : Str) (a : PAcc) :
    shortLoopW nextLen tbl acc s a = shortLoop tbl acc s a := by
  fun_induction shortLoop tbl acc s a
  all_goals (try (simp_all [shortLoopW]; done))
  rename_i hx hb h
  rw [shortLoopW, hx]
  simp only [h]
  simp [hb]

/-- a table with the string option `é` (U+00E9, bytes c3 a9), id 3 -/
def exTblE : Table := tableOf [([195, 169], ⟨3, false⟩)]

/-- `-é=v`: the current loop assigns `v` … -/
theorem shortLoop_multibyte_eq :
    shortLoop exTblE (fun _ _ => true) [195, 169, 61, 118] {} = some (⟨[(3, [118])], []⟩, .look) := by
  simp [shortLoop, exTblE, tableOf, runeKey, runeLen, isCont, nextLen, set, List.lookup]

/-- … the one-byte-wide variant assigns the second byte of the name, the `=` and the value -/
theorem shortLoopW_one_multibyte_eq :
    shortLoopW (fun _ => 1) exTblE (fun _ _ => true) [195, 169, 61, 118] {} =
      some (⟨[(3, [169, 61, 118])], []⟩, .look) := by
  simp [shortLoopW, exTblE, tableOf, runeKey, runeLen, isCont, set, List.lookup]

/-- `-é v` (the value in the next argument): the current loop waits for the value, the variant has already assigned the
    continuation byte and is looking for the next option -/
theorem shortLoop_multibyte_sep :
    (shortLoop exTblE (fun _ _ => true) [195, 169] {}).map (fun r => r.1) = some {} ∧
    (shortLoopW (fun _ => 1) exTblE (fun _ _ => true) [195, 169] {}).map (fun r => r.1) = some ⟨[(3, [169])], []⟩ := by
  constructor
  · simp [shortLoop, exTblE, tableOf, runeKey, runeLen, isCont, nextLen, List.lookup]
  · simp [shortLoopW, exTblE, tableOf, runeKey, runeLen, isCont, set, List.lookup]

end Cmd
