import Lemmas.FixedTextFloat
import Model.FixedTextFloat
/-! C04 helper lemmas, part 11: the float branch at the executed instance (`GoSem.F64`, `parseFloatGo`,
    `formatFloatGo`, `quoGo`). -/
namespace FixedText

/-- the reader recovers sign, digits and scale of every text that `Denotes` a decimal number -/
theorem parseDec_of_denotes (t : Str) (neg : Bool) (N k : Nat) (h : Denotes t neg N k) :
    parseDec? t = some (neg, N, k) := by
  obtain ⟨ip, fp, rfl, hne, hip, hfp, rfl, rfl⟩ := h
  obtain ⟨c, r, rfl⟩ := List.exists_cons_of_ne_nil hne
  have hc := isDigit_bounds c (hip c (by simp))
  have hnd : ∀ d ∈ c :: r, d ≠ 46 := fun d hd => by have := isDigit_bounds d (hip d hd); omega
  have hfd : ∀ d ∈ fp, d ≠ 46 := fun d hd => by have := isDigit_bounds d (hfp d hd); omega
  have hall : ((c :: r) ++ fp).all isDigit = true := by
    rw [List.all_eq_true]
    intro d hd
    rcases List.mem_append.mp hd with h | h
    · exact hip d h
    · exact hfp d h
  -- what the reader sees behind the sign
  have key : ∀ body : Str, body = (c :: r) ++ (if fp = [] then [] else 46 :: fp) →
      (splitDot body).1 = c :: r ∧ (match (splitDot body).2 with | some f => f | none => []) = fp := by
    intro body hb
    by_cases hf : fp = []
    · rw [hb, if_pos hf, List.append_nil, splitDot_nodot _ hnd]; simp [hf]
    · rw [hb, if_neg hf, splitDot_dot _ _ hnd]; simp
  cases neg
  · simp only [Bool.false_eq_true, if_false, List.nil_append]
    obtain ⟨k1, k2⟩ := key _ rfl
    unfold parseDec?
    have h45 : c ≠ 45 := by omega
    have h43 : c ≠ 43 := by omega
    have hneg : (match (c :: r ++ if fp = [] then [] else 46 :: fp) with | 45 :: _ => true | _ => false) = false := by
      simp only [List.cons_append]; split
      · rename_i heq; simp at heq; exact absurd heq.1 h45
      · rfl
    have hbody : (match (c :: r ++ if fp = [] then [] else 46 :: fp) with | 45 :: r => r | 43 :: r => r | x => x) =
        (c :: r ++ if fp = [] then [] else 46 :: fp) := by
      simp only [List.cons_append]; split
      · rename_i heq; simp at heq; exact absurd heq.1 h45
      · rename_i heq; simp at heq; exact absurd heq.1 h43
      · rfl
    simp only [hneg, hbody, k1, k2]
    rw [if_neg (by simp [hall])]
  · simp only [if_true, List.append_assoc, List.singleton_append]
    obtain ⟨k1, k2⟩ := key _ rfl
    unfold parseDec?
    simp only [k1, k2]
    rw [if_neg (by simp [hall])]

/-- `N / 10^k` read off `String()`: the digits as one number and the count of fraction digits -/
def decOf (p : Nat) (raw : Int) : Nat × Nat :=
  let fp := if raw.tmod (10^p) = 0 then [] else fracStr p (raw.tmod (10^p)).natAbs
  (parseDigits (natStr (raw.tdiv (10^p)).natAbs ++ fp), fp.length)

/-- it is exactly |raw| / 10^p -/
theorem decOf_value (p : Nat) (raw : Int) :
    (decOf p raw).2 ≤ p ∧ (decOf p raw).1 * 10^(p - (decOf p raw).2) = raw.natAbs := by
  obtain ⟨_, _, _, _, hlen, _, _⟩ := toStr_canonical p raw
  exact ⟨hlen, toStr_value p raw⟩

theorem toStr_denotes_decOf (p : Nat) (raw : Int) :
    Denotes (toStr (10^p) raw) (decide (raw < 0)) (decOf p raw).1 (decOf p raw).2 := by
  obtain ⟨hne, hip, _, hfpd, hlen, _, hfp0⟩ := toStr_canonical p raw
  unfold decOf
  simp only
  generalize hfp : (if raw.tmod (10^p) = 0 then [] else fracStr p (raw.tmod (10^p)).natAbs) = fp at *
  refine ⟨_, fp, ?_, hne, hip, hfpd, rfl, rfl⟩
  rw [toStr_decomp]
  have htl : (if raw.tmod (10^p) = 0 then [] else 46 :: fracStr p (raw.tmod (10^p)).natAbs) =
      (if fp = [] then [] else 46 :: fp) := by
    by_cases h0 : raw.tmod (10^p) = 0
    · rw [if_pos h0, if_pos (hfp0.mpr h0)]
    · rw [if_neg h0, if_neg (fun h => h0 (hfp0.mp h)), ← hfp, if_neg h0]
  rw [htl]
  simp only [decide_eq_true_eq]

/-- `ParseFloat(String())` is the float nearest to the exact value of the number -/
theorem parseFloatGo_toStr (bits p : Nat) (raw : Int) :
    parseFloatGo bits (toStr (10^p) raw) = nearestDec bits (decide (raw < 0)) (decOf p raw).1 (decOf p raw).2 := by
  unfold parseFloatGo
  rw [parseDec_of_denotes _ _ _ _ (toStr_denotes_decOf p raw)]

/-! ### the shortest text reads back as the float, by construction -/
theorem shortestSearch_roundtrip (bits : Nat) (x : Flt) (neg : Bool) (A B : Nat) :
    ∀ fuel nd t, shortestSearch bits x neg A B fuel nd = t → t ≠ [] → parseFloatGo bits t = x := by
  intro fuel
  induction fuel with
  | zero => intro nd t h hne; simp [shortestSearch] at h; exact absurd h.symm hne
  | succ f ih =>
    intro nd t h hne
    unfold shortestSearch at h
    split at h
    · rename_i t' hfind
      subst h
      have := List.find?_some hfind
      simpa using this
    · exact ih (nd + 1) t h hne

/-- bytes of a plain decimal text -/
def DecBytes (t : Str) : Prop := ∀ c ∈ t, isDigit c = true ∨ c = 45 ∨ c = 46

theorem formatFloatGo_roundtrip (bits : Nat) (x : Flt) (t : Str) (h : formatFloatGo bits x = t) (hne : t ≠ [])
    (hb : DecBytes t) : parseFloatGo bits t = x := by
  cases x with
  | nan =>
    simp only [formatFloatGo] at h
    subst h
    have := hb 78 (by simp)
    simp [isDigit] at this
  | inf neg =>
    simp only [formatFloatGo] at h
    subst h
    have := hb 73 (by simp)
    simp [isDigit] at this
  | fin neg m e =>
    simp only [formatFloatGo] at h
    split at h
    · rename_i hm
      split at h
      · rename_i he
        subst hm; subst he
        cases neg <;> simp only [Bool.false_eq_true, if_false, if_true] at h <;> subst h <;>
          simp [parseFloatGo, parseDec?, splitDot, isDigit, parseDigits, nearestDec, Fixed.round32] <;>
          split <;> rfl
      · exact absurd h.symm hne
    · exact shortestSearch_roundtrip bits _ neg _ _ 17 1 t h hne

theorem toStr_decBytes (p : Nat) (raw : Int) : DecBytes (toStr (10^p) raw) := by
  obtain ⟨_, hip, _, hfpd, _, _, _⟩ := toStr_canonical p raw
  intro c hc
  rw [toStr_decomp] at hc
  rcases List.mem_append.mp hc with h | h
  · rcases List.mem_append.mp h with h | h
    · split at h <;> simp at h; exact Or.inr (Or.inl h)
    · exact Or.inl (hip c h)
  · by_cases h0 : raw.tmod (10^p) = 0
    · rw [if_pos h0] at h; simp at h
    · rw [if_neg h0] at h hfpd
      rcases List.mem_cons.mp h with h' | h'
      · exact Or.inr (Or.inr h')
      · exact Or.inl (hfpd c h')

end FixedText
