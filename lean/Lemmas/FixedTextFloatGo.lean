import Lemmas.FixedTextFloat
import Model.FixedTextFloat
/-! C04 helper lemmas, part 11: the float branch at the executed instance (`GoSem.F64`, `parseFloatGo`,
    `formatFloatGo`, `quoGo`). -/
namespace FixedText

theorem parseDecBody_eval (neg : Bool) (ip fp : Str) (hne : ip ≠ []) (hip : ∀ c ∈ ip, isDigit c = true)
    (hfp : ∀ c ∈ fp, isDigit c = true) :
    parseDecBody neg (ip ++ (if fp = [] then [] else 46 :: fp)) = some (neg, parseDigits (ip ++ fp), fp.length) := by
  have hnd : ∀ d ∈ ip, d ≠ 46 := fun d hd => by have := isDigit_bounds d (hip d hd); omega
  have hall : (ip ++ fp).all isDigit = true := by
    rw [List.all_eq_true]
    intro d hd
    rcases List.mem_append.mp hd with h | h
    · exact hip d h
    · exact hfp d h
  have key : (splitDot (ip ++ (if fp = [] then [] else 46 :: fp))).1 = ip ∧
      ((splitDot (ip ++ (if fp = [] then [] else 46 :: fp))).2.getD []) = fp := by
    by_cases hf : fp = []
    · rw [if_pos hf, List.append_nil, splitDot_nodot _ hnd]; simp [hf]
    · rw [if_neg hf, splitDot_dot _ _ hnd]; simp
  unfold parseDecBody
  simp only [key.1, key.2]
  rw [if_neg (by simp [hall, hne])]

/-- the reader recovers sign, digits and scale of every text that `Denotes` a decimal number -/
theorem parseDec_of_denotes (t : Str) (neg : Bool) (N k : Nat) (h : Denotes t neg N k) :
    parseDec? t = some (neg, N, k) := by
  obtain ⟨ip, fp, rfl, hne, hip, hfp, rfl, rfl⟩ := h
  cases neg
  · simp only [Bool.false_eq_true, if_false, List.nil_append]
    rw [← parseDecBody_eval false ip fp hne hip hfp]
    obtain ⟨c, r, rfl⟩ := List.exists_cons_of_ne_nil hne
    have hc := isDigit_bounds c (hip c (by simp))
    unfold parseDec?
    split
    · rename_i heq; simp at heq; omega
    · rename_i heq; simp at heq; omega
    · rfl
  · simp only [if_true, List.append_assoc, List.singleton_append]
    show parseDecBody true (ip ++ (if fp = [] then [] else 46 :: fp)) = _
    exact parseDecBody_eval true ip fp hne hip hfp

/-- `N / 10^k` read off `String()`: the digits as one number and the count of fraction digits -/
def decOf (p : Nat) (raw : Int) : Nat × Nat :=
  let fp := if raw.tmod (10^p) = 0 then [] else fracStr p (raw.tmod (10^p)).natAbs
  (parseDigits (natStr (raw.tdiv (10^p)).natAbs ++ fp), fp.length)

/-- it is exactly |raw| / 10^p -/
theorem decOf_value (p : Nat) (raw : Int) :
    (decOf p raw).2 ≤ p ∧ (decOf p raw).1 * 10^(p - (decOf p raw).2) = raw.natAbs := by
  obtain ⟨_, _, _, _, hlen, _, _⟩ := toStr_canonical p raw
  exact ⟨hlen, toStr_value p raw⟩

theorem toStr_denotes_decOf (p : Nat) (raw : Int) :
    Denotes (toStr (10^p) raw) (decide (raw < 0)) (decOf p raw).1 (decOf p raw).2 := by
  obtain ⟨hne, hip, _, hfpd, hlen, _, hfp0⟩ := toStr_canonical p raw
  unfold decOf
  simp only
  generalize hfp : (if raw.tmod (10^p) = 0 then [] else fracStr p (raw.tmod (10^p)).natAbs) = fp at *
  refine ⟨_, fp, ?_, hne, hip, hfpd, rfl, rfl⟩
  rw [toStr_decomp]
  have htl : (if raw.tmod (10^p) = 0 then [] else 46 :: fracStr p (raw.tmod (10^p)).natAbs) =
      (if fp = [] then [] else 46 :: fp) := by
    by_cases h0 : raw.tmod (10^p) = 0
    · rw [if_pos h0, if_pos (hfp0.mpr h0)]
    · rw [if_neg h0, if_neg (fun h => h0 (hfp0.mp h)), ← hfp, if_neg h0]
  rw [htl]
  simp only [decide_eq_true_eq]

/-- `ParseFloat(String())` is the float nearest to the exact value of the number -/
theorem parseFloatGo_toStr (bits p : Nat) (raw : Int) :
    parseFloatGo bits (toStr (10^p) raw) = nearestDec bits (decide (raw < 0)) (decOf p raw).1 (decOf p raw).2 := by
  unfold parseFloatGo
  rw [parseDec_of_denotes _ _ _ _ (toStr_denotes_decOf p raw)]

/-! ### the shortest text reads back as the float, by construction -/
theorem firstAccepted_ok (cand : Nat → List Str) (ok : Str → Bool) :
    ∀ fuel nd t, firstAccepted cand ok fuel nd = t → t ≠ [] → ok t = true := by
  intro fuel
  induction fuel with
  | zero => intro nd t h hne; rw [firstAccepted] at h; exact absurd h.symm hne
  | succ f ih =>
    intro nd t h hne
    rw [firstAccepted] at h
    split at h
    · rename_i t' hfind
      subst h
      exact List.find?_some hfind
    · exact ih (nd + 1) t h hne

theorem shortestSearch_roundtrip (bits : Nat) (x : Flt) (neg : Bool) (A B : Nat) (fuel nd : Nat) (t : Str)
    (h : shortestSearch bits x neg A B fuel nd = t) (hne : t ≠ []) : parseFloatGo bits t = x := by
  have := firstAccepted_ok _ _ fuel nd t h hne
  simpa using this

/-- bytes of a plain decimal text -/
def DecBytes (t : Str) : Prop := ∀ c ∈ t, isDigit c = true ∨ c = 45 ∨ c = 46

theorem formatFloatGo_roundtrip (bits : Nat) (x : Flt) (t : Str) (h : formatFloatGo bits x = t) (hne : t ≠ [])
    (hb : DecBytes t) : parseFloatGo bits t = x := by
  cases x with
  | nan =>
    simp only [formatFloatGo] at h
    subst h
    have := hb 78 (by simp)
    simp [isDigit] at this
  | inf neg =>
    simp only [formatFloatGo] at h
    subst h
    have := hb 73 (by simp)
    simp [isDigit] at this
  | fin neg m e =>
    simp only [formatFloatGo] at h
    split at h
    · rename_i hm
      split at h
      · rename_i he
        subst hm; subst he
        cases neg <;> simp only [Bool.false_eq_true, if_false, if_true] at h <;> subst h <;>
          simp [parseFloatGo, parseDec?, parseDecBody, splitDot, isDigit, parseDigits, nearestDec, Fixed.round32] <;>
          split <;> rfl
      · exact absurd h.symm hne
    · exact shortestSearch_roundtrip bits _ neg _ _ 17 1 t h hne

theorem toStr_decBytes (p : Nat) (raw : Int) : DecBytes (toStr (10^p) raw) := by
  obtain ⟨_, hip, _, hfpd, _, _, _⟩ := toStr_canonical p raw
  intro c hc
  rw [toStr_decomp] at hc
  rcases List.mem_append.mp hc with h | h
  · rcases List.mem_append.mp h with h | h
    · split at h <;> simp at h; exact Or.inr (Or.inl h)
    · exact Or.inl (hip c h)
  · by_cases h0 : raw.tmod (10^p) = 0
    · rw [if_pos h0] at h; simp at h
    · rw [if_neg h0] at h hfpd
      rcases List.mem_cons.mp h with h' | h'
      · exact Or.inr (Or.inr h')
      · exact Or.inl (hfpd c h')

end FixedText
