import Model.RateLimiterInt
import Lemmas.RateLimiterBounds
/-! The machine-int transcription of the limiter's arithmetic (`Model/RateLimiterInt.lean`) agrees with the model's
    arithmetic on naturals whenever capacities and usages are Go `int`s (≤ `maxInt`) — and the sum form of the test does
    not.  Core Lean. -/
namespace RL

theorem maxInt_val : maxInt = 9223372036854775807 := by decide

theorem wrap64_id (z : Int) (h1 : -9223372036854775808 ≤ z) (h2 : z < 9223372036854775808) : wrap64 z = z := by
  unfold wrap64; omega

/-- `p.capacity - p.used` is exact: both are in `[0, MaxInt]`, the difference in `[-MaxInt, MaxInt]` -/
theorem leftGo_exact (cap used : Nat → Nat) (p : Nat) (hc : cap p ≤ maxInt) (hu : used p ≤ maxInt) :
    leftGo cap used p = (cap p : Int) - (used p : Int) := by
  rw [maxInt_val] at hc hu
  unfold leftGo
  apply wrap64_id <;> omega

theorem foldl_min_ge (f : Nat → Int) (ps : List Nat) (av a : Int) :
    a ≤ ps.foldl (fun av p => if f p < av then f p else av) av ↔ (a ≤ av ∧ ∀ p ∈ ps, a ≤ f p) := by
  induction ps generalizing av with
  | nil => simp
  | cons q qs ih =>
    simp only [List.foldl_cons, List.mem_cons, forall_eq_or_imp]
    rw [ih]
    split
    · rename_i hlt
      constructor
      · rintro ⟨h1, h2⟩; exact ⟨by omega, h1, h2⟩
      · rintro ⟨_, h2, h3⟩; exact ⟨h2, h3⟩
    · rename_i hlt
      constructor
      · rintro ⟨h1, h2⟩; exact ⟨h1, by omega, h2⟩
      · rintro ⟨h1, _, h3⟩; exact ⟨h1, h3⟩

/-- the code's test `available >= amount`, computed in machine ints, is the model's `fits` -/
theorem fitsGo_eq_fits (cap used : Nat → Nat) (ch : List Nat) (amt : Nat) (hne : ch ≠ [])
    (hc : ∀ x ∈ ch, cap x ≤ maxInt) (hu : ∀ x ∈ ch, used x ≤ maxInt) :
    fitsGo cap used ch amt = fits cap used ch amt := by
  cases ch with
  | nil => exact absurd rfl hne
  | cons l ps =>
    have e : ∀ x ∈ l :: ps, ((amt : Int) ≤ leftGo cap used x ↔ used x + amt ≤ cap x) := by
      intro x hx
      rw [leftGo_exact _ _ _ (hc x hx) (hu x hx)]
      omega
    rw [Bool.eq_iff_iff, fits_iff]
    unfold fitsGo
    rw [decide_eq_true_iff]
    show (amt : Int) ≤ availGo cap used (l :: ps) ↔ _
    unfold availGo
    rw [foldl_min_ge (leftGo cap used)]
    constructor
    · rintro ⟨h1, h2⟩ x hx
      rcases List.mem_cons.mp hx with h | h
      · subst h; exact (e _ hx).mp h1
      · exact (e x hx).mp (h2 x h)
    · intro h
      exact ⟨(e l List.mem_cons_self).mpr (h l List.mem_cons_self),
             fun p hp => (e p (List.mem_cons_of_mem _ hp)).mpr (h p (List.mem_cons_of_mem _ hp))⟩

/-- `used += amount` after the test succeeded cannot wrap -/
theorem chargeGo_exact (cap used : Nat → Nat) (ch : List Nat) (amt : Nat) (hc : ∀ x ∈ ch, cap x ≤ maxInt)
    (hf : fits cap used ch amt = true) : ∀ x, chargeGo used ch amt x = ((charge used ch amt x : Nat) : Int) := by
  intro x
  unfold chargeGo charge
  split
  · rename_i hx
    have h1 := (fits_iff cap used ch amt).mp hf x hx
    have h2 := hc x hx
    rw [maxInt_val] at h2
    rw [wrap64_id] <;> omega
  · rfl

/-- the ticker's guard `c.root.capacity-c.root.used > 0` is `used < capacity` of the root -/
theorem rootGuardGo_exact (cap used : Nat → Nat) (hc : cap 0 ≤ maxInt) (hu : used 0 ≤ maxInt) :
    rootGuardGo cap used = decide (used 0 < cap 0) := by
  unfold rootGuardGo
  rw [leftGo_exact _ _ _ hc hu, Bool.eq_iff_iff, decide_eq_true_iff, decide_eq_true_iff]
  omega

/-- the state in which the sum form goes wrong: root of capacity `MaxInt`, 10 granted in the current period -/
def sumWitness : S := run (init maxInt) [.use 0 10]

theorem sumWitness_reachable : Reachable maxInt sumWitness := by
  have h1 : Steps (init maxInt) (exec (init maxInt) (.use 0 10)) := exec_steps _ _
  exact Reachable.init.steps h1

theorem sumWitness_facts :
    sumWitness.capHi ≤ maxInt ∧ sumWitness.used 0 = 10 ∧ sumWitness.cap 0 = maxInt ∧ sumWitness.chain 0 = [0] ∧
    sumWitness.holder = .free ∧ sumWitness.closed 0 = false := by
  decide

theorem sumWitness_wraps :
    fitsSumGo sumWitness.cap sumWitness.used (sumWitness.chain 0) (maxInt - 5) = true ∧
    fits sumWitness.cap sumWitness.used (sumWitness.chain 0) (maxInt - 5) = false ∧
    fitsGo sumWitness.cap sumWitness.used (sumWitness.chain 0) (maxInt - 5) = false := by
  decide

end RL
