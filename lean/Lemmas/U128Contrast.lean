import Model.I128
/-! C01, CONTRAST variants: the code WITHOUT one of the mechanisms named in the property's anchors, each with a concrete
    operand pair on which the variant violates the statement the real transcription is proved to satisfy
    (`Props/C01.lean`, section "contrast").  Nothing here is executed by the driver; the variants exist only to show
    that the spec theorems are not insensitive to the mechanism.  Operands are taken from the path pass of the check
    (`u path …`), which names the correction branches an operand pair exercises.  Core Lean only. -/
namespace U128.Contrast
open U128

/-- `Add` without the carry of `bits.Add64` into the high word -/
def addNoCarry (u n : U128) : U128 := ⟨u.hi + n.hi, u.lo + n.lo⟩
/-- `Sub` without the borrow of `bits.Sub64` -/
def subNoBorrow (u n : U128) : U128 := ⟨u.hi - n.hi, u.lo - n.lo⟩
/-- `Mul` without the two cross products `u.hi*n.lo + u.lo*n.hi` -/
def mulNoCross (u n : U128) : U128 := let (hi, lo) := mul64 u.lo n.lo; ⟨hi, lo⟩

/-- `OnesCount` as it was before the fix (`bits.OnesCount64(u.hi) + 64` when the high word is non-zero) -/
def onesCountOld (u : U128) : Nat := if u.hi ≠ 0#64 then popcount u.hi + 64 else popcount u.lo

/-- `divmod128by64` with the two correction loops removed (fuel 0: the first estimates `q1`, `q0` are used as they are) -/
def by64NoLoops (u : U128) (n : W) (nLeading0 : Nat) : W × W :=
  let n := n <<< nLeading0
  let vn1 := n >>> 32
  let u : U128 := if nLeading0 > 0 then ⟨u.hi <<< nLeading0 ||| u.lo >>> (64 - nLeading0), u.lo <<< nLeading0⟩ else u
  let un1 := u.lo >>> 32
  let un0 := u.lo &&& mask32
  let q1 := u.hi / vn1
  let un21 := u.hi <<< 32 + (un1 - q1 * n)
  let q0 := un21 / vn1
  (q1 <<< 32 ||| q0, (un21 <<< 32 + (un0 - q0 * n)) >>> nLeading0)

/-- the estimate branch of `divmod128by128` without the final correction `if r.Cmp(n) >= 0 { q++; r -= n }` -/
def by128NoCorr (u n : U128) (nHiLeading0 nLoLeading0 : Nat) : U128 × U128 :=
  let q0 := (divmod128by64 (rightShift u 1) (leftShift n nHiLeading0).hi nLoLeading0).1
  let q0 := q0 >>> (63 - nHiLeading0)
  let q0 := if q0 ≠ 0#64 then q0 - 1#64 else q0
  let q : U128 := ⟨0#64, q0⟩
  (q, sub u (mul q n))

/-- the estimate branch of `divmod128by128` without the decrement `if q.lo != 0 { q.lo-- }` of the estimate -/
def by128NoDec (u n : U128) (nHiLeading0 nLoLeading0 : Nat) : U128 × U128 :=
  let q0 := (divmod128by64 (rightShift u 1) (leftShift n nHiLeading0).hi nLoLeading0).1
  let q0 := q0 >>> (63 - nHiLeading0)
  let q : U128 := ⟨0#64, q0⟩
  let r := sub u (mul q n)
  if cmp r n ≥ 0 then (inc q, sub r n) else (q, r)

/-- the word-divisor branch of `divmod128by128` without the high/low split (`u.hi / n.lo`, `u.hi %= n.lo`): the 128/64
    kernel called although the high word of the dividend is not below the divisor -/
def by128NoSplit (u n : U128) (nLoLeading0 : Nat) : U128 × U128 :=
  let qr := divmod128by64 u n.lo nLoLeading0
  (⟨0#64, qr.1⟩, ⟨0#64, qr.2⟩)

end U128.Contrast

namespace I128.Contrast
open U128 (W Res)

/-- `Int128.LessThan` without the sign test: the unsigned order of the bit patterns -/
def lessThanUnsigned (i n : I128) : Bool := i.toU.lessThan n.toU
/-- `Int128.Div` without magnitudes and sign fix-up: the unsigned quotient of the bit patterns -/
def divUnsigned (i n : I128) : Res I128 :=
  match i.toU.div n.toU with
  | .panic => .panic
  | .ok q => .ok (I128.ofU q)
/-- `Int128.Add64` without the sign extension of the `int64` operand (the `nhi` word) -/
def addWNoExt (i : I128) (n : W) : I128 := let (lo, c) := U128.add64 i.lo n 0#64; ⟨i.hi + c, lo⟩

end I128.Contrast
