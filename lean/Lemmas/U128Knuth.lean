import Lemmas.U128Div
import Lemmas.U128DivBin
import Mathlib.Tactic.Ring
import Mathlib.Tactic.Linarith
import Mathlib.Tactic.NormNum
/-! C01 helper lemmas: the two Knuth kernels of `Model/U128.lean` meet their contracts.

    * `divmod128by64` (Knuth D / Hacker's Delight `divlu` on 32-bit digits): `divlu64Spec : Divlu64Spec`.
      Route: the correction loop on natural numbers (`corr`, `corr_spec`: invariant `q·vn1 + rhat = uh ∧ qtrue ≤ q`,
      the exit test forces equality, two rounds suffice), the word-level loop computes the same (`corrLoop_eq`, no
      wrap-around), one quotient digit and its partial remainder (`digit_spec`, `rem_spec`), two digits assembled with
      `split_div`, de-normalisation.
    * the estimate branch of `divmod128by128`: `div128Spec : Div128Spec` (estimate lemma `est_bounds`:
      `q ≤ ⌊u / (v1·D)⌋ ≤ q + 1`). -/
namespace U128

/-! ## the correction loop on natural numbers -/

/-- One estimated quotient digit of Knuth D, base `b`, as the Go code computes it: start from `uh / vn1`, then the
    correction loop. -/
def corr (b vn1 vn0 un1 : Nat) : Nat → Nat → Nat → Nat
  | 0, q, _ => q
  | fuel+1, q, rhat =>
    if q ≥ b ∨ q * vn0 > rhat * b + un1 then
      if rhat + vn1 < b then corr b vn1 vn0 un1 fuel (q - 1) (rhat + vn1) else q - 1
    else q

theorem corr_spec (b vn1 vn0 un1 uh : Nat) (hb : 0 < b)
    (hvn1 : b ≤ 2 * vn1) (hvn1' : vn1 < b) (hvn0 : vn0 < b) (hun1 : un1 < b)
    (huh : uh < vn1 * b + vn0) :
    ∀ fuel q rhat, q * vn1 + rhat = uh → (uh * b + un1) / (vn1 * b + vn0) ≤ q →
      b ≤ rhat + fuel * vn1 →
      corr b vn1 vn0 un1 fuel q rhat = (uh * b + un1) / (vn1 * b + vn0) := by
  have hvn1p : 0 < vn1 := by omega
  have hv : 0 < vn1 * b + vn0 := Nat.add_pos_left (Nat.mul_pos hvn1p hb) _
  intro fuel
  induction fuel with
  | zero =>
    intro q rhat hq hle hfuel
    simp only [Nat.zero_mul, Nat.add_zero] at hfuel
    show q = _
    apply Nat.le_antisymm _ hle
    rw [Nat.le_div_iff_mul_le hv]
    have hqb : q < b := by
      by_contra h
      have h : b ≤ q := Nat.le_of_not_lt h
      have : b * vn1 ≤ q * vn1 := Nat.mul_le_mul_right _ h
      nlinarith
    have : q * vn0 ≤ rhat * b := by nlinarith
    nlinarith
  | succ n ih =>
    intro q rhat hq hle hfuel
    show (if q ≥ b ∨ q * vn0 > rhat * b + un1 then
            (if rhat + vn1 < b then corr b vn1 vn0 un1 n (q - 1) (rhat + vn1) else q - 1) else q) = _
    split
    · rename_i hc
      have hgt : (uh * b + un1) / (vn1 * b + vn0) < q := by
        rcases hc with hc | hc
        · have : (uh * b + un1) / (vn1 * b + vn0) < b := by
            rw [Nat.div_lt_iff_lt_mul hv]; nlinarith
          exact Nat.lt_of_lt_of_le this hc
        · rw [Nat.div_lt_iff_lt_mul hv]; nlinarith
      have hq1 : 1 ≤ q := Nat.lt_of_le_of_lt (Nat.zero_le _) hgt
      have hq' : (q - 1) * vn1 + (rhat + vn1) = uh := by
        have h2 : (q - 1) * vn1 + vn1 = q * vn1 := by
          have := Nat.sub_add_cancel hq1
          calc (q - 1) * vn1 + vn1 = ((q - 1) + 1) * vn1 := by ring
            _ = q * vn1 := by rw [this]
        omega
      have hle' : (uh * b + un1) / (vn1 * b + vn0) ≤ q - 1 := Nat.le_sub_one_of_lt hgt
      split
      · apply ih (q - 1) (rhat + vn1) hq' hle'
        have : (n + 1) * vn1 = n * vn1 + vn1 := by ring
        omega
      · rename_i hr
        apply Nat.le_antisymm _ hle'
        rw [Nat.le_div_iff_mul_le hv]
        have hr' : b ≤ rhat + vn1 := by omega
        have hqb : q - 1 < b := by
          by_contra h
          have h : b ≤ q - 1 := Nat.le_of_not_lt h
          have : b * vn1 ≤ (q - 1) * vn1 := Nat.mul_le_mul_right _ h
          nlinarith
        have : (q - 1) * vn0 ≤ (rhat + vn1) * b := by nlinarith
        nlinarith
    · rename_i hc
      have hc1 : q < b := by
        by_contra h; exact hc (Or.inl (Nat.le_of_not_lt h))
      have hc2 : q * vn0 ≤ rhat * b + un1 := by
        by_contra h; exact hc (Or.inr (Nat.lt_of_not_le h))
      apply Nat.le_antisymm _ hle
      rw [Nat.le_div_iff_mul_le hv]
      nlinarith

/-! ## word level: no operation of the loop wraps around -/

theorem bit32_toNat : bit32.toNat = 2^32 := by decide

/-- `hi <<< 32 ||| lo` of two 32-bit digits is `hi·2^32 + lo` -/
theorem shl32_or (r x : W) (hr : r.toNat < 2^32) (hx : x.toNat < 2^32) :
    (r <<< 32 ||| x).toNat = r.toNat * 2^32 + x.toNat := by
  rw [BitVec.toNat_or, BitVec.toNat_shiftLeft, Nat.shiftLeft_eq]
  have e : r.toNat * 2^32 % 2^64 = 2^32 * r.toNat := by omega
  rw [e, ← Nat.two_pow_add_eq_or_of_lt hx]; omega

theorem shl32_add (r x : W) (hr : r.toNat < 2^32) (hx : x.toNat < 2^32) :
    (r <<< 32 + x).toNat = r.toNat * 2^32 + x.toNat := by
  rw [BitVec.toNat_add, BitVec.toNat_shiftLeft, Nat.shiftLeft_eq]
  omega

/-- the word-level correction loop computes what the loop on natural numbers computes -/
theorem corrLoop_eq (vn1 vn0 unx : W) (hvn1 : vn1.toNat < 2^32) (hunx : unx.toNat < 2^32) :
    ∀ (fuel : Nat) (q rhat left right : W), rhat.toNat < 2^32 → q.toNat * vn0.toNat < 2^64 →
      left.toNat = q.toNat * vn0.toNat → right.toNat = rhat.toNat * 2^32 + unx.toNat →
      (corrLoop vn1 vn0 unx fuel q rhat left right).toNat
        = corr (2^32) vn1.toNat vn0.toNat unx.toNat fuel q.toNat rhat.toNat := by
  intro fuel
  induction fuel with
  | zero => intro q rhat left right _ _ _ _; rfl
  | succ f ih =>
    intro q rhat left right hr hqv hl hrt
    have hq := q.isLt
    have h1 : (1#64).toNat = 1 := rfl
    have hsum : (rhat + vn1).toNat = rhat.toNat + vn1.toNat := by rw [BitVec.toNat_add]; omega
    unfold corrLoop corr
    rw [bit32_toNat, hl, hrt, hsum]
    by_cases hc : q.toNat ≥ 2^32 ∨ q.toNat * vn0.toNat > rhat.toNat * 2^32 + unx.toNat
    · rw [if_pos hc, if_pos hc]
      have hq1 : 1 ≤ q.toNat := by
        rcases hc with hc | hc
        · omega
        · rcases Nat.eq_zero_or_pos q.toNat with e | e
          · rw [e] at hc; omega
          · exact e
      have hqm : (q - 1#64).toNat = q.toNat - 1 := by rw [BitVec.toNat_sub, h1]; omega
      by_cases hr2 : rhat.toNat + vn1.toNat < 2^32
      · rw [if_pos hr2, if_pos hr2]
        have hmul : (q.toNat - 1) * vn0.toNat + vn0.toNat = q.toNat * vn0.toNat := by
          have := Nat.sub_add_cancel hq1
          calc (q.toNat - 1) * vn0.toNat + vn0.toNat = ((q.toNat - 1) + 1) * vn0.toNat := by ring
            _ = q.toNat * vn0.toNat := by rw [this]
        have key := ih (q - 1#64) (rhat + vn1) (left - vn0) ((rhat + vn1) <<< 32 ||| unx)
          (by rw [hsum]; exact hr2) (by rw [hqm]; omega)
          (by rw [BitVec.toNat_sub, hl, hqm]; have := vn0.isLt; omega)
          (by rw [shl32_or _ _ (by rw [hsum]; exact hr2) hunx, hsum])
        rw [key, hqm, hsum]
      · rw [if_neg hr2, if_neg hr2, hqm]
    · rw [if_neg hc, if_neg hc]

/-! ## one quotient digit and its partial remainder -/

/-- the first estimate is not below the true digit -/
theorem qhat_ge (b vn1 vn0 uh unx : Nat) (hv : 0 < vn1) (hunx : unx < b) :
    (uh * b + unx) / (vn1 * b + vn0) ≤ uh / vn1 := by
  rw [Nat.le_div_iff_mul_le hv]
  have h := Nat.div_mul_le_self (uh * b + unx) (vn1 * b + vn0)
  generalize (uh * b + unx) / (vn1 * b + vn0) = Q at *
  by_contra hc
  have hc : uh + 1 ≤ Q * vn1 := by omega
  have : (uh + 1) * b ≤ Q * vn1 * b := Nat.mul_le_mul_right _ hc
  nlinarith

/-- the first estimate `uh / vn1` is at most `b + 1`, so `q·vn0` fits a word -/
theorem qhat_small (vn1 vn0 uh : Nat) (hvn1 : 2^31 ≤ vn1) (hvn0 : vn0 < 2^32) (huh : uh < vn1 * 2^32 + vn0) :
    uh / vn1 * vn0 < 2^64 := by
  have h := Nat.div_mul_le_self uh vn1
  generalize uh / vn1 = q at *
  have hq : q ≤ 2^32 + 1 := by
    by_contra hc
    have hc : 2^32 + 2 ≤ q := by omega
    have : (2^32 + 2) * vn1 ≤ q * vn1 := Nat.mul_le_mul_right _ hc
    omega
  have : q * vn0 ≤ (2^32 + 1) * vn0 := Nat.mul_le_mul_right _ hq
  omega

/-- **one digit**: for a normalised divisor `nn` (top bit set) and `uh < nn`, the estimate followed by the correction
    loop is the true quotient digit `⌊(uh·2^32 + unx) / nn⌋`.  `right` is `rhat <<< 32 + un1` in loop 1 and
    `rhat <<< 32 ||| un0` in loop 2 of the source; both have the value `rhat·2^32 + unx`. -/
theorem digit_spec (uh unx nn right : W) (hnn : 2^63 ≤ nn.toNat) (huh : uh.toNat < nn.toNat)
    (hunx : unx.toNat < 2^32)
    (hright : right.toNat = (uh % (nn >>> 32)).toNat * 2^32 + unx.toNat) :
    (corrLoop (nn >>> 32) (nn &&& mask32) unx 4 (uh / (nn >>> 32)) (uh % (nn >>> 32))
        ((uh / (nn >>> 32)) * (nn &&& mask32)) right).toNat
      = (uh.toNat * 2^32 + unx.toNat) / nn.toNat := by
  have hlt := nn.isLt
  have e1 : (nn >>> 32).toNat = nn.toNat / 2^32 := shr32 nn
  have e0 : (nn &&& mask32).toNat = nn.toNat % 2^32 := and_mask32 nn
  generalize hvn1 : (nn >>> 32) = vn1 at *
  generalize hvn0 : (nn &&& mask32) = vn0 at *
  have hv1lo : 2^31 ≤ vn1.toNat := by omega
  have hv1hi : vn1.toNat < 2^32 := by omega
  have hv0 : vn0.toNat < 2^32 := by omega
  have hV : nn.toNat = vn1.toNat * 2^32 + vn0.toNat := by omega
  have hv1pos : 0 < vn1.toNat := by omega
  have hq : (uh / vn1).toNat = uh.toNat / vn1.toNat := BitVec.toNat_udiv
  have hr : (uh % vn1).toNat = uh.toNat % vn1.toNat := BitVec.toNat_umod
  have hrlt : uh.toNat % vn1.toNat < vn1.toNat := Nat.mod_lt _ hv1pos
  have hsmall := qhat_small vn1.toNat vn0.toNat uh.toNat hv1lo hv0 (by omega)
  have hmul : ((uh / vn1) * vn0).toNat = uh.toNat / vn1.toNat * vn0.toNat := by
    rw [BitVec.toNat_mul, hq, Nat.mod_eq_of_lt hsmall]
  rw [corrLoop_eq vn1 vn0 unx hv1hi hunx 4 (uh / vn1) (uh % vn1) _ right (by omega) (by rw [hq]; exact hsmall)
    (by rw [hmul, hq]) hright, hq, hr, hV]
  apply corr_spec (2^32) vn1.toNat vn0.toNat unx.toNat uh.toNat (by omega) (by omega) hv1hi hv0 hunx (by omega)
  · exact Nat.div_add_mod' _ _
  · exact qhat_ge _ _ _ _ _ hv1pos hunx
  · omega

theorem rem_nat (A x P R V : Nat) (h : P + R = A * 2^32 + x) (hR : R < V) (hV : V < 2^64) :
    (A * 2^32 % 2^64 + (2^64 - P % 2^64 + x) % 2^64) % 2^64 = R := by omega

/-- **partial remainder**: `(uh << 32) + (unx − q·nn)` in wrapping word arithmetic is the true remainder -/
theorem rem_spec (uh unx q nn : W) (huh : uh.toNat < nn.toNat)
    (hq : q.toNat = (uh.toNat * 2^32 + unx.toNat) / nn.toNat) :
    (uh <<< 32 + (unx - q * nn)).toNat = (uh.toNat * 2^32 + unx.toNat) % nn.toNat := by
  have hlt := nn.isLt
  have hpos : 0 < nn.toNat := by omega
  have hd := Nat.div_add_mod' (uh.toNat * 2^32 + unx.toNat) nn.toNat
  have hm := Nat.mod_lt (uh.toNat * 2^32 + unx.toNat) hpos
  rw [BitVec.toNat_add, BitVec.toNat_shiftLeft, Nat.shiftLeft_eq, BitVec.toNat_sub, BitVec.toNat_mul, hq]
  exact rem_nat _ _ _ _ _ hd hm hlt

/-- the true digit is a digit -/
theorem digit_lt (uh unx V : Nat) (huh : uh < V) (hunx : unx < 2^32) : (uh * 2^32 + unx) / V < 2^32 := by
  rw [Nat.div_lt_iff_lt_mul (by omega)]
  omega

/-! ## two digits: the normalised core of `divmod128by64` -/

/-- `divmod128by64` after normalisation (`nn = n << s`, `uh:ul = u << s`) -/
def divluCore (uh ul nn : W) (s : Nat) : W × W :=
  let vn1 := nn >>> 32
  let vn0 := nn &&& mask32
  let un1 := ul >>> 32
  let un0 := ul &&& mask32
  let q1 := corrLoop vn1 vn0 un1 4 (uh / vn1) (uh % vn1) ((uh / vn1) * vn0) ((uh % vn1) <<< 32 + un1)
  let un21 := uh <<< 32 + (un1 - q1 * nn)
  let q0 := corrLoop vn1 vn0 un0 4 (un21 / vn1) (un21 % vn1) ((un21 / vn1) * vn0) ((un21 % vn1) <<< 32 ||| un0)
  (q1 <<< 32 ||| q0, (un21 <<< 32 + (un0 - q0 * nn)) >>> s)

theorem divmod128by64_eq_core (u : U128) (n : W) (s : Nat) (hs : s < 64) :
    divmod128by64 u n s = divluCore (leftShift u s).hi (leftShift u s).lo (n <<< s) s := by
  unfold leftShift
  by_cases h0 : s = 0
  · subst h0; rfl
  · have h1 : s > 0 := by omega
    have h2 : ¬ s > 64 := by omega
    rw [if_neg h0, if_neg h2, if_pos hs]
    unfold divmod128by64
    simp only [if_pos h1]
    rfl

theorem divluCore_spec (uh ul nn : W) (s : Nat) (hnn : 2^63 ≤ nn.toNat) (huh : uh.toNat < nn.toNat) :
    (divluCore uh ul nn s).1.toNat = (uh.toNat * 2^64 + ul.toNat) / nn.toNat ∧
    (divluCore uh ul nn s).2.toNat = (uh.toNat * 2^64 + ul.toNat) % nn.toNat / 2^s := by
  have hlt := nn.isLt
  have hul := ul.isLt
  have hpos : 0 < nn.toNat := by omega
  have e1 : (ul >>> 32).toNat = ul.toNat / 2^32 := shr32 ul
  have e0 : (ul &&& mask32).toNat = ul.toNat % 2^32 := and_mask32 ul
  have hun1 : (ul >>> 32).toNat < 2^32 := by omega
  have hun0 : (ul &&& mask32).toNat < 2^32 := by omega
  have hv1 : 0 < (nn >>> 32).toNat := by rw [shr32]; omega
  unfold divluCore
  simp only []
  -- first digit
  have hr1 : (uh % (nn >>> 32)).toNat < 2^32 := by
    rw [BitVec.toNat_umod]
    have := Nat.mod_lt uh.toNat hv1
    have := shr32 nn
    omega
  have hq1 := digit_spec uh (ul >>> 32) nn ((uh % (nn >>> 32)) <<< 32 + ul >>> 32) hnn huh hun1
    (shl32_add _ _ hr1 hun1)
  generalize corrLoop (nn >>> 32) (nn &&& mask32) (ul >>> 32) 4 (uh / (nn >>> 32)) (uh % (nn >>> 32))
    ((uh / (nn >>> 32)) * (nn &&& mask32)) ((uh % (nn >>> 32)) <<< 32 + ul >>> 32) = q1 at *
  have hq1lt : q1.toNat < 2^32 := by rw [hq1]; exact digit_lt _ _ _ huh hun1
  -- first partial remainder
  have hun21 := rem_spec uh (ul >>> 32) q1 nn huh hq1
  generalize uh <<< 32 + (ul >>> 32 - q1 * nn) = un21 at *
  have hun21lt : un21.toNat < nn.toNat := by rw [hun21]; exact Nat.mod_lt _ hpos
  -- second digit
  have hr0 : (un21 % (nn >>> 32)).toNat < 2^32 := by
    rw [BitVec.toNat_umod]
    have := Nat.mod_lt un21.toNat hv1
    have := shr32 nn
    omega
  have hq0 := digit_spec un21 (ul &&& mask32) nn ((un21 % (nn >>> 32)) <<< 32 ||| (ul &&& mask32)) hnn hun21lt hun0
    (shl32_or _ _ hr0 hun0)
  generalize corrLoop (nn >>> 32) (nn &&& mask32) (ul &&& mask32) 4 (un21 / (nn >>> 32)) (un21 % (nn >>> 32))
    ((un21 / (nn >>> 32)) * (nn &&& mask32)) ((un21 % (nn >>> 32)) <<< 32 ||| (ul &&& mask32)) = q0 at *
  have hq0lt : q0.toNat < 2^32 := by rw [hq0]; exact digit_lt _ _ _ hun21lt hun0
  have hrem := rem_spec un21 (ul &&& mask32) q0 nn hun21lt hq0
  -- assemble
  obtain ⟨c, d⟩ := split_div (uh.toNat * 2^32 + (ul >>> 32).toNat) (ul &&& mask32).toNat nn.toNat (2^32) hpos
  have eU : (uh.toNat * 2^32 + (ul >>> 32).toNat) * 2^32 + (ul &&& mask32).toNat = uh.toNat * 2^64 + ul.toNat := by
    omega
  rw [eU] at c d
  constructor
  · rw [shl32_or _ _ hq1lt hq0lt, hq1, hq0, hun21, c]
  · rw [BitVec.toNat_ushiftRight, Nat.shiftRight_eq_div_pow, hrem, hun21, d]

/-! ## `divmod128by64` meets its contract -/

/-- shifting a non-zero word left by its leading-zero count sets the top bit and loses nothing -/
theorem clz_bounds (n : W) (hn : n ≠ 0#64) :
    clz n < 64 ∧ 2^63 ≤ n.toNat * 2^(clz n) ∧ n.toNat * 2^(clz n) < 2^64 := by
  have hn0 : n.toNat ≠ 0 := fun e => hn (BitVec.eq_of_toNat_eq (by simpa using e))
  have hle := len64_le n
  have hup := len64_upper n
  have hlo := len64_lower n hn0
  have hz : len64 n ≠ 0 := fun e => hn0 ((len64_zero n).mp e)
  unfold clz
  generalize len64 n = L at *
  have e1 : 2^(L-1) * 2^(64-L) = 2^63 := by rw [← Nat.pow_add]; congr 1; omega
  have e2 : 2^L * 2^(64-L) = 2^64 := by rw [← Nat.pow_add]; congr 1; omega
  have hp : 0 < 2^(64-L) := Nat.two_pow_pos _
  refine ⟨by omega, ?_, ?_⟩
  · rw [← e1]; exact Nat.mul_le_mul_right _ hlo
  · rw [← e2]; exact Nat.mul_lt_mul_of_pos_right hup hp

/-- **`divmod128by64`** (Knuth D on 32-bit digits), called with the divisor's leading-zero count and a dividend whose
    high word is below the divisor, returns floor quotient and remainder -/
theorem divlu64Spec : Divlu64Spec := by
  intro u n hn hlt
  obtain ⟨hs, hlo, hhi⟩ := clz_bounds n hn
  generalize clz n = s at *
  rw [divmod128by64_eq_core u n s hs]
  have hp : 0 < 2^s := Nat.two_pow_pos s
  have hnn : (n <<< s).toNat = n.toNat * 2^s := by
    rw [BitVec.toNat_shiftLeft, Nat.shiftLeft_eq, Nat.mod_eq_of_lt hhi]
  have hu : u.toNat < n.toNat * 2^64 := by unfold toNat; have := u.lo.isLt; omega
  have hlt2 : u.toNat * 2^s < n.toNat * 2^s * 2^64 := by
    have := Nat.mul_lt_mul_of_pos_right hu hp
    calc u.toNat * 2^s < n.toNat * 2^64 * 2^s := this
      _ = n.toNat * 2^s * 2^64 := by ring
  have hU : (leftShift u s).toNat = u.toNat * 2^s := by
    rw [leftShift_toNat]; apply Nat.mod_eq_of_lt; omega
  have hUd : (leftShift u s).toNat = (leftShift u s).hi.toNat * 2^64 + (leftShift u s).lo.toNat := rfl
  have huh : (leftShift u s).hi.toNat < (n <<< s).toNat := by
    rw [hnn]; have := (leftShift u s).lo.isLt; omega
  obtain ⟨a, b⟩ := divluCore_spec _ _ _ s (by rw [hnn]; exact hlo) huh
  rw [a, b, ← hUd, hU, hnn]
  exact ⟨Nat.mul_div_mul_right _ _ hp, by rw [Nat.mul_mod_mul_right, Nat.mul_div_cancel _ hp]⟩

/-! ## the estimate branch of `divmod128by128` -/

/-- **estimate lemma** (Hacker's Delight `divlu`-based 128/128): with `D = 2^(64-s)`, `v1 = ⌊n/D⌋ ≥ 2^63` the quotient
    by the truncated divisor `v1·D` is the true quotient or one more.  `E = 2^(s+1)` bounds the quotient. -/
theorem est_bounds (u n v1 D E : Nat) (hD : 2 ≤ D) (hDE : E * D = 2^65) (hv1 : 2^63 ≤ v1)
    (hlo : v1 * D ≤ n) (hhi : n < v1 * D + D) (hu : u < 2^128) :
    u / n ≤ u / (v1 * D) ∧ u / (v1 * D) ≤ u / n + 1 := by
  have hM : 2^63 * D ≤ v1 * D := Nat.mul_le_mul_right _ hv1
  have hMpos : 0 < v1 * D := by omega
  have hnpos : 0 < n := by omega
  constructor
  · exact Nat.div_le_div_left hlo hMpos
  · have hq := Nat.div_mul_le_self u n
    have hq2 : u < (u / n + 1) * n := by
      have := Nat.div_add_mod u n
      have := Nat.mod_lt u hnpos
      rw [Nat.add_mul, Nat.mul_comm]; omega
    generalize u / n = q at *
    -- q + 1 ≤ E
    have hqE : q + 1 ≤ E := by
      by_contra hc
      have hc : E ≤ q := by omega
      have h1 : E * n ≤ q * n := Nat.mul_le_mul_right _ hc
      have h2 : E * (2^63 * D) ≤ E * n := Nat.mul_le_mul_left _ (by omega)
      have h3 : E * (2^63 * D) = 2^63 * (E * D) := by ring
      omega
    -- (q+1)(D-1) ≤ v1·D
    have hkey : (q + 1) * (D - 1) ≤ v1 * D := by
      have h1 : (q + 1) * (D - 1) ≤ E * (D - 1) := Nat.mul_le_mul_right _ hqE
      have h2 : E * (D - 1) + E = E * D := by
        have : D - 1 + 1 = D := by omega
        calc E * (D - 1) + E = E * (D - 1 + 1) := by ring
          _ = E * D := by rw [this]
      by_cases h4 : 4 ≤ D
      · omega
      · have hD23 : D = 2 ∨ D = 3 := by omega
        rcases hD23 with e | e <;> subst e <;> omega
    have h5 : (q + 1) * n ≤ (q + 1) * (v1 * D + (D - 1)) := Nat.mul_le_mul_left _ (by omega)
    have h6 : (q + 1) * (v1 * D + (D - 1)) = (q + 1) * (v1 * D) + (q + 1) * (D - 1) := by ring
    have h7 : (q + 1 + 1) * (v1 * D) = (q + 1) * (v1 * D) + v1 * D := by ring
    have : u / (v1 * D) < q + 1 + 1 := by
      rw [Nat.div_lt_iff_lt_mul hMpos]; omega
    omega

/-- decrement, multiply back, one upward correction -/
theorem final_corr (u n q' : Nat) (hn : 0 < n) (h : q' = u / n ∨ q' + 1 = u / n) :
    q' * n ≤ u ∧ (if n ≤ u - q' * n then q' + 1 = u / n ∧ u - q' * n - n = u % n
                  else q' = u / n ∧ u - q' * n = u % n) := by
  have hd := Nat.div_add_mod u n
  have hm := Nat.mod_lt u hn
  rcases h with h | h
  · rw [← h, Nat.mul_comm] at hd
    refine ⟨by omega, ?_⟩
    rw [if_neg (by omega)]
    exact ⟨h, by omega⟩
  · rw [← h, Nat.mul_add, Nat.mul_one, Nat.mul_comm] at hd
    refine ⟨by omega, ?_⟩
    rw [if_pos (by omega)]
    exact ⟨h, by omega⟩

theorem cmp_ge_zero (r n : U128) : r.cmp n ≥ 0 ↔ n.toNat ≤ r.toNat := by
  rw [cmp_eq]
  by_cases h1 : r.toNat < n.toNat
  · rw [if_pos h1]; constructor <;> intro h <;> omega
  · rw [if_neg h1]
    by_cases h2 : r.toNat = n.toNat
    · rw [if_pos h2]; constructor <;> intro h <;> omega
    · rw [if_neg h2]; constructor <;> intro h <;> omega

/-- a word with the top bit set has no leading zeros -/
theorem clz_top (x : W) (h : 2^63 ≤ x.toNat) : clz x = 0 := by
  have hle := len64_le x
  have hup := len64_upper x
  unfold clz
  generalize len64 x = L at *
  by_cases hL : L ≤ 63
  · have : 2^L ≤ 2^63 := Nat.pow_le_pow_right (by omega) hL
    omega
  · omega

theorem clz_bounds' (n : W) : (n.toNat + 1) * 2^(clz n) ≤ 2^64 := by
  have hle := len64_le n
  have hup := len64_upper n
  unfold clz
  generalize len64 n = L at *
  have e2 : 2^L * 2^(64-L) = 2^64 := by rw [← Nat.pow_add]; congr 1; omega
  rw [← e2]; exact Nat.mul_le_mul_right _ hup

/-- **the estimate branch of `divmod128by128`** (divisor wider than one word, EVERY dividend — also one below
    the divisor, where the estimate is 0 or 1 —) returns floor quotient and remainder -/
theorem div128Spec : Div128Spec := by
  intro u n hh
  obtain ⟨hs, hlo, hhi⟩ := clz_bounds n.hi hh
  have hhi' := clz_bounds' n.hi
  have hult := u.toNat_lt
  have hnlt := n.toNat_lt
  have z0 : (0#64).toNat = 0 := rfl
  have o1 : (1#64).toNat = 1 := rfl
  unfold divmod128by128
  rw [if_neg hh]
  simp only []
  generalize clz n.hi = s at *
  have hp : 0 < 2^s := Nat.two_pow_pos s
  have hDs : 2^(64-s) * 2^s = 2^64 := by rw [← Nat.pow_add]; congr 1; omega
  have hD2 : 2 * 2^(63-s) = 2^(64-s) := by rw [← Nat.pow_succ']; congr 1; omega
  have hE : 2^(s+1) * 2^(64-s) = 2^65 := by rw [← Nat.pow_add]; congr 1; omega
  have hDge : 2 ≤ 2^(64-s) := by rw [← hD2]; have := Nat.two_pow_pos (63-s); omega
  -- the normalised divisor
  have hnd : n.toNat = n.hi.toNat * 2^64 + n.lo.toNat := rfl
  have hnl := n.lo.isLt
  have hnpos : 0 < n.toNat := by
    have : n.hi.toNat ≠ 0 := fun e => hh (BitVec.eq_of_toNat_eq (by simpa using e))
    omega
  have hV : (leftShift n s).toNat = n.toNat * 2^s := by
    rw [leftShift_toNat]; apply Nat.mod_eq_of_lt
    have h1 : n.toNat * 2^s < (n.hi.toNat + 1) * 2^64 * 2^s := Nat.mul_lt_mul_of_pos_right (by omega) hp
    have h2 : (n.hi.toNat + 1) * 2^64 * 2^s = (n.hi.toNat + 1) * 2^s * 2^64 := by ring
    have h3 : (n.hi.toNat + 1) * 2^s * 2^64 ≤ 2^64 * 2^64 := Nat.mul_le_mul_right _ hhi'
    omega
  have hVd : (leftShift n s).toNat = (leftShift n s).hi.toNat * 2^64 + (leftShift n s).lo.toNat := rfl
  have hVl := (leftShift n s).lo.isLt
  have hge : 2^63 * 2^64 ≤ n.toNat * 2^s := by
    have h1 : n.hi.toNat * 2^64 * 2^s ≤ n.toNat * 2^s := Nat.mul_le_mul_right _ (by omega)
    have h2 : n.hi.toNat * 2^64 * 2^s = n.hi.toNat * 2^s * 2^64 := by ring
    omega
  generalize (leftShift n s).hi = v at *
  have hvge : 2^63 ≤ v.toNat := by omega
  have hvne : v ≠ 0#64 := fun e => by rw [e, z0] at hvge; omega
  have hv1 : v.toNat = n.toNat / 2^(64-s) := by
    have : v.toNat = n.toNat * 2^s / 2^64 := by omega
    rw [this, ← hDs, Nat.mul_div_mul_right _ _ hp]
  have hvlo : v.toNat * 2^(64-s) ≤ n.toNat := by rw [hv1]; exact Nat.div_mul_le_self _ _
  have hvhi : n.toNat < v.toNat * 2^(64-s) + 2^(64-s) := by
    rw [hv1]
    have := Nat.div_add_mod n.toNat (2^(64-s))
    have := Nat.mod_lt n.toNat (show 0 < 2^(64-s) by omega)
    rw [Nat.mul_comm]; omega
  -- the 128/64 division of u/2
  have hu1 : (rightShift u 1).toNat = u.toNat / 2 := by rw [rightShift_toNat, Nat.pow_one]
  have hu1d : (rightShift u 1).toNat = (rightShift u 1).hi.toNat * 2^64 + (rightShift u 1).lo.toNat := rfl
  have hu1l := (rightShift u 1).lo.isLt
  obtain ⟨a, _⟩ := divlu64Spec (rightShift u 1) v hvne (by omega)
  rw [clz_top v hvge] at a
  generalize (divmod128by64 (rightShift u 1) v 0).1 = q0 at *
  have hqh : (q0 >>> (63 - s)).toNat = u.toNat / (v.toNat * 2^(64-s)) := by
    rw [BitVec.toNat_ushiftRight, Nat.shiftRight_eq_div_pow, a, hu1, Nat.div_div_eq_div_mul,
      Nat.div_div_eq_div_mul]
    congr 1
    rw [← hD2]; ring
  generalize q0 >>> (63 - s) = qh at *
  obtain ⟨b1, b2⟩ := est_bounds u.toNat n.toNat v.toNat (2^(64-s)) (2^(s+1)) hDge hE hvge hvlo hvhi hult
  rw [← hqh] at b1 b2
  by_cases hqne : qh = 0#64
  · -- the estimate is 0 (dividend below the divisor): nothing is decremented, the product is 0, no correction
    have hqz : qh.toNat = 0 := by rw [hqne]; rfl
    have hq0 : u.toNat / n.toNat = 0 := Nat.le_zero.mp (hqz ▸ b1)
    have hlt : u.toNat < n.toNat := by
      rcases Nat.lt_or_ge u.toNat n.toNat with h | h
      · exact h
      · have := Nat.div_pos h hnpos; omega
    rw [if_neg (show ¬ (qh ≠ 0#64) from fun h => h hqne), hqne]
    have hQ : (U128.mk 0#64 0#64).toNat = 0 := by rw [mk0_toNat, z0]
    have hmul : (mul (U128.mk 0#64 0#64) n).toNat = 0 := by rw [mul_toNat, hQ, Nat.zero_mul]; rfl
    have hr : (sub u (mul (U128.mk 0#64 0#64) n)).toNat = u.toNat := by rw [sub_toNat, hmul]; omega
    rw [if_neg (show ¬ (cmp (sub u (mul (U128.mk 0#64 0#64) n)) n ≥ 0) from
      fun h => by have := (cmp_ge_zero _ _).mp h; rw [hr] at this; omega)]
    exact ⟨by rw [hQ, hq0], by rw [hr, Nat.mod_eq_of_lt hlt]⟩
  have hq1 : 1 ≤ qh.toNat := by
    have : qh.toNat ≠ 0 := fun e => hqne (BitVec.eq_of_toNat_eq (by simpa using e))
    omega
  rw [if_pos hqne]
  have hqd : (qh - 1#64).toNat = qh.toNat - 1 := by rw [BitVec.toNat_sub, o1]; have := qh.isLt; omega
  have hQ : (U128.mk 0#64 (qh - 1#64)).toNat = qh.toNat - 1 := by rw [mk0_toNat, hqd]
  generalize U128.mk 0#64 (qh - 1#64) = Q at *
  obtain ⟨hle, hif⟩ := final_corr u.toNat n.toNat (qh.toNat - 1) hnpos (by omega)
  have hdl := Nat.div_le_self u.toNat n.toNat
  have hqn : (qh.toNat - 1) * n.toNat < 2^128 := by omega
  have hmul : (mul Q n).toNat = (qh.toNat - 1) * n.toNat := by
    rw [mul_toNat, hQ, Nat.mod_eq_of_lt hqn]
  have hr : (sub u (mul Q n)).toNat = u.toNat - (qh.toNat - 1) * n.toNat := by
    rw [sub_toNat, hmul]; omega
  by_cases hc : n.toNat ≤ u.toNat - (qh.toNat - 1) * n.toNat
  · rw [if_pos ((cmp_ge_zero _ _).mpr (by rw [hr]; exact hc))]
    rw [if_pos hc] at hif
    constructor
    · show (inc Q).toNat = _
      rw [inc_toNat, hQ, hif.1, Nat.mod_eq_of_lt (by omega)]
    · show (sub (sub u (mul Q n)) n).toNat = _
      rw [sub_toNat, hr, ← hif.2]; omega
  · rw [if_neg (fun h => hc (by rw [← hr]; exact (cmp_ge_zero _ _).mp h))]
    rw [if_neg hc] at hif
    exact ⟨by rw [hQ]; exact hif.1, by rw [hr]; exact hif.2⟩

/-! ## the unconditional statement -/

/-- **DivMod is floor division with remainder** for every non-zero divisor (all three kernels proved) -/
theorem divMod_total (u n : U128) (h0 : n.toNat ≠ 0) :
    ∃ q r, u.divMod n = .ok (q, r) ∧ q.toNat = u.toNat / n.toNat ∧ r.toNat = u.toNat % n.toNat :=
  divMod_correct divlu64Spec div128Spec divBinSpec u n h0

end U128
