import Lemmas.Conv128Grammar
/-! C02 helper lemmas, part 8 (core Lean only): the exponent branch of `parseToBigInt` accepts exactly the texts that
    `big.Rat.SetString` reads as a fraction `n/d` whose exact value is an integer. -/
namespace Conv

def exp5Of (base : Nat) (d : Int) (xbase : Nat) (xexp : Int) : Int :=
  let e5a : Int := if d < 0 ∧ base == 10 then d else 0
  if xbase == 10 then e5a + xexp else e5a

def exp2Of (base : Nat) (d : Int) (xexp : Int) : Int :=
  let e2a : Int := if d < 0 then (if base == 10 ∨ base == 2 then d else if base == 8 then d * 3 else d * 4) else 0
  e2a + xexp

def numOf (val : Nat) (exp5 exp2 : Int) : Nat :=
  val * (if exp5 > 0 then 5 ^ exp5.toNat else 1) * (if exp2 > 0 then 2 ^ exp2.toNat else 1)

def denOf (exp5 exp2 : Int) : Nat :=
  (if exp5 < 0 then 5 ^ (-exp5).toNat else 1) * (if exp2 < 0 then 2 ^ (-exp2).toNat else 1)

/-- the arithmetic tail of `Rat.SetString` after the scanners -/
def ratTail (neg : Bool) (val base : Nat) (d : Int) (xbase : Nat) (xexp : Int) : Option (Int × Nat) :=
  if val == 0 then some (0, 1) else
  if (exp5Of base d xbase xexp).natAbs > 1000000 then none else
  if exp2Of base d xexp < -10000000 || exp2Of base d xexp > 10000000 then none else
  some (if neg then -(numOf val (exp5Of base d xbase xexp) (exp2Of base d xexp) : Int)
        else numOf val (exp5Of base d xbase xexp) (exp2Of base d xexp),
        denOf (exp5Of base d xbase xexp) (exp2Of base d xexp))

theorem bigRatSetString_eq (s : List Char) :
    bigRatSetString s =
      match scanSign s with
      | none => none
      | some (neg, r) =>
        if (natScan true r).err then none else
        if (scanExponent (natScan true r).rest).err then none else
        if !(scanExponent (natScan true r).rest).rest.isEmpty then none else
        ratTail neg (natScan true r).val (natScan true r).base (natScan true r).count
          (scanExponent (natScan true r).rest).base (scanExponent (natScan true r).rest).exp := rfl

theorem denOf_pos (a b : Int) : 0 < denOf a b := by
  unfold denOf
  apply Nat.mul_pos
  · split
    · exact Nat.pow_pos (by decide)
    · decide
  · split
    · exact Nat.pow_pos (by decide)
    · decide

theorem ratTail_den_pos (neg : Bool) (val base : Nat) (d : Int) (xbase : Nat) (xexp : Int) (n : Int) (dn : Nat)
    (h : ratTail neg val base d xbase xexp = some (n, dn)) : 0 < dn := by
  unfold ratTail at h
  by_cases h0 : (val == 0) = true
  · rw [if_pos h0] at h; injection h with h; injection h with _ h; omega
  · rw [if_neg h0] at h
    by_cases h1 : (exp5Of base d xbase xexp).natAbs > 1000000
    · rw [if_pos h1] at h; cases h
    · rw [if_neg h1] at h
      by_cases h2 : (decide (exp2Of base d xexp < -10000000) || decide (exp2Of base d xexp > 10000000)) = true
      · rw [if_pos h2] at h; cases h
      · rw [if_neg h2] at h; injection h with h; injection h with _ h
        rw [← h]; exact denOf_pos _ _

/-- the denominator produced by `Rat.SetString` is positive -/
theorem bigRatSetString_den_pos (s : List Char) (n : Int) (d : Nat) (h : bigRatSetString s = some (n, d)) : 0 < d := by
  rw [bigRatSetString_eq] at h
  cases hs : scanSign s with
  | none => rw [hs] at h; cases h
  | some p =>
    obtain ⟨neg, r⟩ := p
    rw [hs] at h
    simp only [] at h
    by_cases h1 : (natScan true r).err = true
    · rw [if_pos h1] at h; cases h
    · rw [if_neg h1] at h
      by_cases h2 : (scanExponent (natScan true r).rest).err = true
      · rw [if_pos h2] at h; cases h
      · rw [if_neg h2] at h
        by_cases h3 : (!(scanExponent (natScan true r).rest).rest.isEmpty) = true
        · rw [if_pos h3] at h; cases h
        · rw [if_neg h3] at h
          exact ratTail_den_pos _ _ _ _ _ _ _ _ h

/-- **exponent branch**: a text containing `e`/`E` is accepted with value `z` exactly when it contains no `/` and
    `big.Rat.SetString` reads it as a fraction `n/d` with `n = z·d` (its exact value is the integer `z`) -/
theorem parseToBigInt_exp_iff (s : List Char) (z : Int) (h : hasExpChar s = true) :
    parseToBigInt s = some z ↔ hasSlash s = false ∧ ∃ n d, bigRatSetString s = some (n, d) ∧ n = z * d := by
  unfold parseToBigInt
  rw [h]
  simp only [if_true]
  cases hsl : hasSlash s
  · simp only [Bool.false_eq_true, if_false, true_and]
    cases hr : bigRatSetString s with
    | none =>
      simp only []
      constructor
      · intro c; cases c
      · rintro ⟨n, d, c, _⟩; cases c
    | some p =>
      obtain ⟨n, d⟩ := p
      have hd := bigRatSetString_den_pos s n d hr
      simp only []
      constructor
      · intro hz
        by_cases hm : n.natAbs % d = 0
        · have hb : (n.natAbs % d == 0) = true := by simp [hm]
          rw [hb] at hz
          simp only [if_true] at hz
          injection hz with hz
          have hq : n.natAbs / d * d = n.natAbs := Nat.div_mul_cancel (Nat.dvd_of_mod_eq_zero hm)
          have hq' : ((n.natAbs / d : Nat) : Int) * (d : Int) = (n.natAbs : Int) := by
            rw [← Int.natCast_mul, hq]
          refine ⟨n, d, rfl, ?_⟩
          by_cases hn : n < 0
          · rw [if_pos hn] at hz; rw [← hz, Int.neg_mul, hq']; omega
          · rw [if_neg hn] at hz; rw [← hz, hq']; omega
        · have hb : (n.natAbs % d == 0) = false := by simp [hm]
          rw [hb] at hz; cases hz
      · rintro ⟨n', d', e, hz⟩
        injection e with e; injection e with e1 e2
        subst e1; subst e2
        have ha : n.natAbs = z.natAbs * d := by rw [hz, Int.natAbs_mul, Int.natAbs_natCast]
        have hm : n.natAbs % d = 0 := by rw [ha]; exact Nat.mul_mod_left _ _
        have hb : (n.natAbs % d == 0) = true := by simp [hm]
        rw [hb]
        simp only [if_true]
        have hq : n.natAbs / d = z.natAbs := by rw [ha]; exact Nat.mul_div_cancel _ hd
        rw [hq]
        congr 1
        have hdpos : (0 : Int) < (d : Int) := by omega
        by_cases hn : n < 0
        · rw [if_pos hn]
          have : z < 0 := by
            apply Classical.byContradiction; intro c
            have : 0 ≤ z * (d : Int) := Int.mul_nonneg (by omega) (by omega)
            omega
          omega
        · rw [if_neg hn]
          have : 0 ≤ z := by
            apply Classical.byContradiction; intro c
            have : z * (d : Int) < 0 := Int.mul_neg_of_neg_of_pos (by omega) hdpos
            omega
          omega
  · simp only [if_true]
    constructor
    · intro c; cases c
    · rintro ⟨c, _⟩; cases c

end Conv
