import Lemmas.SafeFile
/-! C14, extension: TWO writers on one destination.  Their system calls reach the kernel in some interleaving; each writer
    has its own temporary file (`O_EXCL`), both rename onto the same destination.  Lemmas for `Props/C14Race.lean`. -/
namespace Safe

/-- `Interleave a b l`: `l` is a merge of `a` and `b` that keeps the order inside each -/
inductive Interleave {α : Type} : List α → List α → List α → Prop
  | nil : Interleave [] [] []
  | left {a b l : List α} (x : α) : Interleave a b l → Interleave (x :: a) b (x :: l)
  | right {a b l : List α} (x : α) : Interleave a b l → Interleave a (x :: b) (x :: l)

theorem Interleave.symm {α : Type} {a b l : List α} (h : Interleave a b l) : Interleave b a l := by
  induction h with
  | nil => exact .nil
  | left x _ ih => exact .right x ih
  | right x _ ih => exact .left x ih

theorem Interleave.mem {α : Type} {a b l : List α} (h : Interleave a b l) (x : α) (hx : x ∈ l) : x ∈ a ∨ x ∈ b := by
  induction h with
  | nil => simp at hx
  | left y _ ih =>
    rcases List.mem_cons.mp hx with rfl | hx
    · exact Or.inl (List.mem_cons_self)
    · rcases ih hx with h | h
      · exact Or.inl (List.mem_cons_of_mem _ h)
      · exact Or.inr h
  | right y _ ih =>
    rcases List.mem_cons.mp hx with rfl | hx
    · exact Or.inr (List.mem_cons_self)
    · rcases ih hx with h | h
      · exact Or.inl h
      · exact Or.inr (List.mem_cons_of_mem _ h)

/-- the part of an interleaving before position `i` is an interleaving of a prefix of each, and the element at position
    `i` is the next element of one of the two -/
theorem Interleave.split {α : Type} {a b l : List α} (h : Interleave a b l) :
    ∀ i x, l[i]? = some x → ∃ ia ib, Interleave (a.take ia) (b.take ib) (l.take i) ∧ (a[ia]? = some x ∨ b[ib]? = some x) := by
  induction h with
  | nil => intro i x hx; simp at hx
  | left y _ ih =>
    intro i x hx
    cases i with
    | zero =>
      simp at hx
      exact ⟨0, 0, by simpa using Interleave.nil, Or.inl (by simp [hx])⟩
    | succ i =>
      simp at hx
      obtain ⟨ia, ib, h1, h2⟩ := ih i x hx
      exact ⟨ia + 1, ib, by simpa using Interleave.left y h1, by simpa using h2⟩
  | right y _ ih =>
    intro i x hx
    cases i with
    | zero =>
      simp at hx
      exact ⟨0, 0, by simpa using Interleave.nil, Or.inr (by simp [hx])⟩
    | succ i =>
      simp at hx
      obtain ⟨ia, ib, h1, h2⟩ := ih i x hx
      exact ⟨ia, ib + 1, by simpa using Interleave.right y h1, by simpa using h2⟩

/-- an action of a writer with temporary file `tmp`: it touches `tmp` only, or it is the commit `rename tmp dst` -/
def LocalTo (tmp dst : Path) (a : Act) : Prop := (∀ q ∈ targets a, q = tmp) ∨ a = .rename tmp dst

/-- what a writer's own action does to its temporary file depends on that file only -/
theorem local_apply_eq (u : Nat) (tmp dst : Path) (hne : tmp ≠ dst) (fs1 fs2 : FS) (h : fs1 tmp = fs2 tmp) (a : Act)
    (ha : LocalTo tmp dst a) : applyAct u fs1 a tmp = applyAct u fs2 a tmp := by
  have hd : dst ≠ tmp := fun e => hne e.symm
  rcases ha with ha | rfl
  · cases a with
    | createExcl p m =>
      have : p = tmp := ha p (by simp [targets])
      subst this; simp [applyAct, FS.set]
    | write p c =>
      have : p = tmp := ha p (by simp [targets])
      subst this
      simp only [applyAct, h]
      cases fs2 p <;> simp [FS.set, h]
    | unlink p =>
      have : p = tmp := ha p (by simp [targets])
      subst this; simp [applyAct, FS.set]
    | rename s d =>
      have hs : s = tmp := ha s (by simp [targets])
      have hdd : d = tmp := ha d (by simp [targets])
      rw [hs, hdd]
      simp only [applyAct, h]
      cases fs2 tmp <;> simp [FS.set, h]
    | writeFail _ _ => exact h
    | close _ => exact h
    | closeFail _ => exact h
    | renameFail _ _ => exact h
  · simp only [applyAct, h]
    cases fs2 tmp <;> simp [FS.set, h, hne]

/-- **isolation of the temporary file**: whatever the other writer does in between (it never names this writer's
    temporary file), the temporary file goes through exactly the states of the writer's solo run -/
theorem interleave_tmp (u : Nat) (tmp dst : Path) (hne : tmp ≠ dst) {a b l : List Act} (h : Interleave a b l) :
    (∀ x ∈ a, LocalTo tmp dst x) → (∀ y ∈ b, tmp ∉ targets y) →
    ∀ fs1 fs2 : FS, fs1 tmp = fs2 tmp → run u fs1 l tmp = run u fs2 a tmp := by
  induction h with
  | nil => intro _ _ fs1 fs2 h; exact h
  | left x _ ih =>
    intro ha hb fs1 fs2 h
    simp only [run]
    exact ih (fun y hy => ha y (List.mem_cons_of_mem _ hy)) hb _ _
      (local_apply_eq u tmp dst hne fs1 fs2 h x (ha x List.mem_cons_self))
  | right y _ ih =>
    intro ha hb fs1 fs2 h
    simp only [run]
    apply ih ha (fun z hz => hb z (List.mem_cons_of_mem _ hz))
    rw [apply_untouched u fs1 tmp y (hb y List.mem_cons_self)]
    exact h

/-- **where the content of the destination comes from**: in any sequence of actions of which only renames `s → dst`
    name the destination, after any prefix the destination is what it was, or some earlier `rename s dst` put there what
    `s` held at that moment -/
theorem dst_from_a_rename (u : Nat) (fs : FS) (dst : Path) (l : List Act)
    (hl : ∀ x ∈ l, dst ∉ targets x ∨ ∃ s, s ≠ dst ∧ x = .rename s dst) (k : Nat) :
    run u fs (l.take k) dst = fs dst ∨
    ∃ i s c, i < k ∧ l[i]? = some (.rename s dst) ∧ run u fs (l.take i) s = some c ∧ run u fs (l.take k) dst = some c := by
  induction k with
  | zero => left; simp [run]
  | succ k ih =>
    rw [List.take_add_one]
    cases hx : l[k]? with
    | none =>
      simp only [Option.toList, List.append_nil]
      rcases ih with h | ⟨i, s, c, hi, h1, h2, h3⟩
      · exact Or.inl h
      · exact Or.inr ⟨i, s, c, by omega, h1, h2, h3⟩
    | some x =>
      simp only [Option.toList]
      rw [run_append]
      simp only [run]
      rcases hl x (List.mem_of_getElem? hx) with hnt | ⟨s, hs, rfl⟩
      · rw [apply_untouched u _ dst x hnt]
        rcases ih with h | ⟨i, s, c, hi, h1, h2, h3⟩
        · exact Or.inl h
        · exact Or.inr ⟨i, s, c, by omega, h1, h2, h3⟩
      · simp only [applyAct]
        cases hsrc : run u fs (l.take k) s with
        | none =>
          simp only
          rcases ih with h | ⟨i, s', c, hi, h1, h2, h3⟩
          · exact Or.inl h
          · exact Or.inr ⟨i, s', c, by omega, h1, h2, h3⟩
        | some c =>
          right
          exact ⟨k, s, c, by omega, hx, hsrc, by simp [FS.set]⟩

/-- every action of `WriteFileWithMode` touches the temporary file only, or is the commit rename -/
theorem writeFile_local (tmp dst : Path) (N mode : Nat) (pieces : List Bytes) (cb : CbMode) (fault : Fault) :
    ∀ x ∈ (writeFile tmp dst N mode pieces cb fault).2, LocalTo tmp dst x := by
  rw [writeFile_closed]
  obtain ⟨ws, tl, hacts, hws, htl, _, _⟩ := writeFile_shape tmp dst N mode pieces fault
  rw [hacts]
  intro x hx
  simp only [List.mem_append, List.mem_singleton] at hx
  rcases hx with (rfl | hx) | hx
  · left; intro q hq; simpa [targets] using hq
  · left
    rcases hws x hx with ⟨c, rfl⟩ | ⟨n, rfl⟩ <;> intro q hq <;> simp [targets] at hq
    exact hq
  · cases htl with
    | commit =>
      simp at hx
      rcases hx with rfl | rfl
      · left; intro q hq; simp [targets] at hq
      · right; rfl
    | abort =>
      simp at hx
      rcases hx with rfl | rfl <;> left <;> intro q hq <;> simp [targets] at hq
      exact hq
    | closeFail =>
      simp at hx
      rcases hx with rfl | rfl <;> left <;> intro q hq <;> simp [targets] at hq
      exact hq
    | renameFail =>
      simp at hx
      rcases hx with rfl | rfl | rfl <;> left <;> intro q hq <;> simp [targets] at hq
      exact hq

theorem localTo_not_other (tmp dst q : Path) (hq : q ≠ tmp) (hqd : q ≠ dst) (a : Act) (h : LocalTo tmp dst a) :
    q ∉ targets a := by
  rcases h with h | rfl
  · intro hm; exact hq (h q hm)
  · simp [targets, hq, hqd]

theorem localTo_dst (tmp dst : Path) (hne : tmp ≠ dst) (a : Act) (h : LocalTo tmp dst a) :
    dst ∉ targets a ∨ ∃ s, s ≠ dst ∧ a = .rename s dst := by
  rcases h with h | rfl
  · left; intro hm; exact hne (h dst hm).symm
  · right; exact ⟨tmp, hne, rfl⟩

end Safe
