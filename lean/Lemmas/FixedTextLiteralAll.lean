import Lemmas.FixedTextLiteral
/-! C04 helper lemmas, part 8: FromString on EVERY plain decimal literal (no representability hypothesis): f128
    saturates, f64 wraps around modulo 2^64 or rejects the integer part (`strconv.ParseInt` range error). -/
namespace FixedText

theorem C64.symm {a b : Int} (h : C64 a b) : C64 b a := by
  obtain ⟨k, e⟩ := h
  exact ⟨-k, by rw [e]; ring⟩

/-- congruent numbers have the same int64 residue -/
theorem C64.wrap_congr {a b : Int} (h : C64 a b) : wrap64 a = wrap64 b :=
  C64.wrap_eq (wrap64_fits b) (C64.trans h (C64.symm (C64.wrap b)))

/-- **f128: every plain decimal literal parses to its truncated value, saturated to the 128-bit range** -/
theorem fromStr128_literal_all (p : Nat) (sg : Sign) (ip : Str) (fo : Option Str) (hl : IsLiteral sg ip fo) :
    fromStr128 p (10^p) (litText sg ip fo) = .ok (sat128 (litVal p sg ip fo)) := by
  have hV : ((parseDigits ip * 10^p + fracVal p fo : Nat) : Int) =
      (parseDigits ip : Int) * 10^p + (fracVal p fo : Int) := by push_cast; ring
  have hhead := head128_literal (10^p) sg ip hl.ipd
  unfold litVal
  rw [hV]
  cases fo with
  | none =>
    have hne : ip ≠ [] := by
      rcases hl.one with h | ⟨fp, h, _⟩
      · exact h
      · cases h
    unfold litText
    simp only [List.append_nil]
    rw [fromStr128_nodot p _ _ (sign_ip_clean sg ip hl.ipd) (litText_ne sg ip hne), hhead]
    simp only [tail128, fracVal, Nat.cast_zero, Int.add_zero]
    apply congrArg Res.ok
    by_cases hs : sg = .minus
    · simp only [hs, decide_true, if_true]
    · simp only [hs, decide_false, if_false, Bool.false_eq_true]
  | some fp =>
    obtain ⟨hps, hFlt⟩ := parseSigned_fracBuf p fp (hl.fpd fp rfl)
    simp only [fracVal]
    generalize hF : parseDigits fp * 10^p / 10^fp.length = F at *
    unfold litText
    simp only
    rw [fromStr128_dot p _ _ _ (sign_ip_clean sg ip hl.ipd) (fun c hc => Or.inl (hl.fpd fp rfl c hc)), hhead]
    simp only [tail128, hps]
    apply congrArg Res.ok
    have hsub : (parseDigits ip : Int) * 10^p + ((10^p + F : Nat) : Int) - 10^p =
        (parseDigits ip : Int) * 10^p + (F : Int) := by push_cast; ring
    rw [hsub]
    by_cases hs : sg = .minus
    · simp only [hs, decide_true, if_true]
    · simp only [hs, decide_false, if_false, Bool.false_eq_true]

/-- does the signed integer part of the literal fit in an int64 (what `strconv.ParseInt(parts[0], 10, 64)` accepts) -/
def ipFits64 (sg : Sign) (ip : Str) : Bool :=
  fits64 (if sg = .minus then -(parseDigits ip : Int) else (parseDigits ip : Int))

/-- the `switch parts[0]` rejects a sign ++ digits text whose number is outside int64 -/
theorem head64_literal_none (m : Int) (sg : Sign) (ip : Str) (hd : ∀ c ∈ ip, isDigit c = true)
    (hnf : ipFits64 sg ip = false) : head64 m (sg.bytes ++ ip) = none := by
  unfold ipFits64 at hnf
  have hbig : 2^63 ≤ (parseDigits ip : Int) := by
    simp only [fits64, Bool.and_eq_false_iff, decide_eq_false_iff_not] at hnf
    split at hnf <;> omega
  have hip : ip ≠ [] := by
    intro h; subst h; simp [parseDigits] at hbig
  obtain ⟨c, t, rfl⟩ := List.exists_cons_of_ne_nil hip
  have hc := isDigit_bounds c (hd c (by simp))
  have hpu := parseUnsigned_digits (c :: t) (by simp) hd
  have h48 : c :: t ≠ [48] := by
    intro h; rw [h] at hbig; simp [parseDigits] at hbig
  cases sg
  · simp only [Sign.bytes, List.nil_append]
    have hps : parseInt64 (c :: t) = none := by
      unfold parseInt64
      rw [parseSigned_digit_head c t (hd c (by simp)), hpu]
      have : fits64 ((parseDigits (c :: t) : Nat) : Int) = false := by simpa using hnf
      simp [this]
    unfold head64
    rw [if_neg (by simp; omega), if_neg (by simp; omega), hps]
  · simp only [Sign.bytes, List.singleton_append]
    have hps : parseInt64 (45 :: c :: t) = none := by
      unfold parseInt64
      have : parseSigned (45 :: c :: t) = (parseUnsigned (c :: t)).map (fun n => -(n : Int)) := rfl
      rw [this, hpu]
      have : fits64 (-((parseDigits (c :: t) : Nat) : Int)) = false := by simpa using hnf
      simp [this]
    unfold head64
    rw [if_neg (by simp), if_neg (by simp; intro h1 h2; exact h48 (by rw [h1, h2])), hps]
  · simp only [Sign.bytes, List.singleton_append]
    have hps : parseInt64 (43 :: c :: t) = none := by
      unfold parseInt64
      have : parseSigned (43 :: c :: t) = (parseUnsigned (c :: t)).map (fun n => (n : Int)) := rfl
      rw [this, hpu]
      have : fits64 ((parseDigits (c :: t) : Nat) : Int) = false := by simpa using hnf
      simp [this]
    unfold head64
    rw [if_neg (by simp), if_neg (by simp), hps]

/-- **f64: every plain decimal literal** either has an integer part outside int64 and is rejected, or parses to its
    truncated value reduced modulo 2^64 into the int64 range -/
theorem fromStr64_literal_all (p : Nat) (hp : p ≤ 18) (sg : Sign) (ip : Str) (fo : Option Str)
    (hl : IsLiteral sg ip fo) :
    fromStr64 p (10^p) (litText sg ip fo) =
      if ipFits64 sg ip = true then .ok (wrap64 (litVal p sg ip fo)) else .err := by
  by_cases hf : ipFits64 sg ip = true
  · rw [if_pos hf]
    have hV : ((parseDigits ip * 10^p + fracVal p fo : Nat) : Int) =
        (parseDigits ip : Int) * 10^p + (fracVal p fo : Int) := by push_cast; ring
    obtain ⟨hv, hhead, hC⟩ := head64_literal (10^p) sg ip hl.ipd hf
    have hvfit := head64_fits _ _ _ _ hhead
    unfold litVal
    rw [hV]
    cases fo with
    | none =>
      have hne : ip ≠ [] := by
        rcases hl.one with h | ⟨fp, h, _⟩
        · exact h
        · cases h
      unfold litText
      simp only [List.append_nil]
      rw [fromStr64_nodot p _ _ (sign_ip_clean sg ip hl.ipd) (litText_ne sg ip hne), hhead]
      simp only [tail64, fracVal, Nat.cast_zero, Int.add_zero]
      apply congrArg Res.ok
      by_cases hs : sg = .minus
      · simp only [hs, decide_true, if_true]
        exact C64.wrap_congr (C64.neg hC)
      · simp only [hs, decide_false, if_false, Bool.false_eq_true]
        rw [← wrap64_of_fits hv hvfit]
        exact C64.wrap_congr hC
    | some fp =>
      obtain ⟨hps, hFlt⟩ := parseSigned_fracBuf p fp (hl.fpd fp rfl)
      simp only [fracVal]
      generalize hF : parseDigits fp * 10^p / 10^fp.length = F at *
      have hpi : parseInt64 (fracBuf p fp) = some ((10^p + F : Nat) : Int) := by
        unfold parseInt64
        rw [hps]
        have := pow10_le p hp
        have hf : fits64 ((10^p + F : Nat) : Int) = true := by
          simp only [fits64, Bool.and_eq_true, decide_eq_true_eq]
          omega
        show (if fits64 _ = true then some _ else none) = _
        rw [if_pos hf]
      unfold litText
      simp only
      rw [fromStr64_dot p _ _ _ (sign_ip_clean sg ip hl.ipd) (fun c hc => Or.inl (hl.fpd fp rfl c hc)), hhead]
      simp only [tail64, hpi]
      apply congrArg Res.ok
      have hsub : ((10^p + F : Nat) : Int) - 10^p = (F : Int) := by push_cast; ring
      rw [hsub]
      have hC2 : C64 (wrap64 (hv + (F : Int))) ((parseDigits ip : Int) * 10^p + (F : Int)) :=
        C64.trans (C64.wrap _) (C64.add hC (C64.refl _))
      by_cases hs : sg = .minus
      · simp only [hs, decide_true, if_true]
        exact C64.wrap_congr (C64.neg hC2)
      · simp only [hs, decide_false, if_false, Bool.false_eq_true]
        rw [← wrap64_of_fits _ (wrap64_fits (hv + (F : Int)))]
        exact C64.wrap_congr hC2
  · rw [if_neg hf]
    have hnf : ipFits64 sg ip = false := by simpa using hf
    have hhead := head64_literal_none (10^p) sg ip hl.ipd hnf
    cases fo with
    | none =>
      have hne : ip ≠ [] := by
        rcases hl.one with h | ⟨fp, h, _⟩
        · exact h
        · cases h
      unfold litText
      simp only [List.append_nil]
      rw [fromStr64_nodot p _ _ (sign_ip_clean sg ip hl.ipd) (litText_ne sg ip hne), hhead]
    | some fp =>
      unfold litText
      simp only
      rw [fromStr64_dot p _ _ _ (sign_ip_clean sg ip hl.ipd) (fun c hc => Or.inl (hl.fpd fp rfl c hc)), hhead]

/-- an out-of-range example: "-9223372036854775808" (one place) is accepted and wraps to 0, "9223372036854775808" is
    rejected -/
example : fromStr64 1 10 ([45] ++ natStr (2^63)) = .ok 0 ∧ fromStr64 1 10 (natStr (2^63)) = .err := by decide +kernel

end FixedText
