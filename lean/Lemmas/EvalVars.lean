import Lemmas.EvalFull
import Lemmas.EvalBound
/-! C09: variables inside call arguments.  `replaceVariables` on the raw argument text of a rendered call gives the
    rendering of the arguments with the variables replaced, for resolvers that answer with literals. Core Lean only. -/
namespace Eval

/-! ### `replaceVariables` as a left-to-right substitution -/

/-- with enough fuel (one round per `$`) the loop of `replaceVariables` ends with `s'` -/
def RV (f : Bytes → Bytes) (s s' : Bytes) : Prop := ∀ fuel, s.count 36 < fuel → replaceVars (some f) fuel s = .ok s'

theorem rv_clean (f : Bytes → Bytes) (s : Bytes) (h : (36 : Nat) ∉ s) : RV f s s := by
  intro fuel hf
  cases fuel with
  | zero => omega
  | succ n => simp [replaceVars, splitDollar_none s h]

theorem rv_replaceVariables (f : Bytes → Bytes) (s s' : Bytes) (h : RV f s s') :
    replaceVariables (some f) s = .ok s' := h _ (by omega)

/-- a byte that ends a variable name -/
def Stopper (c : Nat) : Prop := ∀ i, isVarChar (i + 1) c = false

/-- the text does not continue a variable name -/
def StopStart (r : Bytes) : Prop := ∀ c t, r = c :: t → Stopper c

/-- appending the text in front of a text that does not continue a variable name gives such a text -/
def StartOK (y : Bytes) : Prop := ∀ r, StopStart r → StopStart (y ++ r)

theorem startOK_nil : StartOK [] := fun r hr => by simpa using hr

theorem startOK_cons (c : Nat) (t : Bytes) (hc : Stopper c) : StartOK (c :: t) := by
  intro r _ d u h
  simp only [List.cons_append, List.cons.injEq] at h
  rw [← h.1]; exact hc

theorem stopper_blank (c : Nat) (h : isScanSpace c = true) : Stopper c := by
  intro i
  simp [isScanSpace] at h
  rcases h with ((h | h) | h) | h <;> subst h <;> simp [isVarChar]

theorem startOK_blank_append (b z : Bytes) (hb : Blank b) (hz : StartOK z) : StartOK (b ++ z) := by
  cases b with
  | nil => simpa using hz
  | cons c t => exact startOK_cons c _ (stopper_blank c (hb c (by simp)))

theorem splitDollar_append (a t : Bytes) (h : (36 : Nat) ∉ a) : splitDollar (a ++ 36 :: t) = some (a, t) := by
  induction a with
  | nil => simp [splitDollar]
  | cons c r ih =>
    have hc : (c == 36) = false := by
      have : c ≠ 36 := fun e => h (by simp [e])
      simpa using this
    simp [splitDollar, hc, ih (fun hm => h (by simp [hm]))]

theorem varName_stop (i : Nat) (name r : Bytes) (hv : varName i name = (name, [])) (hn : name ≠ [])
    (hr : StopStart r) : varName i (name ++ r) = (name, r) := by
  induction name generalizing i with
  | nil => exact absurd rfl hn
  | cons c t ih =>
    unfold varName at hv
    by_cases hc : isVarChar i c = true
    · simp only [hc, if_true, Prod.mk.injEq, List.cons.injEq, true_and] at hv
      have hv' : varName (i + 1) t = (t, []) := Prod.ext hv.1 hv.2
      simp only [List.cons_append, varName, hc, if_true]
      cases t with
      | nil =>
        cases r with
        | nil => simp [varName]
        | cons d u =>
          have := hr d u rfl i
          simp [varName, this]
      | cons d u =>
        rw [ih (i + 1) hv' (by simp)]
    · simp [hc] at hv

/-- replacing `x` by `x'` inside any text (clean before, not continuing a name after) does not change the result of
    `replaceVariables` -/
def Sub (f : Bytes → Bytes) (x x' : Bytes) : Prop :=
  (36 : Nat) ∉ x' ∧ ∀ a r s, (36 : Nat) ∉ a → StopStart r → RV f (a ++ (x' ++ r)) s → RV f (a ++ (x ++ r)) s

theorem sub_clean (f : Bytes → Bytes) (x : Bytes) (h : (36 : Nat) ∉ x) : Sub f x x := ⟨h, fun _ _ _ _ _ hs => hs⟩

theorem sub_append (f : Bytes → Bytes) (x x' y y' : Bytes) (hx : Sub f x x') (hy : Sub f y y') (hs : StartOK y) :
    Sub f (x ++ y) (x' ++ y') := by
  refine ⟨by
    intro h; rcases List.mem_append.mp h with h | h
    · exact hx.1 h
    · exact hy.1 h, ?_⟩
  intro a r s ha hr hrv
  rw [List.append_assoc]
  apply hx.2 a (y ++ r) s ha (hs r hr)
  have := hy.2 (a ++ x') r s (by
    intro h; rcases List.mem_append.mp h with h | h
    · exact ha h
    · exact hx.1 h) hr (by simpa [List.append_assoc] using hrv)
  simpa [List.append_assoc] using this

theorem sub_clean_left (f : Bytes → Bytes) (x y y' : Bytes) (hx : (36 : Nat) ∉ x) (hy : Sub f y y') :
    Sub f (x ++ y) (x ++ y') := by
  refine ⟨by
    intro h; rcases List.mem_append.mp h with h | h
    · exact hx h
    · exact hy.1 h, ?_⟩
  intro a r s ha hr hrv
  have := hy.2 (a ++ x) r s (by
    intro h; rcases List.mem_append.mp h with h | h
    · exact ha h
    · exact hx h) hr (by simpa [List.append_assoc] using hrv)
  simpa [List.append_assoc] using this

/-- a variable reference is replaced by the resolver's answer -/
theorem sub_var (f : Bytes → Bytes) (name : Bytes) (hn : name ≠ []) (hv : varName 0 name = (name, []))
    (h36 : (36 : Nat) ∉ f name) (ht : trimSpace (f name) ≠ []) : Sub f (36 :: name) (f name) := by
  refine ⟨h36, ?_⟩
  intro a r s ha hr hrv fuel hf
  have hcn : name.count 36 = 0 := by
    have := varName_count 0 name
    rw [hv] at this; exact this
  have hca : a.count 36 = 0 := List.count_eq_zero.mpr ha
  have hcf : (f name).count 36 = 0 := List.count_eq_zero.mpr h36
  have hcount : (a ++ (36 :: name ++ r)).count 36 = 1 + r.count 36 := by
    simp only [List.count_append, List.count_cons_self, hca, hcn]; omega
  cases fuel with
  | zero => omega
  | succ n =>
    have hsd : splitDollar (a ++ (36 :: name ++ r)) = some (a, name ++ r) := by
      simpa using splitDollar_append a (name ++ r) ha
    have hvn := varName_stop 0 name r hv hn hr
    have := hrv n (by simp only [List.count_append, hca, hcf]; omega)
    simp only [replaceVars, hsd, hvn, hn, if_false, ht]
    simpa [List.append_assoc] using this


theorem stopper_of (c : Nat) (h : isVarChar 1 c = false) : Stopper c := by
  intro i
  simp [isVarChar] at h ⊢
  exact h

theorem not36_blank (b : Bytes) (hb : Blank b) : (36 : Nat) ∉ b := (txt_blank 0 b hb).2.2

/-! ### substitution preserves well-formedness, token counts and call depth -/

theorem X.minPrec_substAll (f : Bytes → Bytes) (e : X) : (e.substAll f).minPrec = e.minPrec := by
  cases e <;> simp [X.substAll, X.minPrec]

theorem X.toks_len_substAll (f : Bytes → Bytes) (lp rp : Op) : ∀ e : X,
    (((e.substAll f).toE lp rp).toks lp rp).length = ((e.toE lp rp).toks lp rp).length
  | .atom u x => by simp [X.substAll, X.toE, E.toks]
  | .call u g b args => by simp [X.substAll, X.toE, E.toks]
  | .bin o l r => by
    simp [X.substAll, X.toE, E.toks, X.toks_len_substAll f lp rp l, X.toks_len_substAll f lp rp r]
  | .paren u e => by simp [X.substAll, X.toE, E.toks, X.toks_len_substAll f lp rp e]

mutual
theorem X.substAll_ok (ops : List Op) (fns : List Bytes) (f : Bytes → Bytes) (p : Nat) :
    ∀ e : X, e.WF ops fns p → e.EvAll ops f → (e.substAll f).WF ops fns p ∧ (e.substAll f).Ev
  | .atom u x, hw, he => by
    simp only [X.WF] at hw
    simp only [X.EvAll] at he
    rcases he with he | ⟨name, hx, hn, hv, ha, h44, h36⟩
    · simp only [X.substAll, substAtom_clean f x he.2, X.WF, X.Ev]
      exact ⟨hw, he⟩
    · subst hx
      simp only [X.substAll, substAtom, X.WF, X.Ev]
      exact ⟨⟨hw.1, ha⟩, h44, h36⟩
  | .call u g b args, hw, he => by
    simp only [X.WF] at hw
    simp only [X.EvAll] at he
    have h := XL.substAll_ok ops fns f p args hw.2.2.2.2 he.2.2
    simp only [X.substAll, X.WF, X.Ev]
    exact ⟨⟨hw.1, hw.2.1, hw.2.2.1, hw.2.2.2.1, h.1⟩, he.1, he.2.1, h.2⟩
  | .bin o l r, hw, he => by
    simp only [X.WF] at hw
    simp only [X.EvAll] at he
    have h1 := X.substAll_ok ops fns f p l hw.2.2.2.2.1 he.2.1
    have h2 := X.substAll_ok ops fns f p r hw.2.2.2.2.2.1 he.2.2
    simp only [X.substAll, X.WF, X.Ev, X.minPrec_substAll]
    exact ⟨⟨hw.1, hw.2.1, hw.2.2.1, hw.2.2.2.1, h1.1, h2.1, hw.2.2.2.2.2.2.1, hw.2.2.2.2.2.2.2⟩, he.1, h1.2, h2.2⟩
  | .paren u e, hw, he => by
    simp only [X.WF] at hw
    simp only [X.EvAll] at he
    have h1 := X.substAll_ok ops fns f p e hw.2 he
    simp only [X.substAll, X.WF, X.Ev]
    exact ⟨⟨hw.1, h1.1⟩, h1.2⟩
theorem XL.substAll_ok (ops : List Op) (fns : List Bytes) (f : Bytes → Bytes) (p : Nat) :
    ∀ l : XL, l.WF ops fns p → l.EvAll ops f → (l.substAll f).WF ops fns p ∧ (l.substAll f).Ev
  | .nil, _, _ => by simp [XL.substAll, XL.WF, XL.Ev]
  | .cons a w t, hw, he => by
    simp only [XL.WF] at hw
    simp only [XL.EvAll] at he
    have h1 := X.substAll_ok ops fns f p a hw.1 he.1
    have h2 := XL.substAll_ok ops fns f p t hw.2.2 he.2
    simp only [XL.substAll, XL.WF, XL.Ev]
    exact ⟨⟨h1.1, hw.2.1, h2.1⟩, h1.2, h2.2⟩
end

mutual
theorem X.cd_substAll (f : Bytes → Bytes) : ∀ e : X, (e.substAll f).cd = e.cd
  | .atom u x => by simp [X.substAll, X.cd]
  | .call u g b args => by simp [X.substAll, X.cd, XL.cd_substAll f args]
  | .bin o l r => by simp [X.substAll, X.cd, X.cd_substAll f l, X.cd_substAll f r]
  | .paren u e => by simp [X.substAll, X.cd, X.cd_substAll f e]
theorem XL.cd_substAll (f : Bytes → Bytes) : ∀ l : XL, (l.substAll f).cd = l.cd
  | .nil => by simp [XL.substAll]
  | .cons a w t => by simp [XL.substAll, XL.cd, X.cd_substAll f a, XL.cd_substAll f t]
end

/-! ### the rendering of the substituted expression is the substituted rendering -/

theorem not36_un (ops : List Op) (lp rp : Op) (hF : FullTable ops lp rp) (ws : Nat → Bytes) (hws : ∀ k, Blank (ws k))
    (u : Option Op) (hu : optIn ops u) (k : Nat) : (36 : Nat) ∉ renderP ws k (unTok u) :=
  (txt_un ops lp rp hF ws hws u hu k).2.2

mutual
theorem X.sub_render (ops : List Op) (fns : List Bytes) (f : Bytes → Bytes) (lp rp : Op) (hF : FullTable ops lp rp)
    (hS : ∀ o ∈ ops, ∀ c t, o.sym = c :: t → Stopper c) :
    ∀ e : X, e.WF ops fns lp.prec → e.EvAll ops f → ∀ (ws : Nat → Bytes), (∀ k, Blank (ws k)) → ∀ k,
      Sub f (renderP ws k ((e.toE lp rp).toks lp rp)) (renderP ws k (((e.substAll f).toE lp rp).toks lp rp))
  | .atom u x, hw, he, ws, hws, k => by
    simp only [X.WF] at hw
    simp only [X.EvAll] at he
    have hU := not36_un ops lp rp hF ws hws u hw.1 k
    have hW := not36_blank _ (hws (k + (unTok u).length))
    simp only [X.substAll, X.toE, E.toks, renderP_append, renderP, Tok.bytes, List.append_nil]
    apply sub_clean_left f _ _ _ hU
    apply sub_clean_left f _ _ _ hW
    rcases he with he | ⟨name, hx, hn, hv, ha, h44, h36⟩
    · rw [substAtom_clean f x he.2]; exact sub_clean f x he.2
    · subst hx
      have ht : trimSpace (f name) ≠ [] := by
        have := trimSpace_atom (f name) [] ha.1 ha.2.1 (by intro c hc; cases hc)
        rw [List.append_nil] at this
        rw [this]; exact ha.1
      exact sub_var f name hn hv h36 ht
  | .call u g b args, hw, he, ws, hws, k => by
    simp only [X.WF] at hw
    simp only [X.EvAll] at he
    have hU := not36_un ops lp rp hF ws hws u hw.1 k
    have hW := not36_blank _ (hws (k + (unTok u).length))
    have hB := not36_blank _ hw.2.2.2.1
    have hL := XL.sub_texts ops fns f lp rp hF hS args hw.2.2.2.2 he.2.2
    simp only [X.substAll, X.toE, E.toks, renderP_append, renderP, Tok.bytes, List.append_nil]
    apply sub_clean_left f _ _ _ hU
    apply sub_clean_left f _ _ _ hW
    apply sub_clean_left f _ _ _ he.2.1
    apply sub_clean_left f _ _ _ hB
    have h40 : (36 : Nat) ∉ [40] := by decide
    have h41 : (36 : Nat) ∉ [41] := by decide
    exact sub_clean_left f [40] _ _ h40 (sub_append f _ _ [41] [41] hL (sub_clean f _ h41)
      (startOK_cons 41 [] (stopper_of 41 (by decide))))
  | .bin o l r, hw, he, ws, hws, k => by
    simp only [X.WF] at hw
    simp only [X.EvAll] at he
    obtain ⟨ho, hoL, hoR, _, hwl, hwr, _, _⟩ := hw
    have h1 := X.sub_render ops fns f lp rp hF hS l hwl he.2.1 ws hws k
    have h2 := X.sub_render ops fns f lp rp hF hS r hwr he.2.2 ws hws (k + ((l.toE lp rp).toks lp rp).length + 1)
    have hW := not36_blank _ (hws (k + ((l.toE lp rp).toks lp rp).length))
    have hO : (36 : Nat) ∉ o.sym := (txt_plain 0 _ (hF.symPlain o ho hoL hoR)).2.2
    have hst : StartOK (ws (k + ((l.toE lp rp).toks lp rp).length) ++
        (o.sym ++ renderP ws (k + ((l.toE lp rp).toks lp rp).length + 1) ((r.toE lp rp).toks lp rp))) := by
      apply startOK_blank_append _ _ (hws _)
      cases hsym : o.sym with
      | nil => exact absurd hsym (hF.ne o ho)
      | cons c t => exact startOK_cons c _ (hS o ho c t hsym)
    have h3 := sub_append f _ _ _ _ h1 (sub_clean_left f _ _ _ hW (sub_clean_left f _ _ _ hO h2)) hst
    simpa [X.substAll, X.toE, E.toks, renderP_append, renderP, Tok.bytes, X.toks_len_substAll, Nat.add_assoc] using h3
  | .paren u e, hw, he, ws, hws, k => by
    simp only [X.WF] at hw
    simp only [X.EvAll] at he
    have hU := not36_un ops lp rp hF ws hws u hw.1 k
    have hW := not36_blank _ (hws (k + (unTok u).length))
    have h1 := X.sub_render ops fns f lp rp hF hS e hw.2 he ws hws (k + (unTok u).length + 1)
    have hW2 := not36_blank _ (hws (k + (unTok u).length + 1 + ((e.toE lp rp).toks lp rp).length))
    have h40 : (36 : Nat) ∉ [40] := by decide
    have h41 : (36 : Nat) ∉ [41] := by decide
    have hst : StartOK (ws (k + (unTok u).length + 1 + ((e.toE lp rp).toks lp rp).length) ++ [41]) :=
      startOK_blank_append _ _ (hws _) (startOK_cons 41 [] (stopper_of 41 (by decide)))
    have h3 := sub_clean_left f _ _ _ hU (sub_clean_left f _ _ _ hW (sub_clean_left f [40] _ _ h40
      (sub_append f _ _ _ _ h1 (sub_clean_left f _ _ _ hW2 (sub_clean f [41] h41)) hst)))
    simpa [X.substAll, X.toE, E.toks, renderP_append, renderP, Tok.bytes, X.toks_len_substAll, Nat.add_assoc,
      hF.lpS, hF.rpS, LP, RP] using h3
theorem XL.sub_texts (ops : List Op) (fns : List Bytes) (f : Bytes → Bytes) (lp rp : Op) (hF : FullTable ops lp rp)
    (hS : ∀ o ∈ ops, ∀ c t, o.sym = c :: t → Stopper c) :
    ∀ l : XL, l.WF ops fns lp.prec → l.EvAll ops f →
      Sub f (joinComma (l.texts lp rp)) (joinComma ((l.substAll f).texts lp rp))
  | .nil, _, _ => by
    simp only [XL.substAll, XL.texts, joinComma]
    exact sub_clean f [] (by simp)
  | .cons a w .nil, hw, he => by
    simp only [XL.WF] at hw
    simp only [XL.EvAll] at he
    have h1 := X.sub_render ops fns f lp rp hF hS a hw.1 he.1 w hw.2.1 0
    have hW := not36_blank _ (hw.2.1 (0 + ((a.toE lp rp).toks lp rp).length))
    have hst : StartOK (w (0 + ((a.toE lp rp).toks lp rp).length)) := by
      have := startOK_blank_append _ [] (hw.2.1 (0 + ((a.toE lp rp).toks lp rp).length)) startOK_nil
      simpa using this
    have h3 := sub_append f _ _ _ _ h1 (sub_clean f _ hW) hst
    simpa [XL.substAll, XL.texts, joinComma, render_eq, X.toks_len_substAll] using h3
  | .cons a w (.cons a2 w2 t2), hw, he => by
    simp only [XL.WF] at hw
    simp only [XL.EvAll] at he
    have h1 := X.sub_render ops fns f lp rp hF hS a hw.1 he.1 w hw.2.1 0
    have hW := not36_blank _ (hw.2.1 (0 + ((a.toE lp rp).toks lp rp).length))
    have h2 := XL.sub_texts ops fns f lp rp hF hS (.cons a2 w2 t2) (by simpa only [XL.WF] using hw.2.2)
      (by simpa only [XL.EvAll] using he.2)
    have h44 : (36 : Nat) ∉ [44] := by decide
    have hst : StartOK (w (0 + ((a.toE lp rp).toks lp rp).length) ++
        ([44] ++ joinComma ((XL.cons a2 w2 t2).texts lp rp))) :=
      startOK_blank_append _ _ (hw.2.1 _) (startOK_cons 44 _ (stopper_of 44 (by decide)))
    have h3 := sub_append f _ _ _ _ h1 (sub_clean_left f _ _ _ hW (sub_clean_left f [44] _ _ h44 h2)) hst
    simpa [XL.substAll, XL.texts, joinComma, render_eq, X.toks_len_substAll, List.append_assoc] using h3
end


/-- `replaceVariables` on the argument text of a rendered call = the argument text of the substituted call -/
theorem XL.replaceVariables_texts (ops : List Op) (fns : List Bytes) (f : Bytes → Bytes) (lp rp : Op)
    (hF : FullTable ops lp rp) (hS : ∀ o ∈ ops, ∀ c t, o.sym = c :: t → Stopper c) (l : XL)
    (hw : l.WF ops fns lp.prec) (he : l.EvAll ops f) :
    replaceVariables (some f) (joinComma (l.texts lp rp)) = .ok (joinComma ((l.substAll f).texts lp rp)) := by
  have hsub := XL.sub_texts ops fns f lp rp hF hS l hw he
  apply rv_replaceVariables
  have := hsub.2 [] [] (joinComma ((l.substAll f).texts lp rp)) (by simp) (by intro c t h; cases h)
    (by simpa using rv_clean f _ hsub.1)
  simpa using this

/-! ### evaluation with variables anywhere -/

theorem X.eval_tree_all (ops : List Op) (fns : List Bytes) (f : Bytes → Bytes) (lp rp : Op)
    (hF : FullTable ops lp rp) (hS : ∀ o ∈ ops, ∀ c t, o.sym = c :: t → Stopper c) :
    ∀ e : X, e.WF ops fns lp.prec → e.EvAll ops f → ∀ depth, e.cd ≤ depth →
      evalNode (evaluate ops fns (some f) depth) (replaceVariables (some f)) (e.toE lp rp).toTree =
        .ok (some (e.substAll f).str)
  | .atom u x, _, he, depth, _ => by
    simp only [X.EvAll] at he
    rcases he with he | ⟨name, hx, hn, hv, ha, h44, h36⟩
    · simp [X.toE, E.toTree, evalNode, replaceVariables_id (some f) x he.2, X.str, X.substAll,
        substAtom_clean f x he.2]
    · subst hx
      have ht : trimSpace (f name) ≠ [] := by
        have := trimSpace_atom (f name) [] ha.1 ha.2.1 (by intro c hc; cases hc)
        rw [List.append_nil] at this
        rw [this]; exact ha.1
      simp [X.toE, E.toTree, evalNode, replaceVariables_var f name hn hv h36 ht, X.str, X.substAll, substAtom]
  | .call u g b args, hw, he, depth, hd => by
    simp only [X.WF] at hw
    simp only [X.EvAll] at he
    cases depth with
    | zero => simp [X.cd] at hd
    | succ d =>
      have hd' : (args.substAll f).cd ≤ d := by rw [XL.cd_substAll]; simp only [X.cd] at hd; omega
      have hrv := XL.replaceVariables_texts ops fns f lp rp hF hS args hw.2.2.2.2 he.2.2
      have hok := XL.substAll_ok ops fns f lp.prec args hw.2.2.2.2 he.2.2
      have hargs := XL.eval_args ops fns (some f) lp rp hF (args.substAll f) hok.1 hok.2 d hd'
        ((joinComma ((args.substAll f).texts lp rp)).length + 1) (Nat.lt_succ_self _)
      simp only [X.toE, E.toTree, evalNode, hrv, hargs, X.str, X.substAll]
  | .bin o l r, hw, he, depth, hd => by
    simp only [X.WF] at hw
    simp only [X.EvAll] at he
    have hdl : l.cd ≤ depth := by simp only [X.cd] at hd; omega
    have hdr : r.cd ≤ depth := by simp only [X.cd] at hd; omega
    have h1 := X.eval_tree_all ops fns f lp rp hF hS l hw.2.2.2.2.1 he.2.1 depth hdl
    have h2 := X.eval_tree_all ops fns f lp rp hF hS r hw.2.2.2.2.2.1 he.2.2 depth hdr
    simp [X.toE, E.toTree, evalNode, h1, h2, X.toTree_isNil, he.1, X.str, applyUn, X.substAll]
  | .paren u e, hw, he, depth, hd => by
    simp only [X.WF] at hw
    simp only [X.EvAll] at he
    have h1 := X.eval_tree_all ops fns f lp rp hF hS e hw.2 he depth (by simpa only [X.cd] using hd)
    cases u with
    | none => simpa [X.toE, E.toTree, wrapN, X.str, X.substAll] using h1
    | some v =>
      have hv : v.un = true := (hw.1 v rfl).2
      simp [X.toE, E.toTree, wrapN, evalNode, h1, X.toTree_isNil, Node.isNil, Option.filter, hv, X.str, X.substAll]

/-- **Evaluate ∘ render = bracketed form of the substituted expression**, variables anywhere -/
theorem X.evaluate_render_all (ops : List Op) (fns : List Bytes) (f : Bytes → Bytes) (lp rp : Op)
    (hF : FullTable ops lp rp) (hS : ∀ o ∈ ops, ∀ c t, o.sym = c :: t → Stopper c) (e : X)
    (hw : e.WF ops fns lp.prec) (he : e.EvAll ops f) (ws : Nat → Bytes) (hws : ∀ k, Blank (ws k)) (depth : Nat)
    (hd : e.cd ≤ depth) :
    evaluate ops fns (some f) (depth + 1) (e.render lp rp ws) = .ok (e.substAll f).str := by
  simp only [evaluate, X.parse_render ops fns lp rp hF e hw ws hws, X.tree,
    X.eval_tree_all ops fns f lp rp hF hS e hw he depth hd]


mutual
theorem X.strip_substAll (f : Bytes → Bytes) : ∀ e : X, (e.substAll f).strip = (e.strip).substAll f
  | .atom u x => by simp [X.substAll, X.strip]
  | .call u g b args => by simp [X.substAll, X.strip, XL.strip_substAll f args]
  | .bin o l r => by simp [X.substAll, X.strip, X.strip_substAll f l, X.strip_substAll f r]
  | .paren u e => by simp [X.substAll, X.strip, X.strip_substAll f e]
theorem XL.strip_substAll (f : Bytes → Bytes) : ∀ l : XL, (l.substAll f).strip = (l.strip).substAll f
  | .nil => by simp [XL.substAll, XL.strip]
  | .cons a w t => by simp [XL.substAll, XL.strip, X.strip_substAll f a, XL.strip_substAll f t]
end

/-- expressions that differ only in blank runs have the same value after substitution -/
theorem X.str_substAll_of_strip (f : Bytes → Bytes) (e₁ e₂ : X) (h : e₁.strip = e₂.strip) :
    (e₁.substAll f).str = (e₂.substAll f).str := by
  rw [← X.str_strip (e₁.substAll f), ← X.str_strip (e₂.substAll f), X.strip_substAll, X.strip_substAll, h]

/-- a Boolean check of the table condition "no operator symbol starts with a variable character" -/
theorem opStop_of_all (ops : List Op)
    (h : ops.all (fun o => match o.sym with | c :: _ => !isVarChar 1 c | [] => true) = true) :
    ∀ o ∈ ops, ∀ c t, o.sym = c :: t → Stopper c := by
  intro o ho c t hs
  have := List.all_eq_true.mp h o ho
  rw [hs] at this
  exact stopper_of c (by simpa using this)

end Eval
