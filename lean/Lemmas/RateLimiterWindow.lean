import Model.RateLimiterWindow
/-! C16: every outcome of the window exploration is a run of the transition relation. Core Lean. -/
namespace RL

theorem Steps.trans {s t u : S} (a : Steps s t) (b : Steps t u) : Steps s u := by
  induction b with
  | refl => exact a
  | tail v w _ hw ih => exact .tail _ _ _ ih hw

theorem Steps.of_micro (s : S) (m : Micro) : Steps s (micro s m) := by
  rcases micro_step s m with h | h
  · rw [h]; exact .refl s
  · exact .tail _ _ _ (.refl s) h

/-- every successor is reached by one named step -/
theorem nexts_step (s : S) (ths : List (List Micro)) (c : S × List (List Micro)) (h : c ∈ nexts s ths) :
    ∃ m, c.1 = micro s m := by
  simp only [nexts, List.mem_filterMap] at h
  obtain ⟨i, _, hi⟩ := h
  split at hi
  · cases hi
  · rename_i m rest _
    split at hi
    · cases hi; exact ⟨m, rfl⟩
    · cases hi

/-- **soundness of the exploration**: every final state it lists is reached from the start by steps of `RL.Step` -/
theorem explore_sound (fuel : Nat) : ∀ (s : S) (ths : List (List Micro)) (s' : S),
    some s' ∈ explore fuel s ths → Steps s s' := by
  induction fuel with
  | zero => intro s ths s' h; simp [explore] at h
  | succ fuel ih =>
    intro s ths s' h
    simp only [explore] at h
    split at h
    · simp at h; subst h; exact .refl _
    · split at h
      · simp at h
      · simp only [List.mem_flatMap] at h
        obtain ⟨c, hc, hs⟩ := h
        obtain ⟨m, hm⟩ := nexts_step s ths c hc
        have := ih c.1 c.2 s' hs
        rw [hm] at this
        exact (Steps.of_micro s m).trans this

/-- a step the exploration does not take because `enabledM` says it cannot move does not move: skipping it loses no
    behaviour -/
theorem micro_of_not_enabled (s : S) (m : Micro) (h : enabledM s m = false) : micro s m = s := by
  cases m <;> simp_all [enabledM, micro]
  · intro a b c; have := h a c; rw [b] at this; cases this
  · intro a b; have := h b; rw [a] at this; cases this

/-- an interleaving of the threads `ths` from `s`, `n` steps long: again and again some thread whose next step is enabled
    takes it, until every thread has finished -/
inductive Interleaving : Nat → S → List (List Micro) → S → Prop
  | done (s : S) (ths : List (List Micro)) (h : ths.all List.isEmpty = true) : Interleaving 0 s ths s
  | step (n : Nat) (s s' : S) (ths : List (List Micro)) (i : Nat) (m : Micro) (rest : List Micro) (hi : i < ths.length)
      (hth : ths.getD i [] = m :: rest) (hen : enabledM s m = true)
      (tail : Interleaving n (micro s m) (ths.set i rest) s') : Interleaving (n + 1) s ths s'

/-- **completeness of the exploration**: the final state of every interleaving shorter than the fuel is listed -/
theorem explore_complete {n : Nat} {s s' : S} {ths : List (List Micro)} (h : Interleaving n s ths s') :
    ∀ fuel, n < fuel → some s' ∈ explore fuel s ths := by
  induction h with
  | done s ths h =>
    intro fuel hf
    cases fuel with
    | zero => omega
    | succ fuel => simp [explore, h]
  | step n s s' ths i m rest hi hth hen tail ih =>
    intro fuel hf
    cases fuel with
    | zero => omega
    | succ fuel =>
      have hmem : (micro s m, ths.set i rest) ∈ nexts s ths := by
        simp only [nexts, List.mem_filterMap]
        refine ⟨i, List.mem_range.mpr hi, ?_⟩
        have hth' : ths[i]?.getD [] = m :: rest := hth
        simp only [List.getD_eq_getElem?_getD, hth', hen, if_true]
      have hne : ¬ (ths.all List.isEmpty = true) := by
        intro hall
        have hget : ths[i]? = some (m :: rest) := by
          have : ths.getD i [] = (ths[i]?).getD [] := rfl
          rw [this] at hth
          cases hq : ths[i]? with
          | none => rw [hq] at hth; cases hth
          | some v => rw [hq] at hth; simp at hth; rw [hth]
        have hin : (m :: rest) ∈ ths := List.mem_of_getElem? hget
        have := List.all_eq_true.mp hall _ hin
        simp at this
      have hnn : (nexts s ths).isEmpty = false := by
        cases hq : nexts s ths with
        | nil => rw [hq] at hmem; cases hmem
        | cons a b => rfl
      simp only [explore, hne, if_false, hnn, Bool.false_eq_true]
      exact List.mem_flatMap.mpr ⟨_, hmem, ih fuel (by omega)⟩

end RL
