import Lemmas.ExtractStepTar
/-! C19: exact reproduction of a well-formed archive extracted into an empty destination directory.  Generic in the
    loop body `one` (tar or zip): everything that is needed of it is `Sys` (it only performs primitive effects) and
    `Step` on ready paths. -/
namespace Ex

/-- the path at which an entry is extracted -/
abbrev Entry.path (root : P) (e : Entry) : P := cleanJoin root e.name

/-- strictly below the root -/
def Below (root p : P) : Prop := ∃ c t, p = root ++ c :: t

theorem Below.prefix {root p : P} (h : Below root p) : root <+: p := by
  obtain ⟨c, t, e⟩ := h; exact ⟨c :: t, e.symm⟩

theorem Below.ne {root p : P} (h : Below root p) : p ≠ root := by
  intro e'
  have := below_len h
  rw [e'] at this; omega

theorem below_of {root q : P} (h1 : root <+: q) (h2 : q ≠ root) : Below root q := by
  obtain ⟨t, e⟩ := h1
  cases t with
  | nil => simp at e; exact absurd e.symm h2
  | cons c t => exact ⟨c, t, e.symm⟩

/-- order and conflict conditions between an earlier entry `a` and a later entry `b`: `b` is neither `a`'s path nor an
    ancestor of it (no duplicates, parents come first), and `b` lies beneath `a` only if `a` is a directory entry -/
def Compat (root : P) (a b : Entry) : Prop :=
  ¬ b.path root <+: a.path root ∧ (a.path root <+: b.path root → a.kind = .dir)

/-- hard-link targets name (the cleaned path of) an earlier regular-file or hard-link entry -/
def LinksOK (root : P) (es : List Entry) : Prop :=
  ∀ l1 e l2, es = l1 ++ e :: l2 → e.kind = .link →
    ∃ t ∈ l1, (t.kind = .reg ∨ t.kind = .link) ∧ t.path root = cleanJoin root e.link

/-- the state after the entries `done` have been extracted into an empty (or missing) destination -/
structure Inv (root : P) (mask : Nat) (fs' : FS) (done : List Entry) : Prop where
  wf : WF fs'
  ino : InoOK fs'
  rootdir : fs'.get root = none ∨ ∃ m, fs'.get root = some (.dir m)
  anc : ∀ j, 1 ≤ j → j < root.length → fs'.get (root.take j) = none ∨ ∃ m, fs'.get (root.take j) = some (.dir m)
  below : ∀ e ∈ done, Below root (e.path root)
  present : ∀ e ∈ done, ∃ n, fs'.get (e.path root) = some n ∧ NodeOf root mask fs' e n
  exact : ∀ q, Below root q → ∀ n, fs'.get q = some n → ∃ e ∈ done, q <+: e.path root
  implied : ∀ l1 e l2, done = l1 ++ e :: l2 → ∀ q, Below root q → q <+: e.path root → q ≠ e.path root →
    (∀ e' ∈ l1, ¬ q <+: e'.path root) → fs'.get q = some (.dir (pmode e &&& mask))
  regs : done.Pairwise (fun a b => a.kind = .reg → b.kind = .reg → fs'.get (a.path root) ≠ fs'.get (b.path root))

theorem prefix_take {q p : P} (h : q <+: p) : q = p.take q.length := List.prefix_iff_eq_take.mp h

theorem prefix_lt {q p : P} (h : q <+: p) (hne : q ≠ p) : q.length < p.length := by
  rcases Nat.lt_or_ge q.length p.length with h1 | h1
  · exact h1
  · exact absurd (h.eq_of_length_le h1) hne

/-- in a well-formed tree every non-empty proper prefix of an existing path is a directory -/
theorem wf_prefix_dir' (fs : FS) (hw : WF fs) (p q : P) (n : Nd) (hp : fs.get p = some n) (hq : q <+: p)
    (hne : q ≠ p) (hnil : q ≠ []) : ∃ m, fs.get q = some (.dir m) := by
  have := wf_prefix_dir fs hw p n hp q.length (List.length_pos_iff.mpr hnil) (prefix_lt hq hne)
  rw [← prefix_take hq] at this
  exact this

theorem Below.ne_nil {root q : P} (h : Below root q) : q ≠ [] := below_ne_nil h

theorem nodeOf_file {root : P} {mask : Nat} {fs' : FS} {e : Entry} {n : Nd} (h : NodeOf root mask fs' e n)
    (hk : e.kind = .reg ∨ e.kind = .link) : ∃ ino, n = .file ino := by
  rcases hk with hk | hk
  · obtain ⟨ino, _, h1, _⟩ := h.1 hk; exact ⟨ino, h1⟩
  · obtain ⟨ino, h1, _⟩ := h.2.2.2 hk; exact ⟨ino, h1⟩

/-- the invariant and the order conditions make the path of the next entry ready -/
theorem Inv.ready {root : P} {mask : Nat} {fs' : FS} {done : List Entry} (hinv : Inv root mask fs' done) (e : Entry)
    (hb : Below root (e.path root)) (hc : ∀ d ∈ done, Compat root d e) : Ready fs' root (e.path root) := by
  refine ⟨hb, hinv.rootdir, ?_, ?_⟩
  · cases hg : fs'.get (e.path root) with
    | none => rfl
    | some n =>
      obtain ⟨d, hd, hpre⟩ := hinv.exact _ hb n hg
      exact absurd hpre (hc d hd).1
  · intro j h1 h2
    cases hg : fs'.get ((e.path root).take j) with
    | none => exact Or.inl rfl
    | some n =>
      right
      rw [← hg]
      by_cases hj : j ≤ root.length
      · -- at or above the root
        obtain ⟨c, t, ep⟩ := hb
        have e1 : (e.path root).take j = root.take j := by
          rw [ep, List.take_append_of_le_length hj]
        rw [e1] at hg ⊢
        by_cases hj' : j = root.length
        · rw [hj', List.take_length] at hg ⊢
          rcases hinv.rootdir with h0 | h0
          · rw [h0] at hg; cases hg
          · exact h0
        · rcases hinv.anc j h1 (by omega) with h0 | h0
          · rw [h0] at hg; cases hg
          · exact h0
      · -- strictly below the root: it is (a prefix of) an earlier entry
        have hq : Below root ((e.path root).take j) := by
          obtain ⟨c, t, ep⟩ := hb
          refine below_of ?_ ?_
          · rw [ep, List.take_append, List.take_of_length_le (by omega)]
            exact List.prefix_append _ _
          · intro e'
            have := congrArg List.length e'
            rw [List.length_take] at this; omega
        obtain ⟨d, hd, hpre⟩ := hinv.exact _ hq n hg
        obtain ⟨nd, hnd, hnode⟩ := hinv.present d hd
        by_cases heq : (e.path root).take j = d.path root
        · have hdir := (hc d hd).2 (by rw [← heq]; exact List.take_prefix _ _)
          rw [heq, hnd]
          exact ⟨_, congrArg some (hnode.2.1 hdir)⟩
        · exact wf_prefix_dir' fs' hinv.wf _ _ nd hnd hpre heq hq.ne_nil

theorem snoc_inj {α : Type} {l1 l2 : List α} {a b : α} (h : l1 ++ [a] = l2 ++ [b]) : l1 = l2 ∧ a = b := by
  obtain ⟨h1, h2⟩ := List.append_inj' h rfl
  exact ⟨h1, by simpa using h2⟩

theorem nodeOf_mono {root : P} {mask : Nat} {fs' fs2 : FS} {e : Entry} {n : Nd} (h : NodeOf root mask fs' e n)
    (hmono : ∀ q n, fs'.get q = some n → fs2.get q = some n)
    (hkeep : ∀ i, i < fs'.inodes.size → fs2.inodes[i]? = fs'.inodes[i]?) : NodeOf root mask fs2 e n := by
  refine ⟨fun hk => ?_, h.2.1, h.2.2.1, fun hk => ?_⟩
  · obtain ⟨ino, nd, h1, h2, h3, h4⟩ := h.1 hk
    have hlt : ino < fs'.inodes.size := by
      rcases Nat.lt_or_ge ino fs'.inodes.size with h | h
      · exact h
      · rw [Array.getElem?_eq_none h] at h2; cases h2
    exact ⟨ino, nd, h1, by rw [hkeep ino hlt]; exact h2, h3, h4⟩
  · obtain ⟨ino, h1, h2⟩ := h.2.2.2 hk
    exact ⟨ino, h1, hmono _ _ h2⟩

/-- one more entry -/
theorem Inv.step {root : P} {mask : Nat} {fs' : FS} {done : List Entry} (hinv : Inv root mask fs' done) (e : Entry)
    (r : FS × Bool) (hsys : Sys root fs' r.1) (hst : Step root mask e fs' r) (hb : Below root (e.path root)) :
    Inv root mask r.1 (done ++ [e]) := by
  have hmono : ∀ q n, fs'.get q = some n → r.1.get q = some n := fun q n => hsys.mono q n
  have hwf2 : WF r.1 := hsys.wf hinv.wf
  obtain ⟨n2, hn2, hnode2⟩ := hst.node
  have hsame : ∀ d ∈ done, r.1.get (d.path root) = fs'.get (d.path root) := by
    intro d hd
    obtain ⟨n, h1, _⟩ := hinv.present d hd
    rw [hmono _ _ h1, h1]
  have hnd : ∀ q, q ≠ e.path root → (fs'.get q = none ∨ ∃ m, fs'.get q = some (.dir m)) →
      (r.1.get q = none ∨ ∃ m, r.1.get q = some (.dir m)) := by
    intro q hq h
    rcases hst.change q hq with h1 | ⟨_, h2, _⟩
    · rw [h1]; exact h
    · exact Or.inr ⟨_, h2⟩
  refine ⟨hwf2, hsys.inoOK hinv.ino, hnd root hb.ne.symm hinv.rootdir, ?_, ?_, ?_, ?_, ?_, ?_⟩
  · intro j h1 h2
    refine hnd _ ?_ (hinv.anc j h1 h2)
    intro e'
    have := congrArg List.length e'
    have hl := below_len hb
    rw [List.length_take] at this; omega
  · intro d hd
    rcases List.mem_append.mp hd with hd | hd
    · exact hinv.below d hd
    · simp at hd; subst hd; exact hb
  · intro d hd
    rcases List.mem_append.mp hd with hd | hd
    · obtain ⟨n, h1, h2⟩ := hinv.present d hd
      exact ⟨n, hmono _ _ h1, nodeOf_mono h2 hmono hst.keep⟩
    · simp at hd; subst hd; exact hst.node
  · intro q hq n hg
    by_cases hqp : q = e.path root
    · exact ⟨e, by simp, by rw [hqp]; exact List.prefix_refl _⟩
    · rcases hst.change q hqp with h1 | ⟨_, _, h3, _⟩
      · rw [h1] at hg
        obtain ⟨d, hd, hpre⟩ := hinv.exact q hq n hg
        exact ⟨d, List.mem_append_left _ hd, hpre⟩
      · exact ⟨e, by simp, h3⟩
  · intro l1 x l2 hdec q hq hpre hne hfirst
    rcases List.eq_nil_or_concat l2 with hl2 | ⟨l2', b, hl2⟩
    · -- `x` is the new entry
      subst hl2
      obtain ⟨e1, e2⟩ := snoc_inj hdec
      subst e1; subst e2
      have hnone : fs'.get q = none := by
        cases hg : fs'.get q with
        | none => rfl
        | some n =>
          obtain ⟨d, hd, hp⟩ := hinv.exact q hq n hg
          exact absurd hp (hfirst d hd)
      rcases hst.change q hne with h1 | ⟨_, h2, _, _⟩
      · obtain ⟨m, hm⟩ := wf_prefix_dir' r.1 hwf2 _ q n2 hn2 hpre hne hq.ne_nil
        rw [h1, hnone] at hm; cases hm
      · exact h2
    · -- `x` is an earlier entry
      subst hl2
      have hdec' : done ++ [e] = (l1 ++ x :: l2') ++ [b] := by rw [hdec]; simp
      obtain ⟨e1, _⟩ := snoc_inj hdec'
      exact hmono _ _ (hinv.implied l1 x l2' e1 q hq hpre hne hfirst)
  · refine List.pairwise_append.mpr ⟨?_, List.pairwise_singleton _ _, ?_⟩
    · refine List.Pairwise.imp_of_mem ?_ hinv.regs
      intro a b ha hb h k1 k2
      rw [hsame a ha, hsame b hb]; exact h k1 k2
    · intro a ha b hb k1 k2
      simp at hb; subst hb
      rw [hsame a ha, hst.fresh k2]
      obtain ⟨n, h1, h2⟩ := hinv.present a ha
      obtain ⟨ino, hino⟩ := nodeOf_file h2 (Or.inl k1)
      rw [h1, hino]
      intro heq
      have hlt := hinv.ino _ _ (hino ▸ h1)
      simp at heq
      omega

theorem Inv.init (root : P) (mask : Nat) (fs : FS) (hw : WF fs) (hio : InoOK fs)
    (hdst : fs.get root = none ∨ ∃ m, fs.get root = some (.dir m))
    (hanc : ∀ j, 1 ≤ j → j < root.length → fs.get (root.take j) = none ∨ ∃ m, fs.get (root.take j) = some (.dir m))
    (hempty : ∀ q, Below root q → fs.get q = none) :
    Inv root mask fs [] := by
  refine ⟨hw, hio, hdst, hanc, fun e he => (by cases he), fun e he => (by cases he), ?_, ?_, List.Pairwise.nil⟩
  · intro q hq n hg; rw [hempty q hq] at hg; cases hg
  · intro l1 e l2 h; simp at h

/-- the generic loop: every entry is extracted, the invariant holds at the end -/
theorem extractWith_exact (root : P) (mask : Nat) (one : FS → Entry → FS × Bool)
    (hsys : ∀ fs e, Sys root fs (one fs e).1) (ok : Entry → Prop)
    (hstep : ∀ fs e, WF fs → ok e → Ready fs root (e.path root) →
      (e.kind = .link → ∃ ino, fs.get (cleanJoin root e.link) = some (.file ino) ∧ Below root (cleanJoin root e.link)) →
      Step root mask e fs (one fs e)) :
    ∀ (rest done : List Entry) (fs' : FS), Inv root mask fs' done →
      (∀ e ∈ done ++ rest, Below root (e.path root) ∧ ok e) → (done ++ rest).Pairwise (Compat root) →
      LinksOK root (done ++ rest) →
      (extractWith one fs' rest).2 = true ∧ Inv root mask (extractWith one fs' rest).1 (done ++ rest) := by
  intro rest
  induction rest with
  | nil => intro done fs' hinv _ _ _; rw [List.append_nil]; exact ⟨rfl, hinv⟩
  | cons e rest ih =>
    intro done fs' hinv hall hpw hlinks
    have he := hall e (by simp)
    have hc : ∀ d ∈ done, Compat root d e := by
      intro d hd
      exact (List.pairwise_append.mp hpw).2.2 d hd e (by simp)
    have hrd := hinv.ready e he.1 hc
    have hlk : e.kind = .link → ∃ ino, fs'.get (cleanJoin root e.link) = some (.file ino) ∧
        Below root (cleanJoin root e.link) := by
      intro hk
      obtain ⟨t, ht, htk, htp⟩ := hlinks done e rest rfl hk
      obtain ⟨n, hn, hnode⟩ := hinv.present t ht
      obtain ⟨ino, hino⟩ := nodeOf_file hnode htk
      rw [← htp]
      exact ⟨ino, by rw [hn, hino], (hall t (List.mem_append_left _ ht)).1⟩
    have hst := hstep fs' e hinv.wf he.2 hrd hlk
    have hinv' := hinv.step e (one fs' e) (hsys fs' e) hst he.1
    have hassoc : (done ++ [e]) ++ rest = done ++ e :: rest := by simp
    rw [extractWith_cons, if_pos hst.ok]
    have := ih (done ++ [e]) (one fs' e).1 hinv' (by rw [hassoc]; exact hall) (by rw [hassoc]; exact hpw)
      (by rw [hassoc]; exact hlinks)
    rw [hassoc] at this
    exact this

end Ex
