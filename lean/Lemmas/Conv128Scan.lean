import Lemmas.Conv128Grammar
/-! C02 helper lemmas, part 12 (core Lean only): `Scan` — text printed with a base verb (optional sign, any zero
    padding, digits of the value in that base) reads back with the same verb. -/
namespace Conv

/-- digit `d < 16` as a lower-case character -/
def baseDigitChar (d : Nat) : Char := if d < 10 then Char.ofNat (48 + d) else Char.ofNat (87 + d)

/-- digits of `n` in base `b ≥ 2`, most significant first, no leading zero (`big.Int.Text(b)`) -/
def baseDigits (b n : Nat) : List Char :=
  if h : 2 ≤ b ∧ b ≤ n then baseDigits b (n / b) ++ [baseDigitChar (n % b)] else [baseDigitChar n]
termination_by n
decreasing_by
  have : 0 < n := by omega
  exact Nat.div_lt_self this (by omega)

def zeros (k : Nat) : List Char := List.replicate k '0'

theorem digitVal_baseDigitChar (d : Nat) (h : d < 16) : digitVal (baseDigitChar d) = d := by
  have : d = 0 ∨ d = 1 ∨ d = 2 ∨ d = 3 ∨ d = 4 ∨ d = 5 ∨ d = 6 ∨ d = 7 ∨ d = 8 ∨ d = 9 ∨ d = 10 ∨ d = 11 ∨ d = 12 ∨
      d = 13 ∨ d = 14 ∨ d = 15 := by omega
  rcases this with rfl | rfl | rfl | rfl | rfl | rfl | rfl | rfl | rfl | rfl | rfl | rfl | rfl | rfl | rfl | rfl <;> decide

theorem baseDigits_unfold (b n : Nat) :
    baseDigits b n = if 2 ≤ b ∧ b ≤ n then baseDigits b (n / b) ++ [baseDigitChar (n % b)] else [baseDigitChar n] := by
  rw [baseDigits]; split <;> rfl

/-- every character is a digit of the base -/
theorem baseDigits_lt (b : Nat) (hb : 2 ≤ b) (hb16 : b ≤ 16) (n : Nat) : ∀ c ∈ baseDigits b n, digitVal c < b := by
  induction n using Nat.strongRecOn with
  | _ n ih =>
    rw [baseDigits_unfold]
    by_cases h : 2 ≤ b ∧ b ≤ n
    · rw [if_pos h]; intro c hc
      rw [List.mem_append] at hc
      rcases hc with hc | hc
      · exact ih (n / b) (Nat.div_lt_self (by omega) (by omega)) c hc
      · simp at hc; subst hc
        have := Nat.mod_lt n (by omega : 0 < b)
        rw [digitVal_baseDigitChar _ (by omega)]; exact this
    · rw [if_neg h]; intro c hc; simp at hc; subst hc
      rw [digitVal_baseDigitChar _ (by omega)]; omega

theorem baseDigits_ne_nil (b n : Nat) : baseDigits b n ≠ [] := by
  rw [baseDigits_unfold]; split <;> simp

theorem valFrom_append_digit (b acc : Nat) (l : List Char) (c : Char) (hc : c ≠ '_') :
    valFrom b acc (l ++ [c]) = valFrom b acc l * b + digitVal c := by
  unfold valFrom
  rw [List.foldl_append]
  simp only [List.foldl_cons, List.foldl_nil, if_neg hc]

theorem digit_ne_us {c : Char} {b : Nat} (h : digitVal c < b) (hb : b ≤ 36) : c ≠ '_' := by
  intro e; subst e; have : digitVal '_' = 63 := by decide
  omega

/-- Horner value of the digits is the number -/
theorem valFrom_baseDigits (b : Nat) (hb : 2 ≤ b) (hb16 : b ≤ 16) (n : Nat) : valFrom b 0 (baseDigits b n) = n := by
  induction n using Nat.strongRecOn with
  | _ n ih =>
    rw [baseDigits_unfold]
    by_cases h : 2 ≤ b ∧ b ≤ n
    · rw [if_pos h]
      have hm := Nat.mod_lt n (by omega : 0 < b)
      have hd : digitVal (baseDigitChar (n % b)) = n % b := digitVal_baseDigitChar _ (by omega)
      rw [valFrom_append_digit _ _ _ _ (digit_ne_us (b := b) (by rw [hd]; exact hm) (by omega)),
        ih (n / b) (Nat.div_lt_self (by omega) (by omega)), hd]
      exact Nat.div_add_mod' n b
    · rw [if_neg h]
      have hd : digitVal (baseDigitChar n) = n := digitVal_baseDigitChar _ (by omega)
      have hne : baseDigitChar n ≠ '_' := digit_ne_us (b := b) (by rw [hd]; omega) (by omega)
      unfold valFrom
      simp only [List.foldl_cons, List.foldl_nil, if_neg hne, hd]; omega

theorem valFrom_zeros (b : Nat) (k : Nat) (l : List Char) : valFrom b 0 (zeros k ++ l) = valFrom b 0 l := by
  induction k with
  | zero => rfl
  | succ k ih =>
    have : zeros (k + 1) ++ l = '0' :: (zeros k ++ l) := by simp [zeros, List.replicate_succ]
    rw [this]
    unfold valFrom at ih ⊢
    simp only [List.foldl_cons]
    have h0 : ('0' : Char) ≠ '_' := by decide
    have hv : digitVal '0' = 0 := by decide
    rw [if_neg h0, hv]; simpa using ih

/-- a non-empty run of digits of the base is a digit sequence of the grammar (no separators at all) -/
theorem sepDigits_of_all (b : Nat) (p : Bool) (l : List Char) (hne : l ≠ []) (h : ∀ c ∈ l, digitVal c < b) :
    SepDigits b p l := by
  induction l generalizing p with
  | nil => exact absurd rfl hne
  | cons c t ih =>
    by_cases ht : t = []
    · subst ht; exact SepDigits.last p c (h c (by simp))
    · exact SepDigits.digit p c t (h c (by simp)) (ih true ht (fun d hd => h d (by simp [hd])))

theorem zeros_lt (b : Nat) (hb : 2 ≤ b) (k : Nat) : ∀ c ∈ zeros k, digitVal c < b := by
  intro c hc
  have : c = '0' := List.eq_of_mem_replicate hc
  subst this
  have : digitVal '0' = 0 := by decide
  omega

/-- the padded digit string: all characters are digits of the base, it is not empty, its value is the number -/
theorem padded_facts (b : Nat) (hb : 2 ≤ b) (hb16 : b ≤ 16) (k n : Nat) :
    (∀ c ∈ zeros k ++ baseDigits b n, digitVal c < b) ∧ zeros k ++ baseDigits b n ≠ [] ∧
      digitsVal b (zeros k ++ baseDigits b n) = n := by
  refine ⟨?_, ?_, ?_⟩
  · intro c hc
    rcases List.mem_append.mp hc with h | h
    · exact zeros_lt b hb k c h
    · exact baseDigits_lt b hb hb16 n c h
  · intro h; exact baseDigits_ne_nil b n (List.append_eq_nil_iff.mp h).2
  · unfold digitsVal; rw [valFrom_zeros, valFrom_baseDigits b hb hb16]

/-! ## scanText on such a text -/

def IsSign (sg : List Char) : Prop := sg = [] ∨ sg = ['+'] ∨ sg = ['-']

theorem splitSign_body (sg body : List Char) (hsg : IsSign sg) (b : Nat) (hb : b ≤ 36) (hne : body ≠ [])
    (h : ∀ c ∈ body, digitVal c < b) : splitSign (sg ++ body) = (sg, body) := by
  rcases hsg with rfl | rfl | rfl
  · cases body with
    | nil => exact absurd rfl hne
    | cons c t =>
      have hc := h c (by simp)
      have h1 : c ≠ '+' := by intro e; subst e; have : digitVal '+' = 63 := by decide
                              omega
      have h2 : c ≠ '-' := by intro e; subst e; have : digitVal '-' = 63 := by decide
                              omega
      simp only [List.nil_append, splitSign]
      rw [if_neg (by intro hh; rcases hh with hh | hh <;> contradiction)]
  · simp [splitSign]
  · simp [splitSign]

theorem not_prefixed (letters body : List Char) (b : Nat) (h : ∀ c ∈ body, digitVal c < b)
    (hl : ∀ l ∈ letters, b ≤ digitVal l) : isBasePrefixed letters body = false := by
  unfold isBasePrefixed
  split
  · rename_i c t
    have hc := h c (by simp)
    cases hcon : letters.contains c
    · rfl
    · have := hl c (by simpa using hcon)
      omega
  · rfl

/-- `scanText` of `sign ++ digits` under a base verb other than `d`: the prefix is inserted after the sign -/
theorem scanText_base (verb : Char) (pfx letters : List Char) (hv : verbPrefix verb = some (pfx, letters)) (hd : verb ≠ 'd')
    (sg body : List Char) (hsg : IsSign sg) (b : Nat) (hb : b ≤ 36) (hne : body ≠ [])
    (h : ∀ c ∈ body, digitVal c < b) (hl : ∀ l ∈ letters, b ≤ digitVal l) :
    scanText (sg ++ body) verb = sg ++ pfx ++ body := by
  unfold scanText
  rw [hv]
  simp only []
  rw [splitSign_body sg body hsg b hb hne h]
  simp only []
  rw [not_prefixed letters body b h hl, if_neg hd]
  simp

/-- a signed prefixed literal parses to the signed value -/
theorem parse_of_body (sg body : List Char) (v : Nat) (hsg : IsSign sg) (hb : PlainBody body v)
    (he : hasExpChar (sg ++ body) = false) :
    parseToBigInt (sg ++ body) = some (if sg = ['-'] then -(v : Int) else (v : Int)) := by
  have : parseToBigInt (sg ++ body) = bigIntSetString (sg ++ body) := by unfold parseToBigInt; rw [he]; rfl
  rw [this, bigIntSetString_iff]
  rcases hsg with rfl | rfl | rfl
  · exact ⟨[], body, v, rfl, hb, Or.inl ⟨Or.inl rfl, by simp⟩⟩
  · exact ⟨['+'], body, v, rfl, hb, Or.inl ⟨Or.inr rfl, by simp⟩⟩
  · exact ⟨['-'], body, v, rfl, hb, Or.inr ⟨rfl, by simp⟩⟩

theorem hasExp_append (a b : List Char) : hasExpChar (a ++ b) = (hasExpChar a || hasExpChar b) := by
  unfold hasExpChar; rw [List.any_append]

theorem hasExp_sign (sg : List Char) (h : IsSign sg) : hasExpChar sg = false := by
  rcases h with rfl | rfl | rfl <;> decide

/-- digits below 14 cannot be an exponent character -/
theorem hasExp_digits (b : Nat) (hb : b ≤ 14) (l : List Char) (h : ∀ c ∈ l, digitVal c < b) : hasExpChar l = false := by
  unfold hasExpChar
  rw [List.any_eq_false]
  intro c hc
  have := h c hc
  simp only [decide_eq_true_eq]
  intro hh
  rcases hh with hh | hh
  · subst hh; have : digitVal 'E' = 14 := by decide
    omega
  · subst hh; have : digitVal 'e' = 14 := by decide
    omega

/-- **binary, octal, hexadecimal**: `sign ++ zero padding ++ digits of n`, scanned with the verb of the base, parses to
    `±n`.  For base 16 the digit string must not contain the digit `e` (such texts take the `big.Rat` branch of
    `parseToBigInt`; they are covered by the correspondence run only). -/
theorem scan_parse_base (verb c : Char) (b : Nat) (letters : List Char)
    (hv : verbPrefix verb = some (['0', c], letters)) (hd : verb ≠ 'd')
    (hc : (c = 'b' ∧ b = 2) ∨ (c = 'o' ∧ b = 8) ∨ (c = 'x' ∧ b = 16))
    (hl : ∀ l ∈ letters, b ≤ digitVal l)
    (sg : List Char) (hsg : IsSign sg) (k n : Nat) (he : hasExpChar (baseDigits b n) = false) :
    parseToBigInt (scanText (sg ++ (zeros k ++ baseDigits b n)) verb) =
      some (if sg = ['-'] then -(n : Int) else (n : Int)) := by
  have hb2 : 2 ≤ b := by rcases hc with ⟨_, e⟩ | ⟨_, e⟩ | ⟨_, e⟩ <;> omega
  have hb16 : b ≤ 16 := by rcases hc with ⟨_, e⟩ | ⟨_, e⟩ | ⟨_, e⟩ <;> omega
  obtain ⟨hall, hne, hval⟩ := padded_facts b hb2 hb16 k n
  rw [scanText_base verb _ letters hv hd sg _ hsg b (by omega) hne hall hl]
  have hsd := sepDigits_of_all b true _ hne hall
  have hbody : PlainBody ('0' :: c :: (zeros k ++ baseDigits b n)) n := by
    rcases hc with ⟨e1, e2⟩ | ⟨e1, e2⟩ | ⟨e1, e2⟩
    · subst e1; subst e2; have := PlainBody.bin 'b' _ (Or.inl rfl) hsd; rwa [hval] at this
    · subst e1; subst e2; have := PlainBody.oct 'o' _ (Or.inl rfl) hsd; rwa [hval] at this
    · subst e1; subst e2; have := PlainBody.hex 'x' _ (Or.inl rfl) hsd; rwa [hval] at this
  have hexp : hasExpChar (sg ++ ('0' :: c :: (zeros k ++ baseDigits b n))) = false := by
    have hz : hasExpChar (zeros k) = false := hasExp_digits 2 (by omega) _ (zeros_lt 2 (by omega) k)
    have hpc : hasExpChar ['0', c] = false := by
      rcases hc with ⟨e1, _⟩ | ⟨e1, _⟩ | ⟨e1, _⟩ <;> (subst e1; decide)
    have : sg ++ ('0' :: c :: (zeros k ++ baseDigits b n)) = sg ++ (['0', c] ++ (zeros k ++ baseDigits b n)) := rfl
    rw [this, hasExp_append, hasExp_append, hasExp_append, hasExp_sign sg hsg, hpc, hz, he]; rfl
  have := parse_of_body sg _ n hsg hbody hexp
  simpa using this

/-! ## verb d -/

theorem natDigits_eq_baseDigits (n : Nat) : natDigits n = baseDigits 10 n := by
  induction n using Nat.strongRecOn with
  | _ n ih =>
    rw [natDigits_unfold, baseDigits_unfold]
    by_cases h : n < 10
    · rw [if_pos h, if_neg (by omega)]
      unfold digitChar baseDigitChar; rw [if_pos h]
    · rw [if_neg h, if_pos (by omega), ih (n / 10) (by omega)]
      unfold digitChar baseDigitChar; rw [if_pos (by omega)]

theorem trimZeros_zeros (k : Nat) (l : List Char) : trimZeros (zeros k ++ l) = trimZeros l := by
  induction k with
  | zero => rfl
  | succ k ih =>
    have : zeros (k + 1) ++ l = '0' :: (zeros k ++ l) := by simp [zeros, List.replicate_succ]
    rw [this]; simp only [trimZeros, if_true]; exact ih

/-- dropping the padding of a padded decimal rendering gives the rendering -/
theorem dropPadding_padded (k n : Nat) : dropPadding (zeros k ++ natDigits n) = natDigits n := by
  unfold dropPadding
  rw [trimZeros_zeros]
  by_cases hn : n = 0
  · subst hn
    rw [natDigits_zero]
    have : trimZeros ['0'] = [] := by simp [trimZeros]
    rw [this]
    simp only []
    have hne : zeros k ++ ['0'] ≠ [] := by simp
    rw [if_pos ⟨hne, fun h => hne h.symm⟩]
  · obtain ⟨c, t, e, hc, h0⟩ := natDigits_head n hn
    rw [e]
    have hc0 : c ≠ '0' := fun h => h0 (by rw [h]; rfl)
    have : trimZeros (c :: t) = c :: t := by simp only [trimZeros, if_neg hc0]
    rw [this]
    simp only []
    unfold IsDec at hc
    rw [if_pos hc]

theorem plainBody_natDigits (n : Nat) : PlainBody (natDigits n) n := by
  by_cases hn : n = 0
  · subst hn; rw [natDigits_zero]; exact PlainBody.zero
  · obtain ⟨c, t, e, hc, h0⟩ := natDigits_head n hn
    have hc0 : c ≠ '0' := fun h => h0 (by rw [h]; rfl)
    have hall : ∀ d ∈ natDigits n, digitVal d < 10 := by
      rw [natDigits_eq_baseDigits]; exact baseDigits_lt 10 (by omega) (by omega) n
    have hval : digitsVal 10 (natDigits n) = n := by
      unfold digitsVal; rw [natDigits_eq_baseDigits]; exact valFrom_baseDigits 10 (by omega) (by omega) n
    have hsd := sepDigits_of_all 10 false (natDigits n) (natDigits_ne_nil n) hall
    rw [e] at hsd hval ⊢
    have := PlainBody.dec c t hc0 hsd
    rwa [hval] at this

/-- **decimal**: `sign ++ zero padding ++ decimal digits of n`, scanned with the verb `d`, parses to `±n` -/
theorem scan_parse_dec (sg : List Char) (hsg : IsSign sg) (k n : Nat) :
    parseToBigInt (scanText (sg ++ (zeros k ++ natDigits n)) 'd') = some (if sg = ['-'] then -(n : Int) else (n : Int)) := by
  have hall : ∀ c ∈ zeros k ++ natDigits n, digitVal c < 10 := by
    rw [natDigits_eq_baseDigits]; exact (padded_facts 10 (by omega) (by omega) k n).1
  have hne : zeros k ++ natDigits n ≠ [] := by
    intro h; exact natDigits_ne_nil n (List.append_eq_nil_iff.mp h).2
  have hst : scanText (sg ++ (zeros k ++ natDigits n)) 'd' = sg ++ natDigits n := by
    unfold scanText
    have hv : verbPrefix 'd' = some ([], ['b', 'B', 'o', 'O', 'x', 'X']) := by decide
    rw [hv]
    simp only []
    rw [splitSign_body sg _ hsg 10 (by omega) hne hall]
    simp only []
    rw [not_prefixed _ _ 10 hall (by intro l hl; simp at hl; rcases hl with rfl | rfl | rfl | rfl | rfl | rfl <;> decide)]
    simp only [Bool.false_eq_true, if_false, if_true, List.append_nil]
    rw [dropPadding_padded]
  rw [hst]
  have hexp : hasExpChar (sg ++ natDigits n) = false := by
    rw [hasExp_append, hasExp_sign sg hsg]
    have : ∀ c ∈ natDigits n, digitVal c < 10 := by
      rw [natDigits_eq_baseDigits]; exact baseDigits_lt 10 (by omega) (by omega) n
    rw [hasExp_digits 10 (by omega) _ this]; rfl
  exact parse_of_body sg _ n hsg (plainBody_natDigits n) hexp

/-! ## instances per verb, and the two types -/

theorem letters_ge (letters : List Char) (b : Nat) (h : letters.all (fun l => decide (b ≤ digitVal l)) = true) :
    ∀ l ∈ letters, b ≤ digitVal l := by
  intro l hl
  have := List.all_eq_true.mp h l hl
  simpa using this

theorem scan_parse_bin (sg : List Char) (hsg : IsSign sg) (k n : Nat) :
    parseToBigInt (scanText (sg ++ (zeros k ++ baseDigits 2 n)) 'b') = some (if sg = ['-'] then -(n : Int) else (n : Int)) :=
  scan_parse_base 'b' 'b' 2 ['b', 'B'] (by decide) (by decide) (Or.inl ⟨rfl, rfl⟩) (letters_ge _ _ (by decide)) sg hsg k n
    (hasExp_digits 2 (by omega) _ (baseDigits_lt 2 (by omega) (by omega) n))

theorem scan_parse_oct (verb : Char) (hv : verb = 'o' ∨ verb = 'O') (sg : List Char) (hsg : IsSign sg) (k n : Nat) :
    parseToBigInt (scanText (sg ++ (zeros k ++ baseDigits 8 n)) verb) = some (if sg = ['-'] then -(n : Int) else (n : Int)) := by
  have he := hasExp_digits 8 (by omega) _ (baseDigits_lt 8 (by omega) (by omega) n)
  rcases hv with rfl | rfl
  · exact scan_parse_base 'o' 'o' 8 ['o', 'O'] (by decide) (by decide) (Or.inr (Or.inl ⟨rfl, rfl⟩)) (letters_ge _ _ (by decide))
      sg hsg k n he
  · exact scan_parse_base 'O' 'o' 8 ['o', 'O'] (by decide) (by decide) (Or.inr (Or.inl ⟨rfl, rfl⟩)) (letters_ge _ _ (by decide))
      sg hsg k n he

theorem scan_parse_hex (verb : Char) (hv : verb = 'x' ∨ verb = 'X') (sg : List Char) (hsg : IsSign sg) (k n : Nat)
    (he : hasExpChar (baseDigits 16 n) = false) :
    parseToBigInt (scanText (sg ++ (zeros k ++ baseDigits 16 n)) verb) = some (if sg = ['-'] then -(n : Int) else (n : Int)) := by
  rcases hv with rfl | rfl
  · exact scan_parse_base 'x' 'x' 16 ['x', 'X'] (by decide) (by decide) (Or.inr (Or.inr ⟨rfl, rfl⟩)) (letters_ge _ _ (by decide))
      sg hsg k n he
  · exact scan_parse_base 'X' 'x' 16 ['x', 'X'] (by decide) (by decide) (Or.inr (Or.inr ⟨rfl, rfl⟩)) (letters_ge _ _ (by decide))
      sg hsg k n he

/-- the sign a rendering of `z` may carry: `-` for a negative value, nothing or (flag `+`) a `+` otherwise -/
def SignFor (z : Int) (sg : List Char) : Prop := if z < 0 then sg = ['-'] else (sg = [] ∨ sg = ['+'])

theorem signFor_isSign {z : Int} {sg : List Char} (h : SignFor z sg) : IsSign sg := by
  unfold SignFor at h; unfold IsSign
  split at h
  · exact Or.inr (Or.inr h)
  · rcases h with h | h
    · exact Or.inl h
    · exact Or.inr (Or.inl h)

theorem signFor_value {z : Int} {sg : List Char} (h : SignFor z sg) :
    (if sg = ['-'] then -(z.natAbs : Int) else (z.natAbs : Int)) = z := by
  unfold SignFor at h
  split at h
  · rw [if_pos h]; omega
  · have : sg ≠ ['-'] := by rcases h with h | h <;> (rw [h]; decide)
    rw [if_neg this]; omega

/-- once the text parses to the value, `Scan` returns the value (both types) -/
theorem scan_of_parse_u (u : U128) (t : List Char) (verb : Char)
    (h : parseToBigInt (scanText t verb) = some (u.toNat : Int)) : U128.scan t verb = some u := by
  unfold U128.scan U128.fromString
  rw [h]
  show some (U128.fromBigInt u.asBigInt) = some u
  rw [U128.fromBigInt_asBigInt]

theorem scan_of_parse_i (i : I128) (t : List Char) (verb : Char)
    (h : parseToBigInt (scanText t verb) = some i.toInt) : I128.scan t verb = some i := by
  unfold I128.scan I128.fromString
  rw [h]
  show some (I128.fromBigInt i.toInt) = some i
  rw [← I128.asBigInt_eq, I128.fromBigInt_asBigInt]

end Conv
