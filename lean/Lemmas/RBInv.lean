import Model.RBTree
set_option linter.unusedSimpArgs false
set_option linter.unusedVariables false
/-! C06 helper lemmas, part 1: the red-black balance invariants (`balB` equal black height, `noRR` no red node with a
    red child) are preserved by `insert` and `remove` through every fix-up case; height bound from the invariants.
    Core tactics only. -/
namespace RB
namespace T
variable {K V : Type}

def bh : T K V → Nat
  | nil => 1
  | node c l _ _ _ => bh l + (if c = .black then 1 else 0)
def balB : T K V → Prop
  | nil => True
  | node _ l _ _ r => balB l ∧ balB r ∧ bh l = bh r
def noRR : T K V → Prop
  | nil => True
  | node c l _ _ r => noRR l ∧ noRR r ∧ (c = .red → l.isRed = false ∧ r.isRed = false)

theorem bh_pos (t : T K V) : 1 ≤ bh t := by
  induction t with
  | nil => simp [bh]
  | node c l k v r ihl _ => simp [bh]; omega

/-- result record of a fix-up, to keep statements readable -/
def FixPost (c : Color) (bhOther : Nat) (p : T K V × Bool) : Prop :=
  balB p.1 ∧ noRR p.1 ∧ bh p.1 + (if p.2 then 1 else 0) = bhOther + (if c = .black then 1 else 0) ∧
  (p.2 = true → p.1.isRed = false) ∧ (c = .red → p.2 = false) ∧ (c = .black → p.1.isRed = false)

theorem isRed_node_black (l : T K V) (k : K) (v : V) (r : T K V) : (node .black l k v r).isRed = false := rfl
theorem isRed_node_red (l : T K V) (k : K) (v : V) (r : T K V) : (node .red l k v r).isRed = true := rfl
theorem isRed_nil : (nil : T K V).isRed = false := rfl

theorem fixDefBlackSib_L (c : Color) (l : T K V) (k : K) (v : V) (sl : T K V) (sk : K) (sv : V) (sr : T K V)
    (hl : balB l) (hlr : noRR l) (hlb : l.isRed = false)
    (hsl : balB sl) (hsr : balB sr) (hsb : bh sl = bh sr) (hnl : noRR sl) (hnr : noRR sr)
    (hdef : bh l = bh sl) :
    FixPost c (bh sl + 1) (fixDefBlackSib (node c l k v (node .black sl sk sv sr)) .L) := by
  unfold FixPost
  by_cases h1 : sl.isRed = true
  · -- near nephew red
    rcases sl with _ | ⟨slc, sll, slk, slv, slr⟩
    · simp [isRed] at h1
    cases slc with
    | black => simp [isRed] at h1
    | red =>
      simp [balB, noRR, bh] at hsl hnl hsb hdef
      by_cases h2 : sr.isRed = true
      · rcases sr with _ | ⟨src, srl, srk, srv, srr⟩
        · simp [isRed] at h2
        cases src with
        | black => simp [isRed] at h2
        | red =>
          simp [balB, noRR, bh] at hsr hnr hsb
          cases c <;>
            simp [fixDefBlackSib, isRed_node_black, isRed_node_red, isRed_nil, isBlack, setBlack, rotL, rotR, balB, noRR, bh, *] <;> omega
      · have h2' : sr.isRed = false := by simpa using h2
        cases c <;>
          simp [fixDefBlackSib, isRed_node_black, isRed_node_red, isRed_nil, isBlack, setBlack, rotL, rotR, balB, noRR, bh, *] <;> omega
  · have h1' : sl.isRed = false := by simpa using h1
    by_cases h2 : sr.isRed = true
    · rcases sr with _ | ⟨src, srl, srk, srv, srr⟩
      · simp [isRed] at h2
      cases src with
      | black => simp [isRed] at h2
      | red =>
        simp [balB, noRR, bh] at hsr hnr hsb
        cases c <;>
          simp [fixDefBlackSib, isRed_node_black, isRed_node_red, isRed_nil, isBlack, setBlack, rotL, rotR, balB, noRR, bh, *] <;> omega
    · have h2' : sr.isRed = false := by simpa using h2
      cases c <;>
        simp [fixDefBlackSib, isRed_node_black, isRed_node_red, isRed_nil, isBlack, setBlack, rotL, rotR, balB, noRR, bh, *] <;> omega

theorem fixDef_L (c : Color) (l : T K V) (k : K) (v : V) (r : T K V)
    (hl : balB l) (hlr : noRR l) (hlb : l.isRed = false)
    (hr : balB r) (hrr : noRR r) (hdef : bh l + 1 = bh r) (hc : c = .red → r.isRed = false) :
    FixPost c (bh r) (fixDef (node c l k v r) .L) := by
  have hlpos := bh_pos l
  rcases r with _ | ⟨rc, sl, sk, sv, sr⟩
  · have : bh (nil : T K V) = 1 := rfl
    omega
  cases rc with
  | black =>
    simp [balB, noRR, bh] at hr hrr hdef
    have h := fixDefBlackSib_L c l k v sl sk sv sr hl hlr hlb hr.1 hr.2.1 hr.2.2 hrr.1 hrr.2 (by omega)
    simpa [fixDef, isRed_node_black, bh] using h
  | red =>
    have hcb : c = .black := by
      cases c with
      | black => rfl
      | red => simp [isRed_node_red] at hc
    subst hcb
    simp [balB, noRR, bh, isRed_node_red] at hr hrr hdef
    obtain ⟨hbsl, hbsr, hbeq⟩ := hr
    obtain ⟨hnsl, hnsr, hslb, hsrb⟩ := hrr
    -- the near nephew sl is black and non-nil
    rcases sl with _ | ⟨slc, sll, slk, slv, slr⟩
    · have : bh (nil : T K V) = 1 := rfl
      omega
    cases slc with
    | red => simp [isRed_node_red] at hslb
    | black =>
      simp [balB, noRR, bh] at hbsl hnsl hdef hbeq
      have h := fixDefBlackSib_L .red l k v sll slk slv slr hl hlr hlb hbsl.1 hbsl.2.1 hbsl.2.2 hnsl.1 hnsl.2 (by omega)
      unfold FixPost at h ⊢
      obtain ⟨p1, p2, p3, p4, p5, p6⟩ := h
      have hd : (fixDefBlackSib (node .red l k v (node .black sll slk slv slr)) .L).2 = false := p5 rfl
      simp [hd] at p3
      simp [fixDef, isRed_node_red, setBlack, rotL, balB, noRR, bh, isRed_node_black, *]
      omega

theorem fixDefBlackSib_R (c : Color) (r : T K V) (k : K) (v : V) (sl : T K V) (sk : K) (sv : V) (sr : T K V)
    (hl : balB r) (hlr : noRR r) (hlb : r.isRed = false)
    (hsl : balB sl) (hsr : balB sr) (hsb : bh sl = bh sr) (hnl : noRR sl) (hnr : noRR sr)
    (hdef : bh r = bh sl) :
    FixPost c (bh sl + 1) (fixDefBlackSib (node c (node .black sl sk sv sr) k v r) .R) := by
  unfold FixPost
  by_cases h1 : sr.isRed = true
  · rcases sr with _ | ⟨src, srl, srk, srv, srr⟩
    · simp [isRed_nil] at h1
    cases src with
    | black => simp [isRed_node_black] at h1
    | red =>
      simp [balB, noRR, bh] at hsr hnr hsb hdef
      by_cases h2 : sl.isRed = true
      · rcases sl with _ | ⟨slc, sll, slk, slv, slr⟩
        · simp [isRed_nil] at h2
        cases slc with
        | black => simp [isRed_node_black] at h2
        | red =>
          simp [balB, noRR, bh] at hsl hnl hsb hdef
          cases c <;>
            simp [fixDefBlackSib, isRed_node_black, isRed_node_red, isRed_nil, isBlack, setBlack, rotL, rotR, balB, noRR, bh, *] <;> omega
      · have h2' : sl.isRed = false := by simpa using h2
        cases c <;>
          simp [fixDefBlackSib, isRed_node_black, isRed_node_red, isRed_nil, isBlack, setBlack, rotL, rotR, balB, noRR, bh, *] <;> omega
  · have h1' : sr.isRed = false := by simpa using h1
    by_cases h2 : sl.isRed = true
    · rcases sl with _ | ⟨slc, sll, slk, slv, slr⟩
      · simp [isRed_nil] at h2
      cases slc with
      | black => simp [isRed_node_black] at h2
      | red =>
        simp [balB, noRR, bh] at hsl hnl hsb hdef
        cases c <;>
          simp [fixDefBlackSib, isRed_node_black, isRed_node_red, isRed_nil, isBlack, setBlack, rotL, rotR, balB, noRR, bh, *] <;> omega
    · have h2' : sl.isRed = false := by simpa using h2
      cases c <;>
        simp [fixDefBlackSib, isRed_node_black, isRed_node_red, isRed_nil, isBlack, setBlack, rotL, rotR, balB, noRR, bh, *] <;> omega

theorem fixDef_R (c : Color) (l : T K V) (k : K) (v : V) (r : T K V)
    (hr : balB r) (hrr : noRR r) (hrb : r.isRed = false)
    (hl : balB l) (hlr : noRR l) (hdef : bh r + 1 = bh l) (hc : c = .red → l.isRed = false) :
    FixPost c (bh l) (fixDef (node c l k v r) .R) := by
  have hrpos := bh_pos r
  rcases l with _ | ⟨lc, sl, sk, sv, sr⟩
  · have : bh (nil : T K V) = 1 := rfl
    omega
  cases lc with
  | black =>
    simp [balB, noRR, bh] at hl hlr hdef
    have h := fixDefBlackSib_R c r k v sl sk sv sr hr hrr hrb hl.1 hl.2.1 hl.2.2 hlr.1 hlr.2 (by omega)
    simpa [fixDef, isRed_node_black, bh] using h
  | red =>
    have hcb : c = .black := by
      cases c with
      | black => rfl
      | red => simp [isRed_node_red] at hc
    subst hcb
    simp [balB, noRR, bh, isRed_node_red] at hl hlr hdef
    obtain ⟨hbsl, hbsr, hbeq⟩ := hl
    obtain ⟨hnsl, hnsr, hslb, hsrb⟩ := hlr
    rcases sr with _ | ⟨src, srl, srk, srv, srr⟩
    · have : bh (nil : T K V) = 1 := rfl
      omega
    cases src with
    | red => simp [isRed_node_red] at hsrb
    | black =>
      simp [balB, noRR, bh] at hbsr hnsr hdef hbeq
      have h := fixDefBlackSib_R .red r k v srl srk srv srr hr hrr hrb hbsr.1 hbsr.2.1 hbsr.2.2 hnsr.1 hnsr.2 (by omega)
      unfold FixPost at h ⊢
      obtain ⟨p1, p2, p3, p4, p5, p6⟩ := h
      have hd : (fixDefBlackSib (node .red (node .black srl srk srv srr) k v r) .R).2 = false := p5 rfl
      simp [hd] at p3
      simp [fixDef, isRed_node_red, setBlack, rotR, balB, noRR, bh, isRed_node_black, *]

def DelPost (t : T K V) (p : T K V × Bool) : Prop :=
  balB p.1 ∧ noRR p.1 ∧ bh p.1 + (if p.2 then 1 else 0) = bh t ∧
  (p.2 = true → p.1.isRed = false) ∧ (t.isRed = true → p.2 = false) ∧ (t.isRed = false → p.1.isRed = false)

theorem bh_one_black (t : T K V) (h1 : bh t = 1) (h2 : t.isRed = false) : t = nil := by
  rcases t with _ | ⟨c, l, k, v, r⟩
  · rfl
  · cases c with
    | red => simp [isRed_node_red] at h2
    | black => have := bh_pos l; simp [bh] at h1; omega

theorem isRed_setBlack (t : T K V) : t.setBlack.isRed = false := by
  rcases t with _ | ⟨c, l, k, v, r⟩ <;> simp [setBlack, isRed_nil, isRed_node_black]

/-- removing a node one of whose children is `nil` (`other` is the remaining child) -/
theorem spliceOut_post (c : Color) (other : T K V) (t : T K V) (hbh : bh t = 1 + (if c = .black then 1 else 0))
    (hred : t.isRed = (c == .red))
    (ho : balB other) (hno : noRR other) (hb1 : bh other = 1) (hc : c = .red → other.isRed = false) :
    DelPost t (spliceOut c other) := by
  unfold DelPost spliceOut
  cases c with
  | red =>
    have := bh_one_black other hb1 (hc rfl)
    subst this
    simp [balB, noRR, bh, isRed_nil, hbh, hred]
  | black =>
    by_cases hr : other.isRed = true
    · rcases other with _ | ⟨oc, ol, ok, ov, or_⟩
      · simp [isRed_nil] at hr
      cases oc with
      | black => simp [isRed_node_black] at hr
      | red =>
        simp [balB, noRR, bh] at ho hno hb1
        simp [hr, setBlack, balB, noRR, bh, isRed_node_black, hbh, hred, *]
        omega
    · have hr' : other.isRed = false := by simpa using hr
      have := bh_one_black other hb1 hr'
      subst this
      simp [isRed_nil, balB, noRR, bh, hbh, hred]

/-- combining a child's result with its parent (left child) -/
theorem combine_L (c : Color) (l : T K V) (k : K) (v : V) (r : T K V) (p : T K V × Bool)
    (hb : balB (node c l k v r)) (hn : noRR (node c l k v r)) (hp : DelPost l p) :
    DelPost (node c l k v r) (if p.2 then fixDef (node c p.1 k v r) .L else (node c p.1 k v r, false)) := by
  simp [balB, noRR] at hb hn
  obtain ⟨hbl, hbr, hbe⟩ := hb
  obtain ⟨hnl, hnr, hcc⟩ := hn
  obtain ⟨q1, q2, q3, q4, q5, q6⟩ := hp
  by_cases hd : p.2 = true
  · simp only [hd, if_true] at q3 ⊢
    have h := fixDef_L c p.1 k v r q1 q2 (q4 hd) hbr hnr (by omega) (fun hc => (hcc hc).2)
    unfold FixPost at h
    obtain ⟨f1, f2, f3, f4, f5, f6⟩ := h
    refine ⟨f1, f2, ?_, f4, ?_, ?_⟩
    · simp [bh]; omega
    · intro hr; cases c with
      | red => exact f5 rfl
      | black => simp [isRed_node_black] at hr
    · intro hr; cases c with
      | red => simp [isRed_node_red] at hr
      | black => exact f6 rfl
  · have hd' : p.2 = false := by simpa using hd
    simp only [hd', Bool.false_eq_true, if_false] at q3 ⊢
    refine ⟨?_, ?_, ?_, ?_, ?_, ?_⟩
    · simp [balB]; exact ⟨q1, hbr, by omega⟩
    · simp [noRR]; refine ⟨q2, hnr, ?_⟩
      intro hc; exact ⟨q6 (hcc hc).1, (hcc hc).2⟩
    · simp [bh]; omega
    · simp
    · simp
    · intro hr; cases c with
      | red => simp [isRed_node_red] at hr
      | black => simp [isRed_node_black]

theorem combine_R (c : Color) (l : T K V) (k : K) (v : V) (r : T K V) (p : T K V × Bool)
    (hb : balB (node c l k v r)) (hn : noRR (node c l k v r)) (hp : DelPost r p) :
    DelPost (node c l k v r) (if p.2 then fixDef (node c l k v p.1) .R else (node c l k v p.1, false)) := by
  simp [balB, noRR] at hb hn
  obtain ⟨hbl, hbr, hbe⟩ := hb
  obtain ⟨hnl, hnr, hcc⟩ := hn
  obtain ⟨q1, q2, q3, q4, q5, q6⟩ := hp
  by_cases hd : p.2 = true
  · simp only [hd, if_true] at q3 ⊢
    have h := fixDef_R c l k v p.1 q1 q2 (q4 hd) hbl hnl (by omega) (fun hc => (hcc hc).1)
    unfold FixPost at h
    obtain ⟨f1, f2, f3, f4, f5, f6⟩ := h
    refine ⟨f1, f2, ?_, f4, ?_, ?_⟩
    · simp [bh]; omega
    · intro hr; cases c with
      | red => exact f5 rfl
      | black => simp [isRed_node_black] at hr
    · intro hr; cases c with
      | red => simp [isRed_node_red] at hr
      | black => exact f6 rfl
  · have hd' : p.2 = false := by simpa using hd
    simp only [hd', Bool.false_eq_true, if_false] at q3 ⊢
    refine ⟨?_, ?_, ?_, ?_, ?_, ?_⟩
    · simp [balB]; exact ⟨hbl, q1, by omega⟩
    · simp [noRR]; refine ⟨hnl, q2, ?_⟩
      intro hc; exact ⟨(hcc hc).1, q6 (hcc hc).2⟩
    · simp [bh]
    · simp
    · simp
    · intro hr; cases c with
      | red => simp [isRed_node_red] at hr
      | black => simp [isRed_node_black]

theorem delMin_post (t : T K V) (hb : balB t) (hn : noRR t) (hne : t ≠ nil) :
    ∃ mk mv t' d, delMin t = some (mk, mv, t', d) ∧ DelPost t (t', d) := by
  induction t with
  | nil => exact absurd rfl hne
  | node c l k v r ihl _ =>
    rcases l with _ | ⟨lc, ll, lk, lv, lr⟩
    · -- leftmost node: splice it out
      refine ⟨k, v, (spliceOut c r).1, (spliceOut c r).2, by simp [delMin], ?_⟩
      simp [balB, noRR, bh] at hb hn
      apply spliceOut_post c r
      · simp [bh]
      · cases c <;> simp [isRed_node_red, isRed_node_black]
      · exact hb.1
      · exact hn.1
      · omega
      · intro hc; exact (hn.2 hc).2
    · have hbl : balB (node lc ll lk lv lr) := by simp [balB] at hb; exact hb.1
      have hnl : noRR (node lc ll lk lv lr) := by simp [noRR] at hn; exact hn.1
      obtain ⟨mk, mv, l', d, he, hp⟩ := ihl hbl hnl (by simp)
      have hc := combine_L c (node lc ll lk lv lr) k v r (l', d) hb hn hp
      simp only at hc
      by_cases hd : d = true
      · subst hd
        refine ⟨mk, mv, (fixDef (node c l' k v r) .L).1, (fixDef (node c l' k v r) .L).2, ?_, by simpa using hc⟩
        simp [delMin, he]
      · have hd' : d = false := by simpa using hd
        subst hd'
        refine ⟨mk, mv, node c l' k v r, false, ?_, by simpa using hc⟩
        simp [delMin, he]

theorem del_post (cmp : K → K → Ordering) (t : T K V) (key : K) (hb : balB t) (hn : noRR t) : DelPost t (del cmp t key) := by
  induction t with
  | nil => simp [del, DelPost, balB, noRR, bh, isRed_nil]
  | node c l k v r ihl ihr =>
    have hbl : balB l := by simp [balB] at hb; exact hb.1
    have hbr : balB r := by simp [balB] at hb; exact hb.2.1
    have hnl : noRR l := by simp [noRR] at hn; exact hn.1
    have hnr : noRR r := by simp [noRR] at hn; exact hn.2.1
    unfold del
    split
    · -- key < k
      have := combine_L c l k v r (del cmp l key) hb hn (ihl hbl hnl)
      generalize del cmp l key = p at this ⊢
      obtain ⟨l', d⟩ := p
      simpa using this
    · split
      · have := combine_R c l k v r (del cmp r key) hb hn (ihr hbr hnr)
        generalize del cmp r key = p at this ⊢
        obtain ⟨r', d⟩ := p
        simpa using this
      · -- remove this node
        simp [balB, noRR] at hb hn
        split
        · -- left child nil
          apply spliceOut_post c r
          · simp [bh]
          · cases c <;> simp [isRed_node_red, isRed_node_black]
          · exact hbr
          · exact hnr
          · have : bh (nil : T K V) = 1 := rfl
            omega
          · intro hc; exact (hn.2.2 hc).2
        · -- right child nil
          apply spliceOut_post c l
          · have : bh (nil : T K V) = 1 := rfl
            simp [bh]; omega
          · cases c <;> simp [isRed_node_red, isRed_node_black]
          · exact hbl
          · exact hnl
          · have : bh (nil : T K V) = 1 := rfl
            omega
          · intro hc; exact (hn.2.2 hc).1
        · -- two children: successor
          rename_i hl0 hr0
          have hrne : r ≠ nil := by intro h; exact hr0 h
          obtain ⟨mk, mv, r', d, he, hp⟩ := delMin_post r hbr hnr hrne
          have hc := combine_R c l mk mv r (r', d) (by simp [balB]; exact ⟨hbl, hbr, hb.2.2⟩)
            (by simp [noRR]; exact ⟨hnl, hnr, hn.2.2⟩) hp
          simp only [he]
          have hbh : bh (node c l k v r) = bh (node c l mk mv r) := by simp [bh]
          have hred : (node c l k v r).isRed = (node c l mk mv r).isRed := by cases c <;> rfl
          unfold DelPost at hc ⊢
          rw [hbh, hred]
          by_cases hd : d = true
          · subst hd; simpa using hc
          · have hd' : d = false := by simpa using hd
            subst hd'; simpa using hc

/-- the red-black invariants (equal black height, no red-red, black root) survive `remove` -/
theorem remove_inv (cmp : K → K → Ordering) (t : T K V) (key : K) (hb : balB t) (hn : noRR t) :
    balB (remove cmp t key) ∧ noRR (remove cmp t key) ∧ (remove cmp t key).isRed = false := by
  have h := del_post cmp t key hb hn
  unfold remove
  generalize del cmp t key = p at h ⊢
  obtain ⟨t', d⟩ := p
  obtain ⟨h1, h2, _⟩ := h
  rcases t' with _ | ⟨c, l, k, v, r⟩
  · simp [setBlack, balB, noRR, isRed_nil]
  · simp [setBlack, balB, noRR, isRed_node_black] at *
    exact ⟨⟨h1.1, h1.2.1, h1.2.2⟩, h2.1, h2.2.1⟩


/-- children are valid, root may violate -/
def kidsOK : T K V → Prop
  | nil => True
  | node _ l _ _ r => noRR l ∧ noRR r

def child  (t : T K V) : Side → T K V
  | .L => match t with | node _ l _ _ _ => l | nil => nil
  | .R => match t with | node _ _ _ _ r => r | nil => nil

def Post (t : T K V) (st : St) (t' : T K V) : Prop :=
  balB t' ∧ bh t' = bh t ∧
  match st with
  | .ok => noRR t' ∧ t'.isRed = t.isRed
  | .fresh => noRR t' ∧ t'.isRed = true ∧ t.isRed = false
  | .viol s => kidsOK t' ∧ t'.isRed = true ∧ t.isRed = true ∧ (child t' s).isRed = true ∧
               (child t' (if s = .L then .R else .L)).isRed = false

theorem ins_post (cmp : K → K → Ordering) (t : T K V) (key : K) (val : V) (hb : balB t) (hr : noRR t) :
    Post t (ins cmp t key val).2 (ins cmp t key val).1 := by
  induction t with
  | nil => simp [ins, Post, balB, bh, noRR, isRed_node_black, isRed_node_red, isRed_nil]
  | node c l k v r ihl ihr =>
    simp only [balB] at hb
    simp only [noRR] at hr
    obtain ⟨hbl, hbr, hbh⟩ := hb
    obtain ⟨hrl, hrr, hc⟩ := hr
    unfold ins
    split
    · -- left
      have ih := ihl hbl hrl
      generalize ins cmp l key val = p at ih ⊢
      obtain ⟨l', st⟩ := p
      simp only at ih ⊢
      cases st with
      | ok =>
        simp_all [afterChild, Post, balB, bh, noRR, isRed_node_black, isRed_node_red, isRed_nil]
        cases c <;> simp_all [isRed_node_black, isRed_node_red, isRed_nil]
      | fresh =>
        cases c <;> simp_all [afterChild, Post, balB, bh, noRR, isRed_node_black, isRed_node_red, isRed_nil, kidsOK, child]
      | viol s' =>
        -- c must be black, l' = red node with a red child on side s'
        obtain ⟨hbl', hbh', hk, hlr, hlwas, hch, hoth⟩ := ih
        have hcb : c = .black := by
          cases c with
          | black => rfl
          | red => simp_all
        subst hcb
        rcases l' with _ | ⟨lc, ll, lk, lv, lr⟩
        · simp [isRed_node_black, isRed_nil] at hlr
        cases lc with
        | black => simp [isRed_node_black, isRed_nil] at hlr
        | red =>
          cases s' with
          | L =>
            rcases ll with _ | ⟨llc, lll, llk, llv, llr⟩
            · simp [child, isRed_node_black, isRed_nil] at hch
            cases llc with
            | black => simp [child, isRed_node_black, isRed_nil] at hch
            | red =>
              by_cases hrr2 : r.isRed = true
              · rcases r with _ | ⟨rc, rl, rk, rv, rr⟩
                · simp [isRed_nil] at hrr2
                cases rc <;> simp_all [afterChild, fixViol, Post, balB, bh, noRR, isRed_node_black, isRed_node_red, isRed_nil, kidsOK, child, setBlack, rotL, rotR]
              · simp_all [afterChild, fixViol, Post, balB, bh, noRR, isRed_node_black, isRed_node_red, isRed_nil, kidsOK, child, setBlack, rotL, rotR]
          | R =>
            rcases lr with _ | ⟨lrc, lrl, lrk, lrv, lrr⟩
            · simp [child, isRed_node_black, isRed_nil] at hch
            cases lrc with
            | black => simp [child, isRed_node_black, isRed_nil] at hch
            | red =>
              by_cases hrr2 : r.isRed = true
              · rcases r with _ | ⟨rc, rl, rk, rv, rr⟩
                · simp [isRed_nil] at hrr2
                cases rc <;> simp_all [afterChild, fixViol, Post, balB, bh, noRR, isRed_node_black, isRed_node_red, isRed_nil, kidsOK, child, setBlack, rotL, rotR]
              · simp_all [afterChild, fixViol, Post, balB, bh, noRR, isRed_node_black, isRed_node_red, isRed_nil, kidsOK, child, setBlack, rotL, rotR]
    · -- right
      have ih := ihr hbr hrr
      generalize ins cmp r key val = p at ih ⊢
      obtain ⟨r', st⟩ := p
      simp only at ih ⊢
      cases st with
      | ok =>
        simp_all [afterChild, Post, balB, bh, noRR, isRed_node_black, isRed_node_red, isRed_nil]
        cases c <;> simp_all [isRed_node_black, isRed_node_red, isRed_nil]
      | fresh =>
        cases c <;> simp_all [afterChild, Post, balB, bh, noRR, isRed_node_black, isRed_node_red, isRed_nil, kidsOK, child]
      | viol s' =>
        obtain ⟨hbr', hbh', hk, hlr, hlwas, hch, hoth⟩ := ih
        have hcb : c = .black := by
          cases c with
          | black => rfl
          | red => simp_all
        subst hcb
        rcases r' with _ | ⟨rc, rl, rk, rv, rr⟩
        · simp [isRed_node_black, isRed_nil] at hlr
        cases rc with
        | black => simp [isRed_node_black, isRed_nil] at hlr
        | red =>
          cases s' with
          | R =>
            rcases rr with _ | ⟨rrc, rrl, rrk, rrv, rrr⟩
            · simp [child, isRed_node_black, isRed_nil] at hch
            cases rrc with
            | black => simp [child, isRed_node_black, isRed_nil] at hch
            | red =>
              by_cases hll2 : l.isRed = true
              · rcases l with _ | ⟨lc, ll, lk, lv, lr⟩
                · simp [isRed_nil] at hll2
                cases lc <;> simp_all [afterChild, fixViol, Post, balB, bh, noRR, isRed_node_black, isRed_node_red, isRed_nil, kidsOK, child, setBlack, rotL, rotR]
              · simp_all [afterChild, fixViol, Post, balB, bh, noRR, isRed_node_black, isRed_node_red, isRed_nil, kidsOK, child, setBlack, rotL, rotR]
          | L =>
            rcases rl with _ | ⟨rlc, rll, rlk, rlv, rlr⟩
            · simp [child, isRed_node_black, isRed_nil] at hch
            cases rlc with
            | black => simp [child, isRed_node_black, isRed_nil] at hch
            | red =>
              by_cases hll2 : l.isRed = true
              · rcases l with _ | ⟨lc, ll, lk, lv, lr⟩
                · simp [isRed_nil] at hll2
                cases lc <;> simp_all [afterChild, fixViol, Post, balB, bh, noRR, isRed_node_black, isRed_node_red, isRed_nil, kidsOK, child, setBlack, rotL, rotR]
              · simp_all [afterChild, fixViol, Post, balB, bh, noRR, isRed_node_black, isRed_node_red, isRed_nil, kidsOK, child, setBlack, rotL, rotR]

theorem insert_inv (cmp : K → K → Ordering) (t : T K V) (key : K) (val : V) (hb : balB t) (hr : noRR t) :
    balB (insert cmp t key val) ∧ noRR (insert cmp t key val) ∧ (insert cmp t key val).isRed = false := by
  have h := ins_post cmp t key val hb hr
  unfold insert
  generalize ins cmp t key val = p at h ⊢
  obtain ⟨t', st⟩ := p
  obtain ⟨h1, _, h3⟩ := h
  rcases t' with _ | ⟨c, l, k, v, r⟩
  · simp [setBlack, balB, noRR, isRed_node_black, isRed_node_red, isRed_nil]
  · cases st <;> simp_all [setBlack, balB, noRR, isRed_node_black, isRed_node_red, isRed_nil, kidsOK]



/-- a balanced tree of black height b has at least 2^(b-1) - 1 nodes -/
theorem size_ge (t : T K V) (h : balB t) : 2 ^ (bh t - 1) ≤ size t + 1 := by
  induction t with
  | nil => simp [bh, size]
  | node c l k v r ihl ihr =>
    obtain ⟨hl, hr, he⟩ := h
    have h1 := ihl hl
    have h2 := ihr hr
    rw [← he] at h2
    cases c with
    | red => simp [bh, size] at *; omega
    | black =>
      simp only [bh, size, if_true]
      have hp : 1 ≤ bh l := by
        clear ihl ihr h1 h2 he hl
        induction l with
        | nil => simp [bh]
        | node c' l' _ _ _ ih _ => simp [bh]; omega
      have : 2 ^ (bh l + 1 - 1) = 2 * 2 ^ (bh l - 1) := by
        have : bh l + 1 - 1 = (bh l - 1) + 1 := by omega
        rw [this, Nat.pow_succ]; omega
      omega

/-- balanced and no red-red: the height is at most twice the black height (minus the nil level) -/
theorem height_le (t : T K V) (hb : balB t) (h : noRR t) : height t + 2 ≤ 2 * bh t + (if t.isRed then 1 else 0) := by
  induction t with
  | nil => simp [height, bh, isRed_nil]
  | node c l k v r ihl ihr =>
    obtain ⟨hbl, hbr, hbe⟩ := hb
    obtain ⟨hl, hr, hc⟩ := h
    have h1 := ihl hbl hl
    have h2 := ihr hbr hr
    rw [← hbe] at h2
    cases c with
    | black =>
      simp only [height, bh, isRed_node_black, if_true]
      have a1 : (if l.isRed = true then 1 else 0) ≤ 1 := by split <;> omega
      have a2 : (if r.isRed = true then 1 else 0) ≤ 1 := by split <;> omega
      simp at *
      omega
    | red =>
      obtain ⟨c1, c2⟩ := hc rfl
      simp only [height, bh, isRed_node_red, if_true]
      simp [c1, c2] at h1 h2
      simp
      omega

/-- the balance clause of C06: a red-black tree with n entries has height ≤ 2·log2(n+1) -/
theorem height_log (t : T K V) (hb : balB t) (h : noRR t) (hroot : t.isRed = false) :
    height t ≤ 2 * Nat.log2 (size t + 1) := by
  have h1 := height_le t hb h
  have h2 := size_ge t hb
  simp [hroot] at h1
  have h3 : bh t - 1 ≤ Nat.log2 (size t + 1) := by
    rw [Nat.le_log2 (by omega)]
    exact h2
  omega


end T
end RB
