import Lemmas.Conv128AsFloat
import Lemmas.F64Nearest
/-! C02 float lemmas, part 6 (core Lean only): `AsFloat64` for all 2^128 values — the result is a normal non-negative
    float with the value's sign, within one unit in the last place (of the result) of the exact value.

    `AsFloat64` rounds three times (`float64(hi)`, `float64(lo)`, the sum; the product by 2^64 is exact).  The bound
    needs ties-to-even: with `hi` odd in `[2^53, 2^54)` and `float64(lo) = 2^64` both the first and the last rounding
    are ties, and they must not both go up. -/
namespace Conv
open GoSem GoSem.F64

/-- `float64(lo)` for a 64-bit word: a float with natural value `L`, `|L − lo| ≤ 2^10`, `L ≤ 2^64`, exact below 2^53 -/
theorem lo_round (lo : Nat) (h : lo < 2^64) :
    ∃ ml el L, F64.ofNat lo = .fin false ml el ∧ num ml el = L * den el ∧ L ≤ lo + 2^10 ∧ lo ≤ L + 2^10 ∧
      L ≤ 2^64 ∧ (lo < 2^53 → L = lo) := by
  by_cases h0 : lo = 0
  · subst h0
    refine ⟨0, -1074, 0, by decide, ?_, by omega, by omega, by omega, fun _ => rfl⟩
    unfold num; simp
  · obtain ⟨m, e, X, hr, _, _, _, _, hn, hc⟩ := nat_round lo (by omega) (Nat.lt_trans h (by decide))
    refine ⟨m, e, X, hr, hn, ?_⟩
    rcases hc with ⟨hs, hx⟩ | ⟨t, t1, b1, b2, hR, hx⟩
    · subst hx; exact ⟨by omega, by omega, by omega, fun _ => rfl⟩
    · have hv := hR.val
      rw [← hx] at hv
      have tl : 52 + t < 64 := lt_of_pow_lt (Nat.lt_of_le_of_lt b1 h)
      have p1 : 2^t ≤ 2^11 := Nat.pow_le_pow_right (by decide) (by omega)
      have p2 : 2^(53 + t) ≤ 2^64 := Nat.pow_le_pow_right (by decide) (by omega)
      have p3 : 2^53 ≤ 2^(52 + t) := Nat.pow_le_pow_right (by decide) (by omega)
      obtain ⟨_, _, _, _, v1, v2, _, v4⟩ := hv
      exact ⟨by omega, by omega, by omega, fun c => by omega⟩

/-- the arithmetic of the three roundings when `2^53 ≤ hi` (first rounding inexact), stated on natural numbers -/
theorem ulp_big (hi lo L th mh : Nat) (eh : Int) (m : Nat) (e : Int)
    (hlo : lo < 2^64) (hL1 : L ≤ lo + 2^10) (hL2 : lo ≤ L + 2^10) (hL3 : L ≤ 2^64)
    (th1 : 1 ≤ th) (hRh : Rnd hi th mh eh)
    (hR : Rnd (mh * 2^eh.toNat * 2^64 + L) (eh.toNat + 64) m e) :
    m * 2^e.toNat ≤ hi * 2^64 + lo + 2^e.toNat ∧ hi * 2^64 + lo ≤ m * 2^e.toNat + 2^e.toNat := by
  have hvh := hRh.val
  obtain ⟨hmh1, hmh2, qh, hch, hqh⟩ := hRh
  obtain ⟨hm1, hm2, q', hc, hq⟩ := hR
  obtain ⟨eh0, eh1, eh2, pe, v1, v2, _, _⟩ := hvh
  -- U = 2^(eh+64) is the unit of the product; the sum is mh·U + L with L ≤ 2^64 ≤ U/2
  have hU : 2^(eh.toNat + 64) = 2^eh.toNat * 2^64 := Nat.pow_add ..
  have ehn : 1 ≤ eh.toNat := by omega
  have pU : 2^1 ≤ 2^eh.toNat := Nat.pow_le_pow_right (by decide) ehn
  have pth : 2^1 ≤ 2^th := Nat.pow_le_pow_right (by decide) th1
  have hlt : L < 2^(eh.toNat + 64) := by rw [hU]; omega
  have hs : mh * 2^eh.toNat * 2^64 + L = L + mh * 2^(eh.toNat + 64) := by
    rw [hU, Nat.mul_assoc, Nat.add_comm]
  have hdiv : (mh * 2^eh.toNat * 2^64 + L) / 2^(eh.toNat + 64) = mh := by
    rw [hs, Nat.add_mul_div_right _ _ (pow_pos' _), Nat.div_eq_of_lt hlt, Nat.zero_add]
  have hmod : (mh * 2^eh.toNat * 2^64 + L) % 2^(eh.toNat + 64) = L := by
    rw [hs, Nat.add_mul_mod_self_right, Nat.mod_eq_of_lt hlt]
  rw [hdiv, hmod] at hq
  rcases hq with ⟨q1, q2, _⟩ | ⟨q1, q2, q3⟩
  · -- the last rounding goes down to mh·U
    rcases hc with ⟨c1, c2⟩ | ⟨_, _, c3⟩
    · have et : e.toNat = eh.toNat + 64 := by omega
      rw [et, hU, c2, q1, ← Nat.mul_assoc]
      omega
    · omega
  · -- the last rounding goes up: only possible at a tie with U = 2^65, L = 2^64, and then `hi` was even
    have hle : 2^(eh.toNat + 64) ≤ 2^65 := by omega
    have : eh.toNat + 64 ≤ 65 := (Nat.pow_le_pow_iff_right (by decide)).mp hle
    have ehe : eh.toNat = 1 := by omega
    rw [ehe] at hU q2 q3 v1 v2 pe
    have ee : eh = 1 := by omega
    have te : th = 1 := by omega
    subst te
    have hU' : (2:Nat)^(1 + 64) = 2^65 := by decide
    rw [hU'] at q2 q3
    have hLe : L = 2^64 := by omega
    have hodd : mh % 2 = 1 := q3 (by omega)
    have hmq : mh = qh := by
      rcases hch with ⟨_, c⟩ | ⟨c, _⟩
      · exact c
      · omega
    have hhi : hi = 2 * mh := by
      rw [hmq]
      rcases hqh with ⟨a1, a2, a3⟩ | ⟨a1, a2, a3⟩
      · rw [Nat.pow_one] at a1 a2 a3; omega
      · rw [Nat.pow_one] at a1 a2 a3; omega
    rw [ehe] at hc
    rcases hc with ⟨c1, c2⟩ | ⟨c1, c2, c3⟩
    · have et : e.toNat = 65 := by omega
      rw [et, c2, q1, hhi]
      omega
    · have et : e.toNat = 66 := by omega
      rw [et, c2, hhi]
      omega

/-- **`Uint128.AsFloat64` for every value**: the result is a non-negative finite float `m·2^e`, `+0` for 0 and normal
    (`2^52 ≤ m < 2^53`) otherwise, exactly equal to the value when `e < 0`… and within one unit in the last place
    `2^e` of the value when `e ≥ 0` -/
theorem U128.asFloat64_round (u : U128) :
    ∃ m e, u.asFloat64 = .fin false m e ∧ -1074 ≤ e ∧ e ≤ 971 ∧
      (u.toNat = 0 → m = 0) ∧ (u.toNat ≠ 0 → 2^52 ≤ m ∧ m < 2^53) ∧ (2^53 ≤ u.toNat → 0 ≤ e) ∧
      (0 ≤ e → m * 2^e.toNat ≤ u.toNat + 2^e.toNat ∧ u.toNat ≤ m * 2^e.toNat + 2^e.toNat) := by
  have hh := u.hi.isLt; have hl := u.lo.isLt
  unfold U128.asFloat64
  rw [bv_eq_zero_iff, bv_eq_zero_iff]
  by_cases hhi : u.hi.toNat = 0
  · -- one rounding
    have hv : u.toNat = u.lo.toNat := by unfold U128.toNat; omega
    rw [decide_eq_true hhi, if_pos rfl, hv]
    by_cases hl0 : u.lo.toNat = 0
    · rw [decide_eq_true hl0, if_pos rfl, hl0]
      exact ⟨0, -1074, rfl, by omega, by omega, fun _ => rfl, fun c => (c rfl).elim, fun c => by omega,
        fun c => by omega⟩
    · rw [decide_eq_false hl0, if_neg (by simp)]
      obtain ⟨m, e, X, hr, m1, m2, e1, e2, hn, hc⟩ := nat_round u.lo.toNat (by omega) (Nat.lt_trans hl (by decide))
      refine ⟨m, e, hr, by omega, by omega, fun c => (hl0 c).elim, fun _ => ⟨m1, m2⟩, ?_, ?_⟩
      · intro hbig
        rcases hc with ⟨hs, _⟩ | ⟨t, _, _, _, hR, _⟩
        · omega
        · exact hR.val.1
      intro he
      rcases hc with ⟨hs, hx⟩ | ⟨t, t1, b1, b2, hR, hx⟩
      · rw [num_nonneg m e he, hx] at hn
        have hd : 0 < den e := by
          obtain ⟨k, hk⟩ := den_pow e; rw [hk]; exact pow_pos' k
        rw [Nat.eq_of_mul_eq_mul_right hd hn]
        exact ⟨Nat.le_add_right _ _, Nat.le_add_right _ _⟩
      · obtain ⟨_, _, _, pe, v1, v2, _, _⟩ := hR.val
        omega
  · rw [decide_eq_false hhi, if_neg (by simp)]
    have hne : u.toNat ≠ 0 := by unfold U128.toNat; omega
    obtain ⟨mh, eh, Xh, hrh, mh1, mh2, eh1, eh2, hnh, hch⟩ :=
      nat_round u.hi.toNat (by omega) (Nat.lt_trans hh (by decide))
    obtain ⟨ml, el, L, hrl, hnl, L1, L2, L3, L4⟩ := lo_round u.lo.toNat hl
    have hprod : F64.mul (F64.ofNat u.hi.toNat) wrapUint64Float = .fin false mh (eh + 64) := by
      show F64.mul (ofRat false u.hi.toNat 1) (.fin false (2^52) 12) = _
      rw [hrh]; exact mul_two64 mh eh mh1 mh2 (by omega) (by omega)
    have hsh := shift64 mh eh Xh (by omega) hnh
    have hnp : num mh (eh + 64) = Xh * 2^64 * den (eh + 64) := by
      rw [num_nonneg mh (eh + 64) (by omega), hsh]
    -- Xh ≥ 1, so the sum is at least 2^64
    have hX1 : 1 ≤ Xh ∧ Xh ≤ 2^64 := by
      rcases hch with ⟨hs, hx⟩ | ⟨t, t1, b1, b2, hR, hx⟩
      · omega
      · obtain ⟨_, _, _, _, _, _, v3, v4⟩ := hR.val
        rw [← hx] at v3 v4
        have tl : 52 + t < 64 := lt_of_pow_lt (Nat.lt_of_le_of_lt b1 hh)
        have p2 : 2^(53 + t) ≤ 2^64 := Nat.pow_le_pow_right (by decide) (by omega)
        have := pow_pos' (52 + t)
        omega
    rw [hprod, hrl, add_nat mh ml (eh + 64) el (Xh * 2^64) L hnp hnl (by omega)]
    -- the last rounding
    have s1 : 2^64 ≤ Xh * 2^64 + L := by omega
    have s2 : Xh * 2^64 + L < 2^200 := by
      omega
    obtain ⟨ts, b1, b2⟩ := binade (Xh * 2^64 + L) (by omega)
    have tl : 64 < 53 + ts := lt_of_pow_lt (Nat.lt_of_le_of_lt s1 b2)
    have tu : 52 + ts < 200 := lt_of_pow_lt (Nat.lt_of_le_of_lt b1 s2)
    obtain ⟨m, e, hr, hR⟩ := ofRat_nat_round (Xh * 2^64 + L) ts b1 b2 (by omega)
    have hv := hR.val
    refine ⟨m, e, hr, by omega, by omega, fun c => (hne c).elim, fun _ => ⟨hR.1, hR.2.1⟩, fun _ => hv.1, ?_⟩
    intro _
    unfold U128.toNat
    rcases hch with ⟨hs, hx⟩ | ⟨th, th1, bh1, bh2, hRh, hx⟩
    · -- float64(hi) exact: the error is that of float64(lo) (≤ 2^10 ≤ ulp/4) plus half an ulp
      obtain ⟨_, _, _, pe, v1, v2, _, _⟩ := hv
      have p12 : 2^12 ≤ 2^ts := Nat.pow_le_pow_right (by decide) (by omega)
      rw [hx] at v1 v2
      omega
    · -- float64(hi) inexact
      have hvh := hRh.val
      have ets : ts = eh.toNat + 64 := by
        -- the binade of the sum is that of the product
        have hU : 2^(eh.toNat + 64) = 2^eh.toNat * 2^64 := Nat.pow_add ..
        have hXU : Xh * 2^64 = mh * 2^(eh.toNat + 64) := by rw [hx, hU, Nat.mul_assoc]
        have ehn : 1 ≤ eh.toNat := by omega
        have pU : 2^1 ≤ 2^eh.toNat := Nat.pow_le_pow_right (by decide) ehn
        have lo1 : 2^(52 + (eh.toNat + 64)) ≤ Xh * 2^64 + L := by
          rw [hXU, Nat.pow_add]
          exact Nat.le_trans (Nat.mul_le_mul_right _ mh1) (Nat.le_add_right _ _)
        have hi1 : Xh * 2^64 + L < 2^(53 + (eh.toNat + 64)) := by
          have : (mh + 1) * 2^(eh.toNat + 64) ≤ 2^53 * 2^(eh.toNat + 64) := Nat.mul_le_mul_right _ (by omega)
          rw [Nat.pow_add 2 53, hXU]
          rw [Nat.add_mul, Nat.one_mul] at this
          have : L < 2^(eh.toNat + 64) := by rw [hU]; omega
          omega
        have a1 : 52 + ts < 53 + (eh.toNat + 64) := lt_of_pow_lt (Nat.lt_of_le_of_lt b1 hi1)
        have a2 : 52 + (eh.toNat + 64) < 53 + ts := lt_of_pow_lt (Nat.lt_of_le_of_lt lo1 b2)
        omega
      rw [ets, hx] at hR
      exact ulp_big u.hi.toNat u.lo.toNat L th mh eh m e hl L1 L2 L3 th1 hRh hR

/-- **`Int128.AsFloat64` for every value**: sign bit set exactly for negative values, `+0` for 0, normal otherwise,
    and the magnitude `m·2^e` is within one unit in the last place `2^e` of `|x|` -/
theorem I128.asFloat64_round (i : I128) :
    ∃ m e, i.asFloat64 = .fin (decide (i.toInt < 0)) m e ∧ -1074 ≤ e ∧ e ≤ 971 ∧
      (i.toInt = 0 → m = 0) ∧ (i.toInt ≠ 0 → 2^52 ≤ m ∧ m < 2^53) ∧ (2^53 ≤ i.toInt.natAbs → 0 ≤ e) ∧
      (0 ≤ e → m * 2^e.toNat ≤ i.toInt.natAbs + 2^e.toNat ∧ i.toInt.natAbs ≤ m * 2^e.toNat + 2^e.toNat) := by
  have hh := i.hi.isLt; have hl := i.lo.isLt
  unfold I128.asFloat64
  rw [and_signBit_ne]
  by_cases hs : 2^63 ≤ i.hi.toNat
  · rw [decide_eq_true hs, if_pos rfl]
    have hneg : i.toInt < 0 := by unfold I128.toInt; rw [if_neg (by omega)]; omega
    have ha := I128.absUint128_toNat i
    rw [if_pos hneg] at ha
    have hab : i.absUint128.toNat = i.toInt.natAbs := by omega
    obtain ⟨m, e, he, e1, e2, _, z2, z3, hb⟩ := U128.asFloat64_round i.absUint128
    rw [hab] at z2 z3 hb
    rw [he]
    exact ⟨m, e, by simp [F64.neg, hneg], e1, e2, fun c => by omega, fun _ => z2 (by omega), z3, hb⟩
  · rw [decide_eq_false hs, if_neg (by simp)]
    have hpos : ¬ i.toInt < 0 := by unfold I128.toInt; rw [if_pos (by omega)]; omega
    have hv : (i.asUint128.toNat : Int) = i.toInt := by
      unfold I128.asUint128 U128.toNat I128.toInt; rw [if_pos (by omega)]
    have hab : i.asUint128.toNat = i.toInt.natAbs := by omega
    obtain ⟨m, e, he, e1, e2, z1, z2, z3, hb⟩ := U128.asFloat64_round i.asUint128
    rw [hab] at z1 z2 z3 hb
    rw [he, decide_eq_false hpos]
    exact ⟨m, e, rfl, e1, e2, fun c => z1 (by omega), fun c => z2 (by omega), z3, hb⟩

end Conv
