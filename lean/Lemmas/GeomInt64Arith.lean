import Model.GeomExt
import Lemmas.GeomInt64
/-! C18: `Rect.Expand`, `Rect.Inset` and the `Point` / `Size` arithmetic of `Model/Geom.lean` + `Model/GeomExt.lean` at
    `Int64` (Go's `int` with wrap-around; driver streams `rw`, `aw`) against the same functions at `Int`: equal as long
    as the stated sums, differences and products stay inside the int64 range.  Core-only. -/
namespace Geom

def Insets.toInt (i : Insets Int64) : Insets Int := ⟨i.top.toInt, i.left.toInt, i.bottom.toInt, i.right.toInt⟩
def Size.toInt (s : Size Int64) : Size Int := ⟨s.w.toInt, s.h.toInt⟩

/-- the value lies in the int64 range -/
def Fits (v : Int) : Prop := -2 ^ 63 ≤ v ∧ v < 2 ^ 63
/-- the value lies in `[-2^62, 2^62)` -/
def FitsHalf (v : Int) : Prop := -2 ^ 62 ≤ v ∧ v < 2 ^ 62

theorem toInt_mul_of_fits (a b : Int64) (h : Fits (a.toInt * b.toInt)) : (a * b).toInt = a.toInt * b.toInt := by
  rw [Int64.toInt_mul]; exact Int.bmod_eq_of_le (by have := h.1; omega) (by have := h.2; omega)

theorem toInt_neg_of_fits (a : Int64) (h : Fits (-a.toInt)) : (-a).toInt = -a.toInt := by
  rw [Int64.toInt_neg]; exact Int.bmod_eq_of_le (by have := h.1; omega) (by have := h.2; omega)

theorem decide_eq64 (a b : Int64) : decide (a = b) = decide (a.toInt = b.toInt) :=
  decide_eq_decide.mpr Int64.toInt_inj.symm

/-- `Rect.Expand` on machine integers is `Rect.Expand` on the integers when all edges of the rectangle and the point
    lie in `[-2^62, 2^62)` -/
theorem expand_toInt (r : Rect Int64) (p : Point Int64) (hr : r.Half) (hx : FitsHalf p.x.toInt) (hy : FitsHalf p.y.toInt) :
    (r.expand p).toInt = r.toInt.expand p.toInt := by
  have rr := Rect.right_toInt r hr.noWrap
  have rb := Rect.bottom_toInt r hr.noWrap
  obtain ⟨⟨a1, a2⟩, ⟨a3, a4⟩, ⟨a5, a6⟩, ⟨a7, a8⟩⟩ := hr
  obtain ⟨x1, x2⟩ := hx
  obtain ⟨y1, y2⟩ := hy
  have hw : (max r.right p.x - min r.x p.x).toInt = max r.toInt.right p.toInt.x - min r.toInt.x p.toInt.x := by
    have e : (max r.right p.x).toInt - (min r.x p.x).toInt = max r.toInt.right p.toInt.x - min r.toInt.x p.toInt.x := by
      rw [toInt_min, toInt_max, rr]; rfl
    rw [toInt_sub_of_fits, e]
    · rw [e]; simp only [Rect.right, Rect.toInt, Point.toInt]; omega
    · rw [e]; simp only [Rect.right, Rect.toInt, Point.toInt]; omega
  have hh : (max r.bottom p.y - min r.y p.y).toInt = max r.toInt.bottom p.toInt.y - min r.toInt.y p.toInt.y := by
    have e : (max r.bottom p.y).toInt - (min r.y p.y).toInt = max r.toInt.bottom p.toInt.y - min r.toInt.y p.toInt.y := by
      rw [toInt_min, toInt_max, rb]; rfl
    rw [toInt_sub_of_fits, e]
    · rw [e]; simp only [Rect.bottom, Rect.toInt, Point.toInt]; omega
    · rw [e]; simp only [Rect.bottom, Rect.toInt, Point.toInt]; omega
  unfold Rect.expand
  simp only [decide_lt64, Int64.toInt_zero]
  by_cases hc : (decide (r.w.toInt < 0) || decide (r.h.toInt < 0)) = true
  · rw [if_pos hc]
    have : (decide (r.toInt.w < 0) || decide (r.toInt.h < 0)) = true := hc
    rw [if_pos this]
    simp only [Rect.toInt, Point.toInt, Int64.toInt_zero]
  · rw [if_neg hc]
    have : ¬ (decide (r.toInt.w < 0) || decide (r.toInt.h < 0)) = true := hc
    rw [if_neg this]
    simp only [Rect.toInt, hw, hh, toInt_min]
    rfl

/-- `Rect.Inset` likewise, when the four sums / differences it forms fit -/
theorem inset_toInt (r : Rect Int64) (i : Insets Int64)
    (h1 : Fits (r.x.toInt + i.left.toInt)) (h2 : Fits (r.y.toInt + i.top.toInt))
    (h3 : Fits (i.left.toInt + i.right.toInt)) (h4 : Fits (i.top.toInt + i.bottom.toInt))
    (h5 : Fits (r.w.toInt - (i.left.toInt + i.right.toInt))) (h6 : Fits (r.h.toInt - (i.top.toInt + i.bottom.toInt))) :
    (r.inset i).toInt = r.toInt.inset i.toInt := by
  have ew : i.width.toInt = i.left.toInt + i.right.toInt := toInt_add_of_fits _ _ h3.1 h3.2
  have eh : i.height.toInt = i.top.toInt + i.bottom.toInt := toInt_add_of_fits _ _ h4.1 h4.2
  simp only [Rect.inset, Rect.toInt, Insets.toInt, Insets.width, Insets.height, toInt_max, Int64.toInt_zero]
  rw [toInt_add_of_fits _ _ h1.1 h1.2, toInt_add_of_fits _ _ h2.1 h2.2,
    toInt_sub_of_fits r.w (i.left + i.right) (by rw [show (i.left + i.right).toInt = _ from ew]; exact h5.1)
      (by rw [show (i.left + i.right).toInt = _ from ew]; exact h5.2),
    toInt_sub_of_fits r.h (i.top + i.bottom) (by rw [show (i.top + i.bottom).toInt = _ from eh]; exact h6.1)
      (by rw [show (i.top + i.bottom).toInt = _ from eh]; exact h6.2)]
  rw [show (i.left + i.right).toInt = _ from ew, show (i.top + i.bottom).toInt = _ from eh]

/-- `Point.Add` / `Sub` / `Neg` / `Mul` / `Dot` / `Cross` on machine integers, under the no-overflow conditions of
    exactly the operations each one performs -/
theorem point_add_toInt (p q : Point Int64) (hx : Fits (p.x.toInt + q.x.toInt)) (hy : Fits (p.y.toInt + q.y.toInt)) :
    (p.add q).toInt = p.toInt.add q.toInt := by
  simp only [Point.add, Point.toInt, toInt_add_of_fits _ _ hx.1 hx.2, toInt_add_of_fits _ _ hy.1 hy.2]

theorem point_sub_toInt (p q : Point Int64) (hx : Fits (p.x.toInt - q.x.toInt)) (hy : Fits (p.y.toInt - q.y.toInt)) :
    (p.sub q).toInt = p.toInt.sub q.toInt := by
  simp only [Point.sub, Point.toInt, toInt_sub_of_fits _ _ hx.1 hx.2, toInt_sub_of_fits _ _ hy.1 hy.2]

theorem point_neg_toInt (p : Point Int64) (hx : Fits (-p.x.toInt)) (hy : Fits (-p.y.toInt)) :
    p.neg.toInt = p.toInt.neg := by
  simp only [Point.neg, Point.toInt, toInt_neg_of_fits _ hx, toInt_neg_of_fits _ hy]

theorem point_mul_toInt (p : Point Int64) (v : Int64) (hx : Fits (p.x.toInt * v.toInt)) (hy : Fits (p.y.toInt * v.toInt)) :
    (p.mul v).toInt = p.toInt.mul v.toInt := by
  simp only [Point.mul, Point.toInt, toInt_mul_of_fits _ _ hx, toInt_mul_of_fits _ _ hy]

theorem point_dot_toInt (p q : Point Int64) (h1 : Fits (p.x.toInt * q.x.toInt)) (h2 : Fits (p.y.toInt * q.y.toInt))
    (h3 : Fits (p.x.toInt * q.x.toInt + p.y.toInt * q.y.toInt)) : (p.dot q).toInt = p.toInt.dot q.toInt := by
  simp only [Point.dot, Point.toInt]
  rw [toInt_add_of_fits _ _ (by rw [toInt_mul_of_fits _ _ h1, toInt_mul_of_fits _ _ h2]; exact h3.1)
    (by rw [toInt_mul_of_fits _ _ h1, toInt_mul_of_fits _ _ h2]; exact h3.2),
    toInt_mul_of_fits _ _ h1, toInt_mul_of_fits _ _ h2]

theorem point_cross_toInt (p q : Point Int64) (h1 : Fits (p.x.toInt * q.y.toInt)) (h2 : Fits (p.y.toInt * q.x.toInt))
    (h3 : Fits (p.x.toInt * q.y.toInt - p.y.toInt * q.x.toInt)) : (p.cross q).toInt = p.toInt.cross q.toInt := by
  simp only [Point.cross, Point.toInt]
  rw [toInt_sub_of_fits _ _ (by rw [toInt_mul_of_fits _ _ h1, toInt_mul_of_fits _ _ h2]; exact h3.1)
    (by rw [toInt_mul_of_fits _ _ h1, toInt_mul_of_fits _ _ h2]; exact h3.2),
    toInt_mul_of_fits _ _ h1, toInt_mul_of_fits _ _ h2]

/-- `Size.Min` / `Max` / `ConstrainForHint` only compare: they agree with the integer functions on EVERY input -/
theorem size_order_toInt (s t : Size Int64) :
    (s.min t).toInt = s.toInt.min t.toInt ∧ (s.max t).toInt = s.toInt.max t.toInt ∧
    (s.constrainForHint t).toInt = s.toInt.constrainForHint t.toInt := by
  refine ⟨?_, ?_, ?_⟩
  · simp only [Size.min, Size.toInt, toInt_min]
  · simp only [Size.max, Size.toInt, toInt_max]
  · simp only [Size.constrainForHint, Size.toInt, ge_iff_le, gt_iff_lt, decide_le64, decide_lt64, Int64.toInt_one]
    simp only [apply_ite Int64.toInt]

/-- `Point.EqualWithin` when the two differences fit and are not the most negative value -/
theorem equalWithin_toInt (p q : Point Int64) (t : Int64)
    (hx : Fits (p.x.toInt - q.x.toInt) ∧ Fits (-(p.x.toInt - q.x.toInt)))
    (hy : Fits (p.y.toInt - q.y.toInt) ∧ Fits (-(p.y.toInt - q.y.toInt))) :
    p.equalWithin q t = p.toInt.equalWithin q.toInt t.toInt := by
  have abs64 : ∀ a b : Int64, Fits (a.toInt - b.toInt) → Fits (-(a.toInt - b.toInt)) →
      (absOf (a - b)).toInt = absOf (a.toInt - b.toInt) := by
    intro a b h1 h2
    have e := toInt_sub_of_fits a b h1.1 h1.2
    unfold absOf
    by_cases hc : a - b < 0
    · have hc' : a.toInt - b.toInt < 0 := by rw [← e, ← Int64.toInt_zero]; exact Int64.lt_iff_toInt_lt.mp hc
      rw [if_pos hc, if_pos hc', toInt_neg_of_fits _ (by rw [e]; exact h2), e]
    · have hc' : ¬ a.toInt - b.toInt < 0 := by
        intro h; apply hc; rw [Int64.lt_iff_toInt_lt, e, Int64.toInt_zero]; exact h
      rw [if_neg hc, if_neg hc', e]
  simp only [Point.equalWithin, Geom.equalWithin, Point.toInt, decide_le64, abs64 _ _ hx.1 hx.2, abs64 _ _ hy.1 hy.2]
  rfl

end Geom
