import Lemmas.EvenOdd
import Lemmas.EvenOddOutside
import Lemmas.EvenOddPerm
import Lemmas.EvenOddEmpty
import Lemmas.EvenOddMargin
import Lemmas.EvenOddPrune

/-! C05: a Jordan-type theorem for the even-odd rule, enough to prove the validator's general emptiness judgement sound.

* `edge_any` - for a segment `u q` (`u.y < q.y`) and an edge `a b` that are APART (`ApartQ`: the end points of one strictly
  on the same side of the line through the other), the crossing status of the edge changes between `u` and `q` exactly
  when one end point of the edge lies in the region to the right of the path "ray from `u`, segment, ray from `q`" and the
  other does not (four polynomial identities `I1`-`I4` between the orientation determinants, and a case analysis);
* `inside_const_segment` - hence, summing over closed contours (`allEdges_parity`), `inside P` does not change along a
  segment that is apart from every edge of `P`;
* `first_hit` - the first boundary point `q` hit by the rightward ray from `p` lies on an edge of one polygon, and the
  OTHER polygon's `inside` is the same at `q` as at `p` (no edge of it is hit before or at `q`: apart segments have no
  common point);
* `disjoint_of_apart`, `subset_of_apart` - so a common point of two regions (resp. a point of `A` outside `B`) would give
  a point on an edge of one polygon at which the other polygon's `inside` differs from its value at the edge's first
  end point: impossible. -/

namespace EOQ

/-- twice the signed area of `a b c` over ℚ: positive when `c` is to the left of the directed line `a → b` -/
def orientQ (a b c : QPt) : ℚ := (b.x - a.x) * (c.y - a.y) - (b.y - a.y) * (c.x - a.x)

/-- the closed segments `ab` and `cd` are apart for an elementary reason: `c`, `d` are strictly on the same side of the
    line `ab`, or `a`, `b` strictly on the same side of the line `cd` -/
def ApartQ (a b c d : QPt) : Prop :=
  0 < orientQ a b c * orientQ a b d ∨ 0 < orientQ c d a * orientQ c d b

theorem crosses_up (a b p : QPt) (h : a.y < b.y) :
    crosses a b p ↔ (a.y ≤ p.y ∧ p.y < b.y ∧ 0 < orientQ a b p) := by
  rw [crosses_iff]
  unfold orientQ
  constructor
  · rintro (⟨_, h1, h2, h3⟩ | ⟨h', _⟩)
    · exact ⟨h1, h2, by linarith⟩
    · exact absurd h' (not_lt.mpr h.le)
  · rintro ⟨h1, h2, h3⟩
    exact Or.inl ⟨h, h1, h2, by linarith⟩

/-- the region to the right of the path "ray from `u`, segment `u q`, ray from `q`" (`u.y < q.y`), with the half-open
    conventions of the crossing test: a vertex on a ray counts as below it -/
def InStrip (u q w : QPt) : Prop := u.y < w.y ∧ w.y ≤ q.y ∧ orientQ u q w < 0

theorem I1 (a b u q : QPt) :
    (q.y - u.y) * orientQ a b u = -((b.y - u.y) * orientQ u q a + (u.y - a.y) * orientQ u q b) := by
  unfold orientQ; ring

theorem I2 (a b u q : QPt) :
    (q.y - u.y) * orientQ a b q = -((b.y - q.y) * orientQ u q a + (q.y - a.y) * orientQ u q b) := by
  unfold orientQ; ring

theorem I3 (a b u q : QPt) :
    (b.y - a.y) * orientQ u q a = -((q.y - a.y) * orientQ a b u + (a.y - u.y) * orientQ a b q) := by
  unfold orientQ; ring

theorem I4 (a b u q : QPt) :
    (b.y - a.y) * orientQ u q b = -((q.y - b.y) * orientQ a b u + (b.y - u.y) * orientQ a b q) := by
  unfold orientQ; ring

theorem same_sign_cases (x y : ℚ) (h : 0 < x * y) : (0 < x ∧ 0 < y) ∨ (x < 0 ∧ y < 0) := by
  rcases lt_trichotomy x 0 with hx | hx | hx
  · right; exact ⟨hx, by by_contra hn; push Not at hn; nlinarith [mul_nonpos_of_nonpos_of_nonneg hx.le hn]⟩
  · rw [hx] at h; simp at h
  · left; exact ⟨hx, by by_contra hn; push Not at hn; nlinarith [mul_nonpos_of_nonneg_of_nonpos hx.le hn]⟩

theorem order_prop (P1 P2 P3 P4 : Prop) (c1 : P1 → P3) (c2 : P4 → P2) (c3 : ¬ P1 → P2) (c4 : ¬ P3 → P4) :
    ((P1 ∧ P2) ↔ (P3 ∧ P4)) ↔ ((¬ P1 ∧ P3) ↔ (P2 ∧ ¬ P4)) := by
  by_cases h1 : P1 <;> by_cases h2 : P2 <;> by_cases h3 : P3 <;> by_cases h4 : P4 <;> simp_all

theorem order_lemma (ay by_ uy qy : ℚ) (hab : ay < by_) (huq : uy < qy) :
    ((ay ≤ uy ∧ uy < by_) ↔ (ay ≤ qy ∧ qy < by_)) ↔ ((uy < ay ∧ ay ≤ qy) ↔ (uy < by_ ∧ by_ ≤ qy)) := by
  have c1 : ay ≤ uy → ay ≤ qy := fun h => by linarith
  have c2 : qy < by_ → uy < by_ := fun h => by linarith
  have c3 : ¬ ay ≤ uy → uy < by_ := fun h => by push Not at h; linarith
  have c4 : ¬ ay ≤ qy → qy < by_ := fun h => by push Not at h; linarith
  have := order_prop (ay ≤ uy) (uy < by_) (ay ≤ qy) (qy < by_) c1 c2 c3 c4
  rw [not_le, not_lt] at this
  exact this

/-- the crossing status of an UPWARD edge `a b` changes between `u` and `q` exactly when one end point of the edge is in
    the strip and the other is not, provided the edge and the segment `u q` are apart -/
theorem edge_up (a b u q : QPt) (hab : a.y < b.y) (huq : u.y < q.y) (hap : ApartQ u q a b) :
    (crosses a b u ↔ crosses a b q) ↔ (InStrip u q a ↔ InStrip u q b) := by
  rw [crosses_up a b u hab, crosses_up a b q hab]
  unfold InStrip
  have dq : 0 < q.y - u.y := by linarith
  have db : 0 < b.y - a.y := by linarith
  have i1 := I1 a b u q
  have i2 := I2 a b u q
  have i3 := I3 a b u q
  have i4 := I4 a b u q
  have ord := order_lemma a.y b.y u.y q.y hab huq
  rcases hap with h | h
  · rcases same_sign_cases _ _ h with ⟨ha, hb⟩ | ⟨ha, hb⟩
    · -- the edge is strictly left of the line: never crossed from u or q, never in the strip
      have nu : ¬ (a.y ≤ u.y ∧ u.y < b.y ∧ 0 < orientQ a b u) := by
        rintro ⟨h1, h2, h3⟩
        have : 0 < (b.y - u.y) * orientQ u q a := mul_pos (by linarith) ha
        have : 0 ≤ (u.y - a.y) * orientQ u q b := mul_nonneg (by linarith) hb.le
        have : 0 < (q.y - u.y) * orientQ a b u := mul_pos dq h3
        linarith
      have nq : ¬ (a.y ≤ q.y ∧ q.y < b.y ∧ 0 < orientQ a b q) := by
        rintro ⟨h1, h2, h3⟩
        have : 0 < (b.y - q.y) * orientQ u q a := mul_pos (by linarith) ha
        have : 0 ≤ (q.y - a.y) * orientQ u q b := mul_nonneg (by linarith) hb.le
        have : 0 < (q.y - u.y) * orientQ a b q := mul_pos dq h3
        linarith
      have na : ¬ (u.y < a.y ∧ a.y ≤ q.y ∧ orientQ u q a < 0) := fun ⟨_, _, h3⟩ => by linarith
      have nb : ¬ (u.y < b.y ∧ b.y ≤ q.y ∧ orientQ u q b < 0) := fun ⟨_, _, h3⟩ => by linarith
      exact ⟨fun _ => iff_of_false na nb, fun _ => iff_of_false nu nq⟩
    · -- the edge is strictly right of the line
      have eu : (a.y ≤ u.y ∧ u.y < b.y ∧ 0 < orientQ a b u) ↔ (a.y ≤ u.y ∧ u.y < b.y) := by
        constructor
        · rintro ⟨h1, h2, _⟩; exact ⟨h1, h2⟩
        · rintro ⟨h1, h2⟩
          refine ⟨h1, h2, ?_⟩
          have : (b.y - u.y) * orientQ u q a < 0 := mul_neg_of_pos_of_neg (by linarith) ha
          have : (u.y - a.y) * orientQ u q b ≤ 0 := mul_nonpos_of_nonneg_of_nonpos (by linarith) hb.le
          have : 0 < (q.y - u.y) * orientQ a b u := by linarith
          exact (mul_pos_iff_of_pos_left dq).mp this
      have eq_ : (a.y ≤ q.y ∧ q.y < b.y ∧ 0 < orientQ a b q) ↔ (a.y ≤ q.y ∧ q.y < b.y) := by
        constructor
        · rintro ⟨h1, h2, _⟩; exact ⟨h1, h2⟩
        · rintro ⟨h1, h2⟩
          refine ⟨h1, h2, ?_⟩
          have : (b.y - q.y) * orientQ u q a < 0 := mul_neg_of_pos_of_neg (by linarith) ha
          have : (q.y - a.y) * orientQ u q b ≤ 0 := mul_nonpos_of_nonneg_of_nonpos (by linarith) hb.le
          have : 0 < (q.y - u.y) * orientQ a b q := by linarith
          exact (mul_pos_iff_of_pos_left dq).mp this
      have ea : (u.y < a.y ∧ a.y ≤ q.y ∧ orientQ u q a < 0) ↔ (u.y < a.y ∧ a.y ≤ q.y) :=
        ⟨fun ⟨h1, h2, _⟩ => ⟨h1, h2⟩, fun ⟨h1, h2⟩ => ⟨h1, h2, ha⟩⟩
      have eb : (u.y < b.y ∧ b.y ≤ q.y ∧ orientQ u q b < 0) ↔ (u.y < b.y ∧ b.y ≤ q.y) :=
        ⟨fun ⟨h1, h2, _⟩ => ⟨h1, h2⟩, fun ⟨h1, h2⟩ => ⟨h1, h2, hb⟩⟩
      rw [eu, eq_, ea, eb]; exact ord
  · rcases same_sign_cases _ _ h with ⟨hu, hq⟩ | ⟨hu, hq⟩
    · -- u and q are strictly left of the edge's line
      have eu : (a.y ≤ u.y ∧ u.y < b.y ∧ 0 < orientQ a b u) ↔ (a.y ≤ u.y ∧ u.y < b.y) :=
        ⟨fun ⟨h1, h2, _⟩ => ⟨h1, h2⟩, fun ⟨h1, h2⟩ => ⟨h1, h2, hu⟩⟩
      have eq_ : (a.y ≤ q.y ∧ q.y < b.y ∧ 0 < orientQ a b q) ↔ (a.y ≤ q.y ∧ q.y < b.y) :=
        ⟨fun ⟨h1, h2, _⟩ => ⟨h1, h2⟩, fun ⟨h1, h2⟩ => ⟨h1, h2, hq⟩⟩
      have ea : (u.y < a.y ∧ a.y ≤ q.y ∧ orientQ u q a < 0) ↔ (u.y < a.y ∧ a.y ≤ q.y) := by
        constructor
        · rintro ⟨h1, h2, _⟩; exact ⟨h1, h2⟩
        · rintro ⟨h1, h2⟩
          refine ⟨h1, h2, ?_⟩
          have : 0 ≤ (q.y - a.y) * orientQ a b u := mul_nonneg (by linarith) hu.le
          have : 0 < (a.y - u.y) * orientQ a b q := mul_pos (by linarith) hq
          have : (b.y - a.y) * orientQ u q a < 0 := by linarith
          by_contra hn; push Not at hn
          have : 0 ≤ (b.y - a.y) * orientQ u q a := mul_nonneg db.le hn
          linarith
      have eb : (u.y < b.y ∧ b.y ≤ q.y ∧ orientQ u q b < 0) ↔ (u.y < b.y ∧ b.y ≤ q.y) := by
        constructor
        · rintro ⟨h1, h2, _⟩; exact ⟨h1, h2⟩
        · rintro ⟨h1, h2⟩
          refine ⟨h1, h2, ?_⟩
          have : 0 ≤ (q.y - b.y) * orientQ a b u := mul_nonneg (by linarith) hu.le
          have : 0 < (b.y - u.y) * orientQ a b q := mul_pos (by linarith) hq
          have : (b.y - a.y) * orientQ u q b < 0 := by linarith
          by_contra hn; push Not at hn
          have : 0 ≤ (b.y - a.y) * orientQ u q b := mul_nonneg db.le hn
          linarith
      rw [eu, eq_, ea, eb]; exact ord
    · -- u and q are strictly right of the edge's line
      have nu : ¬ (a.y ≤ u.y ∧ u.y < b.y ∧ 0 < orientQ a b u) := fun ⟨_, _, h3⟩ => by linarith
      have nq : ¬ (a.y ≤ q.y ∧ q.y < b.y ∧ 0 < orientQ a b q) := fun ⟨_, _, h3⟩ => by linarith
      have na : ¬ (u.y < a.y ∧ a.y ≤ q.y ∧ orientQ u q a < 0) := by
        rintro ⟨h1, h2, h3⟩
        have : (q.y - a.y) * orientQ a b u ≤ 0 := mul_nonpos_of_nonneg_of_nonpos (by linarith) hu.le
        have : (a.y - u.y) * orientQ a b q < 0 := mul_neg_of_pos_of_neg (by linarith) hq
        have : (b.y - a.y) * orientQ u q a < 0 := mul_neg_of_pos_of_neg db h3
        linarith
      have nb : ¬ (u.y < b.y ∧ b.y ≤ q.y ∧ orientQ u q b < 0) := by
        rintro ⟨h1, h2, h3⟩
        have : (q.y - b.y) * orientQ a b u ≤ 0 := mul_nonpos_of_nonneg_of_nonpos (by linarith) hu.le
        have : (b.y - u.y) * orientQ a b q < 0 := mul_neg_of_pos_of_neg (by linarith) hq
        have : (b.y - a.y) * orientQ u q b < 0 := mul_neg_of_pos_of_neg db h3
        linarith
      exact ⟨fun _ => iff_of_false na nb, fun _ => iff_of_false nu nq⟩


theorem apartQ_swap_edge (u q a b : QPt) (h : ApartQ u q a b) : ApartQ u q b a := by
  unfold ApartQ at h ⊢
  rcases h with h | h
  · left; rw [mul_comm]; exact h
  · right
    have e1 : orientQ b a u = -orientQ a b u := by unfold orientQ; ring
    have e2 : orientQ b a q = -orientQ a b q := by unfold orientQ; ring
    rw [e1, e2]; linarith [neg_mul_neg (orientQ a b u) (orientQ a b q)]

theorem apartQ_swap_seg (u q a b : QPt) (h : ApartQ u q a b) : ApartQ q u a b := by
  unfold ApartQ at h ⊢
  rcases h with h | h
  · left
    have e1 : orientQ q u a = -orientQ u q a := by unfold orientQ; ring
    have e2 : orientQ q u b = -orientQ u q b := by unfold orientQ; ring
    rw [e1, e2]; linarith [neg_mul_neg (orientQ u q a) (orientQ u q b)]
  · right; rw [mul_comm]; exact h

theorem not_crosses_horizontal (a b p : QPt) (h : a.y = b.y) : ¬ crosses a b p := by
  unfold crosses; simp [h]

/-- the same for an edge of any direction -/
theorem edge_any (a b u q : QPt) (huq : u.y < q.y) (hap : ApartQ u q a b) :
    (crosses a b u ↔ crosses a b q) ↔ (InStrip u q a ↔ InStrip u q b) := by
  rcases lt_trichotomy a.y b.y with h | h | h
  · exact edge_up a b u q h huq hap
  · have n1 := not_crosses_horizontal a b u h
    have n2 := not_crosses_horizontal a b q h
    refine ⟨fun _ => ?_, fun _ => iff_of_false n1 n2⟩
    unfold InStrip
    rw [h]
    rcases hap with hp | hp
    · rcases same_sign_cases _ _ hp with ⟨ha, hb⟩ | ⟨ha, hb⟩
      · exact iff_of_false (fun ⟨_, _, h3⟩ => by linarith) (fun ⟨_, _, h3⟩ => by linarith)
      · exact ⟨fun ⟨h1, h2, _⟩ => ⟨h1, h2, hb⟩, fun ⟨h1, h2, _⟩ => ⟨h1, h2, ha⟩⟩
    · have e1 : orientQ a b u = (b.x - a.x) * (u.y - b.y) := by unfold orientQ; rw [h]; ring
      have e2 : orientQ a b q = (b.x - a.x) * (q.y - b.y) := by unfold orientQ; rw [h]; ring
      rw [e1, e2] at hp
      have hp' : 0 < (b.x - a.x) * (b.x - a.x) * ((u.y - b.y) * (q.y - b.y)) := by
        have : (b.x - a.x) * (u.y - b.y) * ((b.x - a.x) * (q.y - b.y)) =
            (b.x - a.x) * (b.x - a.x) * ((u.y - b.y) * (q.y - b.y)) := by ring
        rw [← this]; exact hp
      have sq : 0 ≤ (b.x - a.x) * (b.x - a.x) := mul_self_nonneg _
      have hpos : 0 < (u.y - b.y) * (q.y - b.y) := by
        by_contra hn; push Not at hn
        have := mul_nonpos_of_nonneg_of_nonpos sq hn
        linarith
      refine iff_of_false ?_ ?_ <;>
      · rintro ⟨h1, h2, _⟩
        have : (u.y - b.y) * (q.y - b.y) ≤ 0 := mul_nonpos_of_nonpos_of_nonneg (by linarith) (by linarith)
        linarith
  · have := edge_up b a u q h huq (apartQ_swap_edge u q a b hap)
    rw [crosses_symm a b u, crosses_symm a b q]
    rw [this]
    exact iff_comm

instance (u q w : QPt) : Decidable (InStrip u q w) := by unfold InStrip; infer_instance

theorem bne_of_iff (X Y S T : Prop) [Decidable X] [Decidable Y] [Decidable S] [Decidable T]
    (h : (X ↔ Y) ↔ (S ↔ T)) : (decide X != decide Y) = (decide S != decide T) := by
  by_cases hx : X <;> by_cases hy : Y <;> by_cases hs : S <;> by_cases ht : T <;> simp_all

theorem countP_xor_parity {α : Type} (p q : α → Bool) (l : List α) :
    (l.countP p + l.countP q) % 2 = (l.countP (fun x => p x != q x)) % 2 := by
  induction l with
  | nil => rfl
  | cons a t ih =>
    simp only [List.countP_cons]
    cases hp : p a <;> cases hq : q a <;> simp <;> omega

/-- **`inside` does not change along a segment that is apart from every edge** (ascending segment) -/
theorem inside_const_segment_lt (P : QPolygon) (u q : QPt) (huq : u.y < q.y)
    (hap : ∀ e ∈ EO.allEdges P, ApartQ u q e.1 e.2) : inside P u ↔ inside P q := by
  unfold inside crossCount
  have hpar := allEdges_parity (fun w : QPt => decide (InStrip u q w)) P
  have hcongr : (EO.allEdges P).countP (fun e => decide (crosses e.1 e.2 u) != decide (crosses e.1 e.2 q)) =
      (EO.allEdges P).countP (fun e => decide (InStrip u q e.1) != decide (InStrip u q e.2)) := by
    apply List.countP_congr
    intro e he
    rw [bne_of_iff _ _ _ _ (edge_any e.1 e.2 u q huq (hap e he))]
  have hx := countP_xor_parity (fun e : QPt × QPt => decide (crosses e.1 e.2 u))
    (fun e => decide (crosses e.1 e.2 q)) (EO.allEdges P)
  rw [hcongr, hpar] at hx
  omega

/-- a horizontal segment -/
theorem edge_level (a b u q : QPt) (huq : u.y = q.y) (hap : ApartQ u q a b) :
    crosses a b u ↔ crosses a b q := by
  have key : ∀ a b : QPt, a.y < b.y → ApartQ u q a b → (crosses a b u ↔ crosses a b q) := by
    intro a b hab hap
    rw [crosses_up a b u hab, crosses_up a b q hab, ← huq]
    rcases hap with hp | hp
    · have e1 : orientQ u q a = (q.x - u.x) * (a.y - u.y) := by unfold orientQ; rw [← huq]; ring
      have e2 : orientQ u q b = (q.x - u.x) * (b.y - u.y) := by unfold orientQ; rw [← huq]; ring
      rw [e1, e2] at hp
      have hp' : 0 < (q.x - u.x) * (q.x - u.x) * ((a.y - u.y) * (b.y - u.y)) := by
        have : (q.x - u.x) * (a.y - u.y) * ((q.x - u.x) * (b.y - u.y)) =
            (q.x - u.x) * (q.x - u.x) * ((a.y - u.y) * (b.y - u.y)) := by ring
        rw [← this]; exact hp
      have sq : 0 ≤ (q.x - u.x) * (q.x - u.x) := mul_self_nonneg _
      have hpos : 0 < (a.y - u.y) * (b.y - u.y) := by
        by_contra hn; push Not at hn
        have := mul_nonpos_of_nonneg_of_nonpos sq hn
        linarith
      refine iff_of_false ?_ ?_ <;>
      · rintro ⟨h1, h2, _⟩
        have : (a.y - u.y) * (b.y - u.y) ≤ 0 := mul_nonpos_of_nonpos_of_nonneg (by linarith) (by linarith)
        linarith
    · rcases same_sign_cases _ _ hp with ⟨h1, h2⟩ | ⟨h1, h2⟩
      · exact ⟨fun ⟨a1, a2, _⟩ => ⟨a1, a2, h2⟩, fun ⟨a1, a2, _⟩ => ⟨a1, a2, h1⟩⟩
      · exact iff_of_false (fun ⟨_, _, h3⟩ => by linarith) (fun ⟨_, _, h3⟩ => by linarith)
  rcases lt_trichotomy a.y b.y with h | h | h
  · exact key a b h hap
  · exact iff_of_false (not_crosses_horizontal a b u h) (not_crosses_horizontal a b q h)
  · rw [crosses_symm a b u, crosses_symm a b q]
    exact key b a h (apartQ_swap_edge u q a b hap)

/-- **`inside` does not change along a segment that is apart from every edge** -/
theorem inside_const_segment (P : QPolygon) (u q : QPt)
    (hap : ∀ e ∈ EO.allEdges P, ApartQ u q e.1 e.2) : inside P u ↔ inside P q := by
  rcases lt_trichotomy u.y q.y with h | h | h
  · exact inside_const_segment_lt P u q h hap
  · unfold inside crossCount
    have : (EO.allEdges P).countP (fun e => decide (crosses e.1 e.2 u)) =
        (EO.allEdges P).countP (fun e => decide (crosses e.1 e.2 q)) := by
      apply List.countP_congr
      intro e he
      simp only [decide_eq_true_eq]
      exact edge_level e.1 e.2 u q h (hap e he)
    rw [this]
  · exact (inside_const_segment_lt P q u h (fun e he => apartQ_swap_seg u q e.1 e.2 (hap e he))).symm


theorem apart_sub (u v a b q : QPt) (h : ApartQ u v a b) (t : ℚ) (ht0 : 0 < t) (ht1 : t ≤ 1)
    (hx : q.x = u.x + t * (v.x - u.x)) (hy : q.y = u.y + t * (v.y - u.y)) : ApartQ u q a b := by
  unfold ApartQ at h ⊢
  rcases h with h | h
  · left
    have e : ∀ w : QPt, orientQ u q w = t * orientQ u v w := by
      intro w; unfold orientQ; rw [hx, hy]; ring
    rw [e a, e b]
    have : t * orientQ u v a * (t * orientQ u v b) = t * t * (orientQ u v a * orientQ u v b) := by ring
    rw [this]
    exact mul_pos (mul_pos ht0 ht0) h
  · right
    have e : orientQ a b q = (1 - t) * orientQ a b u + t * orientQ a b v := by
      unfold orientQ; rw [hx, hy]; ring
    rcases same_sign_cases _ _ h with ⟨h1, h2⟩ | ⟨h1, h2⟩
    · have : 0 < orientQ a b q := by
        rw [e]
        have := mul_nonneg (by linarith : (0:ℚ) ≤ 1 - t) h1.le
        have := mul_pos ht0 h2
        linarith
      exact mul_pos h1 this
    · have : orientQ a b q < 0 := by
        rw [e]
        have := mul_nonpos_of_nonneg_of_nonpos (by linarith : (0:ℚ) ≤ 1 - t) h1.le
        have := mul_neg_of_pos_of_neg ht0 h2
        linarith
      exact mul_pos_of_neg_of_neg h1 this

/-- along an edge that is apart from every edge of `P`, `inside P` is what it is at the edge's first end point -/
theorem inside_on_edge (P : QPolygon) (u v q : QPt) (hap : ∀ e ∈ EO.allEdges P, ApartQ u v e.1 e.2)
    (hq : OnSeg u v q) : inside P q ↔ inside P u := by
  obtain ⟨t, ht0, ht1, hx, hy⟩ := hq
  rcases ht0.lt_or_eq with ht | ht
  · exact (inside_const_segment P u q (fun e he => apart_sub u v e.1 e.2 q (hap e he) t ht ht1 hx hy)).symm
  · have : q = u := by
      cases q; cases u
      simp only [← ht, zero_mul, add_zero] at hx hy
      simp only [QPt.mk.injEq]; exact ⟨hx, hy⟩
    rw [this]

theorem apartQ_symm (a b c d : QPt) (h : ApartQ a b c d) : ApartQ c d a b := by
  unfold ApartQ at h ⊢; exact h.symm

/-- segments that are apart have no point in common -/
theorem apart_no_common (a b c d z : QPt) (h : ApartQ a b c d) (h1 : OnSeg a b z) (h2 : OnSeg c d z) : False := by
  have key : ∀ a b c d z : QPt, 0 < orientQ a b c * orientQ a b d → OnSeg a b z → OnSeg c d z → False := by
    intro a b c d z h h1 h2
    obtain ⟨s, _, _, sx, sy⟩ := h1
    obtain ⟨t, t0, t1, tx, ty⟩ := h2
    have e1 : orientQ a b z = 0 := by unfold orientQ; rw [sx, sy]; ring
    have e2 : orientQ a b z = (1 - t) * orientQ a b c + t * orientQ a b d := by unfold orientQ; rw [tx, ty]; ring
    rcases same_sign_cases _ _ h with ⟨hc, hd⟩ | ⟨hc, hd⟩
    · rcases t0.lt_or_eq with ht | ht
      · have := mul_nonneg (by linarith : (0:ℚ) ≤ 1 - t) hc.le
        have := mul_pos ht hd
        linarith
      · rw [← ht] at e2; linarith
    · rcases t0.lt_or_eq with ht | ht
      · have := mul_nonpos_of_nonneg_of_nonpos (by linarith : (0:ℚ) ≤ 1 - t) hc.le
        have := mul_neg_of_pos_of_neg ht hd
        linarith
      · rw [← ht] at e2; linarith
  rcases h with h | h
  · exact key a b c d z h h1 h2
  · exact key c d a b z h h2 h1

/-- abscissa at which the line through `a b` meets the ordinate `y` -/
def xint (a b : QPt) (y : ℚ) : ℚ := a.x + (y - a.y) * (b.x - a.x) / (b.y - a.y)

theorem crosses_xint (a b p : QPt) :
    crosses a b p ↔ (a.y ≠ b.y ∧ min a.y b.y ≤ p.y ∧ p.y < max a.y b.y ∧ p.x < xint a b p.y) := Iff.rfl

/-- the point at which a crossed edge is hit lies on the edge -/
theorem hit_onSeg (a b p : QPt) (h : crosses a b p) : OnSeg a b ⟨xint a b p.y, p.y⟩ := by
  obtain ⟨hne, h1, h2, _⟩ := h
  have hd : b.y - a.y ≠ 0 := sub_ne_zero.mpr (Ne.symm hne)
  refine ⟨(p.y - a.y) / (b.y - a.y), ?_, ?_, ?_, ?_⟩
  · rcases lt_or_gt_of_ne hne with hlt | hgt
    · rw [min_eq_left hlt.le] at h1
      exact div_nonneg (by linarith) (by linarith)
    · rw [max_eq_left hgt.le] at h2
      exact div_nonneg_of_nonpos (by linarith) (by linarith)
  · rcases lt_or_gt_of_ne hne with hlt | hgt
    · rw [max_eq_right hlt.le] at h2
      rw [div_le_one (by linarith)]; linarith
    · rw [min_eq_right hgt.le] at h1
      rw [div_le_one_of_neg (by linarith)]; linarith
  · simp only [xint]; ring
  · simp only; rw [div_mul_cancel₀ _ hd]; ring

theorem exists_min_image {α : Type} (l : List α) (f : α → ℚ) (h : l ≠ []) : ∃ a ∈ l, ∀ b ∈ l, f a ≤ f b := by
  induction l with
  | nil => exact absurd rfl h
  | cons x t ih =>
    by_cases ht : t = []
    · subst ht; exact ⟨x, List.mem_cons_self, fun b hb => by simp at hb; rw [hb]⟩
    · obtain ⟨a, ha, hmin⟩ := ih ht
      by_cases hxa : f x ≤ f a
      · refine ⟨x, List.mem_cons_self, fun b hb => ?_⟩
        rcases List.mem_cons.mp hb with rfl | hb
        · exact le_refl _
        · exact le_trans hxa (hmin b hb)
      · refine ⟨a, List.mem_cons_of_mem _ ha, fun b hb => ?_⟩
        rcases List.mem_cons.mp hb with rfl | hb
        · push Not at hxa; exact hxa.le
        · exact hmin b hb

/-- moving from `p` to the first hit point `q` on the edge `e` does not change the crossing status of an edge `f` that is
    apart from `e` and is not hit before `e` -/
theorem crosses_transfer (ea eb fa fb p : QPt) (he : crosses ea eb p)
    (hmin : crosses fa fb p → xint ea eb p.y ≤ xint fa fb p.y) (hap : ApartQ ea eb fa fb) :
    crosses fa fb ⟨xint ea eb p.y, p.y⟩ ↔ crosses fa fb p := by
  rw [crosses_xint, crosses_xint]
  simp only
  constructor
  · rintro ⟨h0, h1, h2, h3⟩
    exact ⟨h0, h1, h2, lt_trans he.2.2.2 h3⟩
  · rintro ⟨h0, h1, h2, h3⟩
    have hf : crosses fa fb p := ⟨h0, h1, h2, h3⟩
    refine ⟨h0, h1, h2, lt_of_le_of_ne (hmin hf) ?_⟩
    intro heq
    have z1 := hit_onSeg ea eb p he
    have z2 := hit_onSeg fa fb p hf
    rw [← heq] at z2
    exact apart_no_common ea eb fa fb _ hap z1 z2

/-- **first hit**: if `p` is inside one of two polygons whose boundaries are apart, there is a point `q` on an edge of
    one of them at which the OTHER polygon's `inside` is what it is at `p` -/
theorem first_hit (PA PB : QPolygon)
    (hap : ∀ e ∈ EO.allEdges PA, ∀ f ∈ EO.allEdges PB, ApartQ e.1 e.2 f.1 f.2) (p : QPt)
    (hin : inside PA p ∨ inside PB p) :
    (∃ e ∈ EO.allEdges PA, ∃ q, OnSeg e.1 e.2 q ∧ (inside PB q ↔ inside PB p)) ∨
    (∃ f ∈ EO.allEdges PB, ∃ q, OnSeg f.1 f.2 q ∧ (inside PA q ↔ inside PA p)) := by
  let E := EO.allEdges PA ++ EO.allEdges PB
  let C := E.filter (fun e => decide (crosses e.1 e.2 p))
  have hne : C ≠ [] := by
    have : ∃ e ∈ E, crosses e.1 e.2 p := by
      rcases hin with h | h
      · obtain ⟨e, he, hc⟩ := exists_crossed_of_inside PA p h
        exact ⟨e, List.mem_append_left _ he, hc⟩
      · obtain ⟨e, he, hc⟩ := exists_crossed_of_inside PB p h
        exact ⟨e, List.mem_append_right _ he, hc⟩
    obtain ⟨e, he, hc⟩ := this
    intro hnil
    have : e ∈ C := List.mem_filter.mpr ⟨he, by simpa using hc⟩
    rw [hnil] at this; cases this
  obtain ⟨e, heC, hmin⟩ := exists_min_image C (fun e => xint e.1 e.2 p.y) hne
  obtain ⟨heE, hec⟩ := List.mem_filter.mp heC
  have hec' : crosses e.1 e.2 p := by simpa using hec
  have hminE : ∀ f ∈ E, crosses f.1 f.2 p → xint e.1 e.2 p.y ≤ xint f.1 f.2 p.y := by
    intro f hf hfc
    exact hmin f (List.mem_filter.mpr ⟨hf, by simpa using hfc⟩)
  have transfer : ∀ (P : QPolygon), (∀ f ∈ EO.allEdges P, f ∈ E ∧ ApartQ e.1 e.2 f.1 f.2) →
      (inside P ⟨xint e.1 e.2 p.y, p.y⟩ ↔ inside P p) := by
    intro P hP
    unfold inside crossCount
    have : (EO.allEdges P).countP (fun f => decide (crosses f.1 f.2 ⟨xint e.1 e.2 p.y, p.y⟩)) =
        (EO.allEdges P).countP (fun f => decide (crosses f.1 f.2 p)) := by
      apply List.countP_congr
      intro f hf
      simp only [decide_eq_true_eq]
      exact crosses_transfer e.1 e.2 f.1 f.2 p hec' (hminE f (hP f hf).1) (hP f hf).2
    rw [this]
  rcases List.mem_append.mp heE with heA | heB
  · left
    exact ⟨e, heA, _, hit_onSeg e.1 e.2 p hec',
      transfer PB (fun f hf => ⟨List.mem_append_right _ hf, hap e heA f hf⟩)⟩
  · right
    exact ⟨e, heB, _, hit_onSeg e.1 e.2 p hec',
      transfer PA (fun f hf => ⟨List.mem_append_left _ hf, apartQ_symm _ _ _ _ (hap f hf e heB)⟩)⟩

/-- **disjoint regions**: boundaries apart, no first end point of an edge of one polygon inside the other ⇒ no point is
    inside both -/
theorem disjoint_of_apart (PA PB : QPolygon)
    (hap : ∀ e ∈ EO.allEdges PA, ∀ f ∈ EO.allEdges PB, ApartQ e.1 e.2 f.1 f.2)
    (hA : ∀ e ∈ EO.allEdges PA, ¬ inside PB e.1) (hB : ∀ f ∈ EO.allEdges PB, ¬ inside PA f.1) (p : QPt) :
    ¬ (inside PA p ∧ inside PB p) := by
  rintro ⟨ha, hb⟩
  rcases first_hit PA PB hap p (Or.inl ha) with ⟨e, he, q, hq, hiff⟩ | ⟨f, hf, q, hq, hiff⟩
  · have := inside_on_edge PB e.1 e.2 q (fun f hf => hap e he f hf) hq
    exact hA e he (this.mp (hiff.mpr hb))
  · have := inside_on_edge PA f.1 f.2 q (fun e he => apartQ_symm _ _ _ _ (hap e he f hf)) hq
    exact hB f hf (this.mp (hiff.mpr ha))

/-- **containment**: boundaries apart, every first end point of an edge of `PA` inside `PB`, none of `PB` inside `PA`
    ⇒ the region of `PA` is contained in the region of `PB` -/
theorem subset_of_apart (PA PB : QPolygon)
    (hap : ∀ e ∈ EO.allEdges PA, ∀ f ∈ EO.allEdges PB, ApartQ e.1 e.2 f.1 f.2)
    (hA : ∀ e ∈ EO.allEdges PA, inside PB e.1) (hB : ∀ f ∈ EO.allEdges PB, ¬ inside PA f.1) (p : QPt)
    (ha : inside PA p) : inside PB p := by
  by_contra hb
  rcases first_hit PA PB hap p (Or.inl ha) with ⟨e, he, q, hq, hiff⟩ | ⟨f, hf, q, hq, hiff⟩
  · have := inside_on_edge PB e.1 e.2 q (fun f hf => hap e he f hf) hq
    exact hb (hiff.mp (this.mpr (hA e he)))
  · have := inside_on_edge PA f.1 f.2 q (fun e he => apartQ_symm _ _ _ _ (hap e he f hf)) hq
    exact hB f hf (this.mp (hiff.mpr ha))


theorem orientQ_cast (a b c : EO.Pt) : orientQ (toQ a) (toQ b) (toQ c) = ((EO.orient a b c : Int) : ℚ) := by
  unfold orientQ EO.orient toQ; push_cast; ring

theorem segApart_sound (a b c d : EO.Pt) (h : EO.segApart a b c d = true) :
    ApartQ (toQ a) (toQ b) (toQ c) (toQ d) := by
  unfold EO.segApart at h
  simp only [Bool.or_eq_true, decide_eq_true_eq] at h
  unfold ApartQ
  rw [orientQ_cast, orientQ_cast, orientQ_cast, orientQ_cast]
  rcases h with h | h
  · left; exact_mod_cast h
  · right; exact_mod_cast h

theorem boundariesApart_sound (A B : EO.Polygon)
    (h : EO.boundariesApart (EO.allEdges A) (EO.allEdges B) = true) :
    ∀ e ∈ EO.allEdges (polyQ A), ∀ f ∈ EO.allEdges (polyQ B), ApartQ e.1 e.2 f.1 f.2 := by
  intro e he f hf
  obtain ⟨a, b, hab, rfl⟩ := mem_allEdges_polyQ A e he
  obtain ⟨c, d, hcd, rfl⟩ := mem_allEdges_polyQ B f hf
  unfold EO.boundariesApart at h
  rw [List.all_eq_true] at h
  have h1 := h (a, b) hab
  rw [List.all_eq_true] at h1
  exact segApart_sound a b c d (h1 (c, d) hcd)

theorem starts_outside (A B : EO.Polygon)
    (h : (EO.allEdges A).all (fun e => !(EO.insideE (EO.allEdges B) e.1)) = true) :
    ∀ e ∈ EO.allEdges (polyQ A), ¬ inside (polyQ B) e.1 := by
  intro e he
  obtain ⟨a, b, hab, rfl⟩ := mem_allEdges_polyQ A e he
  rw [List.all_eq_true] at h
  have := h (a, b) hab
  simp only [Bool.not_eq_true', EO.insideE_allEdges] at this
  intro hin
  rw [(inside_toQ B a).mpr hin] at this
  cases this

theorem starts_inside (A B : EO.Polygon)
    (h : (EO.allEdges A).all (fun e => EO.insideE (EO.allEdges B) e.1) = true) :
    ∀ e ∈ EO.allEdges (polyQ A), inside (polyQ B) e.1 := by
  intro e he
  obtain ⟨a, b, hab, rfl⟩ := mem_allEdges_polyQ A e he
  rw [List.all_eq_true] at h
  have := h (a, b) hab
  rw [EO.insideE_allEdges] at this
  exact (inside_toQ B a).mp this

/-- **soundness of `EO.noContact`** -/
theorem noContact_sound (A B : EO.Polygon) (h : EO.noContact A B = true) (p : QPt) :
    ¬ (inside (polyQ A) p ∧ inside (polyQ B) p) := by
  unfold EO.noContact at h
  simp only [Bool.and_eq_true] at h
  obtain ⟨⟨h1, h2⟩, h3⟩ := h
  exact disjoint_of_apart (polyQ A) (polyQ B) (boundariesApart_sound A B h1) (starts_outside A B h2)
    (starts_outside B A h3) p

/-- **soundness of `EO.containedIn`** -/
theorem containedIn_sound (A B : EO.Polygon) (h : EO.containedIn A B = true) (p : QPt)
    (ha : inside (polyQ A) p) : inside (polyQ B) p := by
  unfold EO.containedIn at h
  simp only [Bool.and_eq_true] at h
  obtain ⟨⟨⟨_, h1⟩, h2⟩, h3⟩ := h
  exact subset_of_apart (polyQ A) (polyQ B) (boundariesApart_sound A B h1) (starts_inside A B h2)
    (starts_outside B A h3) p ha

/-- the regions the validator judges empty ARE empty -/
theorem emptyJudged_sound (op : EO.Op) (A B : EO.Polygon) (h : EO.emptyJudged op A B = true) (p : QPt) :
    ¬ holds op (inside (polyQ A) p) (inside (polyQ B) p) := by
  cases op with
  | inter => exact noContact_sound A B h p
  | sub => exact fun ⟨ha, hb⟩ => hb (containedIn_sound A B h p ha)
  | union => simp [EO.emptyJudged] at h
  | xor => simp [EO.emptyJudged] at h

end EOQ
