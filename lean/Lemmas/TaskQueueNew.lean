import Model.TaskQueueNew
/-! C15: properties of `New` (Model/TaskQueueNew.lean). Core Lean only. -/
namespace TQNew
open TQ

/-- whatever the options, the queue has at least one worker -/
theorem newCfg_workers_pos (ncpu : Nat) (opts : List Opt) : 1 ≤ (newCfg ncpu opts).workers := by
  unfold newCfg
  simp only
  split
  · omega
  · omega

/-- the default pool: without a `Workers` option of at least 1 there are `1 + NumCPU` workers -/
theorem newCfg_default_workers (ncpu : Nat) (opts : List Opt) (h : (fields opts).workers < 1) :
    (newCfg ncpu opts).workers = 1 + ncpu := by
  simp [newCfg, h]

/-- a `Workers(n)` with `n ≥ 1` that is not overridden later is obeyed -/
theorem newCfg_workers_obeyed (ncpu : Nat) (opts : List Opt) (h : 1 ≤ (fields opts).workers) :
    ((newCfg ncpu opts).workers : Int) = (fields opts).workers := by
  have : ¬ (fields opts).workers < 1 := by omega
  simp only [newCfg, this, if_false]
  omega

theorem fields_append (a b : List Opt) : fields (a ++ b) = b.foldl apply (fields a) := by
  simp [fields, List.foldl_append]

/-- options are applied in order: the last `Workers` / `Depth` / `RecoveryHandler` wins -/
theorem last_option_wins (opts : List Opt) :
    (∀ n, (fields (opts ++ [.workers n])).workers = n) ∧ (∀ n, (fields (opts ++ [.depth n])).depth = n) ∧
    (∀ b, (fields (opts ++ [.handler b])).handler = b) := by
  refine ⟨fun n => ?_, fun n => ?_, fun b => ?_⟩ <;> simp [fields_append, apply]

/-- an option leaves the other fields alone -/
theorem option_independent (opts : List Opt) (o : Opt) :
    (match o with
     | .workers _ => (fields (opts ++ [o])).depth = (fields opts).depth ∧ (fields (opts ++ [o])).handler = (fields opts).handler
     | .depth _ => (fields (opts ++ [o])).workers = (fields opts).workers ∧ (fields (opts ++ [o])).handler = (fields opts).handler
     | .handler _ => (fields (opts ++ [o])).workers = (fields opts).workers ∧ (fields (opts ++ [o])).depth = (fields opts).depth) := by
  cases o <;> simp [fields_append, apply]

/-- the defaults: unbounded depth, no handler, `1 + NumCPU` workers, `in` of capacity `2·NumCPU` -/
theorem newCfg_defaults (ncpu : Nat) :
    newCfg ncpu [] = { workers := 1 + ncpu, depth := -1, inCap := ncpu * 2, handler := false } := by
  simp [newCfg, fields]

end TQNew
