import Lemmas.U128Basic
/-! C01 helper lemmas: bit-level specifications (`bv : BitVec 128`) of the bitwise operations, shifts and bit queries. -/
namespace U128

theorem bv_toNat (u : U128) : u.bv.toNat = u.toNat := by
  have := u.lo.isLt
  unfold bv toNat
  rw [BitVec.toNat_append, Nat.shiftLeft_eq, Nat.mul_comm, ← Nat.two_pow_add_eq_or_of_lt this, Nat.mul_comm]

theorem bv_inj {u n : U128} (h : u.bv = n.bv) : u = n :=
  toNat_inj (by rw [← bv_toNat, ← bv_toNat, h])

theorem testBit_eq (u : U128) (i : Nat) : u.toNat.testBit i = u.bv.getLsbD i := by
  rw [← bv_toNat]; rfl

theorem and_bv (u n : U128) : (u.and n).bv = u.bv &&& n.bv := by
  unfold bv U128.and
  apply BitVec.eq_of_getLsbD_eq; intro i hi
  simp only [BitVec.getLsbD_append, BitVec.getLsbD_and]
  split <;> rfl
theorem or_bv (u n : U128) : (u.or n).bv = u.bv ||| n.bv := by
  unfold bv U128.or
  apply BitVec.eq_of_getLsbD_eq; intro i hi
  simp only [BitVec.getLsbD_append, BitVec.getLsbD_or]
  split <;> rfl
theorem xor_bv (u n : U128) : (u.xor n).bv = u.bv ^^^ n.bv := by
  unfold bv U128.xor
  apply BitVec.eq_of_getLsbD_eq; intro i hi
  simp only [BitVec.getLsbD_append, BitVec.getLsbD_xor]
  split <;> rfl
theorem not_bv (u : U128) : u.not.bv = ~~~u.bv := by
  unfold bv U128.not
  apply BitVec.eq_of_getLsbD_eq; intro i hi
  have hi' : i < 128 := hi
  simp only [BitVec.getLsbD_append, BitVec.getLsbD_not]
  by_cases h : i < 64
  · simp [h, hi']
  · have : i - 64 < 64 := by omega
    simp [h, hi', this]
theorem andNot_bv (u n : U128) : (u.andNot n).bv = u.bv &&& ~~~n.bv := by
  have e : u.andNot n = u.and n.not := rfl
  rw [e, and_bv, not_bv]

/-- zero-extension of a word -/
def ofW (n : W) : U128 := ⟨0#64, n⟩
theorem ofW_toNat (n : W) : (ofW n).toNat = n.toNat := by simp [ofW, toNat]
theorem andW_eq (u : U128) (n : W) : u.andW n = u.and (ofW n) := by simp [andW, U128.and, ofW]
theorem orW_eq (u : U128) (n : W) : u.orW n = u.or (ofW n) := by simp [orW, U128.or, ofW]
theorem xorW_eq (u : U128) (n : W) : u.xorW n = u.xor (ofW n) := by simp [xorW, U128.xor, ofW]
theorem andNot64_eq (u n : U128) : u.andNot64 n = u.andNot (ofW n.lo) := by
  simp only [andNot64, andNot, ofW, BitVec.not_zero, BitVec.and_allOnes]
theorem shl_lt64 (hi lo : BitVec 64) (n : Nat) (h : n < 64) :
    ((hi <<< n) ||| (lo >>> (64 - n))) ++ (lo <<< n) = (hi ++ lo) <<< n := by
  apply BitVec.eq_of_getLsbD_eq
  intro i hi'
  have hi128 : i < 128 := hi'
  simp only [BitVec.getLsbD_append, BitVec.getLsbD_shiftLeft, BitVec.getLsbD_or, BitVec.getLsbD_ushiftRight]
  by_cases h1 : i < 64
  · by_cases h2 : i < n
    · simp [h1, h2]
    · have h3 : i - n < 64 := by omega
      simp [h1, h2, h3, hi128]
  · have hn : ¬ i < n := by omega
    by_cases h3 : i - n < 64
    · have hj : i - 64 < n := by omega
      have e1 : 64 - n + (i - 64) = i - n := by omega
      simp [h1, h3, hj, hn, e1, hi128]
    · have hj : ¬ i - 64 < n := by omega
      have hge : 64 ≤ 64 - n + (i - 64) := by omega
      have e2 : i - 64 - n = i - n - 64 := by omega
      have hj64 : i - 64 < 64 := by omega
      simp [h1, h3, hj, hn, BitVec.getLsbD_of_ge lo _ hge, e2, hi128, hj64]

theorem shr_lt64 (hi lo : BitVec 64) (n : Nat) (h : n < 64) :
    (hi >>> n) ++ ((lo >>> n) ||| (hi <<< (64 - n))) = (hi ++ lo) >>> n := by
  apply BitVec.eq_of_getLsbD_eq
  intro i hi'
  have hi128 : i < 128 := hi'
  simp only [BitVec.getLsbD_append, BitVec.getLsbD_shiftLeft, BitVec.getLsbD_or, BitVec.getLsbD_ushiftRight]
  by_cases h1 : i < 64
  · by_cases h2 : n + i < 64
    · have hge : i < 64 - n := by omega
      simp [h1, h2, hge]
    · have hge : ¬ i < 64 - n := by omega
      have hlo : 64 ≤ n + i := by omega
      have e : i - (64 - n) = n + i - 64 := by omega
      simp [h1, h2, hge, BitVec.getLsbD_of_ge lo _ hlo, e]
  · have h2 : ¬ n + i < 64 := by omega
    have e : n + (i - 64) = n + i - 64 := by omega
    simp [h1, h2, e]


theorem shl_ge64 (hi lo : BitVec 64) (n : Nat) (h : 64 ≤ n) :
    (lo <<< (n - 64)) ++ 0#64 = (hi ++ lo) <<< n := by
  apply BitVec.eq_of_getLsbD_eq
  intro i hi'
  have hi128 : i < 128 := hi'
  simp only [BitVec.getLsbD_append, BitVec.getLsbD_shiftLeft, BitVec.getLsbD_zero]
  by_cases h1 : i < 64
  · have : i < n := by omega
    simp [h1, this]
  · by_cases h2 : i < n
    · have : i - 64 < n - 64 := by omega
      simp [h1, h2, this]
    · have h3 : ¬ i - 64 < n - 64 := by omega
      have h4 : i - n < 64 := by omega
      have e : i - 64 - (n - 64) = i - n := by omega
      have h5 : i - 64 < 64 := by omega
      simp [h1, h2, h3, h4, e, hi128, h5]

theorem shr_ge64 (hi lo : BitVec 64) (n : Nat) (h : 64 ≤ n) :
    0#64 ++ (hi >>> (n - 64)) = (hi ++ lo) >>> n := by
  apply BitVec.eq_of_getLsbD_eq
  intro i hi'
  simp only [BitVec.getLsbD_append, BitVec.getLsbD_ushiftRight, BitVec.getLsbD_zero]
  have h2 : ¬ n + i < 64 := by omega
  by_cases h1 : i < 64
  · have e : n - 64 + i = n + i - 64 := by omega
    simp [h1, h2, e]
  · have hge : 64 ≤ n + i - 64 := by omega
    simp [h1, h2, BitVec.getLsbD_of_ge hi _ hge]


theorem shl_eq (x : W) (n : Nat) : shl x n = x <<< n := by
  unfold shl; split
  · rfl
  · rw [BitVec.shiftLeft_eq_zero (by omega)]
theorem shr_eq (x : W) (n : Nat) : shr x n = x >>> n := by
  unfold shr; split
  · rfl
  · apply BitVec.eq_of_toNat_eq
    rw [BitVec.toNat_ushiftRight, Nat.shiftRight_eq_div_pow]
    have := x.isLt
    have : x.toNat < 2 ^ n := Nat.lt_of_lt_of_le x.isLt (Nat.pow_le_pow_right (by omega) (by omega))
    simp [Nat.div_eq_of_lt this]

/-- **LeftShift**: the four-way switch of the source is the 128-bit shift, for every count (also ≥ 128) -/
theorem leftShift_bv (u : U128) (n : Nat) : (u.leftShift n).bv = u.bv <<< n := by
  unfold leftShift bv
  split
  · rename_i h; subst h; simp
  split
  · rw [shl_eq]; exact shl_ge64 _ _ _ (by omega)
  split
  · rename_i h; exact shl_lt64 _ _ _ h
  · have : n = 64 := by omega
    subst this
    have := shl_ge64 u.hi u.lo 64 (by omega)
    simpa using this

/-- **RightShift** likewise -/
theorem rightShift_bv (u : U128) (n : Nat) : (u.rightShift n).bv = u.bv >>> n := by
  unfold rightShift bv
  split
  · rename_i h; subst h; simp
  split
  · rw [shr_eq]; exact shr_ge64 _ _ _ (by omega)
  split
  · rename_i h; exact shr_lt64 _ _ _ h
  · have : n = 64 := by omega
    subst this
    have := shr_ge64 u.hi u.lo 64 (by omega)
    simpa using this

theorem leftShift_toNat (u : U128) (n : Nat) : (u.leftShift n).toNat = (u.toNat * 2^n) % 2^128 := by
  rw [← bv_toNat, leftShift_bv, BitVec.toNat_shiftLeft, bv_toNat, Nat.shiftLeft_eq]
theorem rightShift_toNat (u : U128) (n : Nat) : (u.rightShift n).toNat = u.toNat / 2^n := by
  rw [← bv_toNat, rightShift_bv, BitVec.toNat_ushiftRight, bv_toNat, Nat.shiftRight_eq_div_pow]
theorem getLsbD_bv (u : U128) (j : Nat) : u.bv.getLsbD j = if j < 64 then u.lo.getLsbD j else u.hi.getLsbD (j - 64) := by
  unfold bv; rw [BitVec.getLsbD_append]

theorem and_one_toNat (x : W) : (x &&& 1#64).toNat = if x.getLsbD 0 then 1 else 0 := by
  have h1 : (1#64).toNat = 1 := by decide
  rw [BitVec.toNat_and, h1, Nat.and_one_is_mod]
  unfold BitVec.getLsbD
  rw [Nat.testBit_zero]
  split <;> simp_all

/-- **Bit**: `(x >> i) & 1`, zero for every out-of-range index (also negative ones) -/
theorem bit_eq (u : U128) (i : Int) :
    u.bit i = if 0 ≤ i ∧ i < 128 ∧ u.toNat.testBit i.toNat then 1 else 0 := by
  unfold bit
  by_cases h : i < 0 ∨ i > 127
  · have : ¬ (0 ≤ i ∧ i < 128 ∧ u.toNat.testBit i.toNat) := by omega
    rw [if_pos h, if_neg this]
  · rw [if_neg h, testBit_eq, getLsbD_bv]
    have h0 : 0 ≤ i := by omega
    have h1 : i < 128 := by omega
    by_cases h2 : i < 64
    · have h3 : i.toNat < 64 := by omega
      rw [if_pos h2, and_one_toNat, BitVec.getLsbD_ushiftRight, if_pos h3]
      simp [h0, h1]
    · have h3 : ¬ i.toNat < 64 := by omega
      have e : (i - 64).toNat = i.toNat - 64 := by omega
      rw [if_neg h2, and_one_toNat, BitVec.getLsbD_ushiftRight, if_neg h3, e]
      simp [h0, h1]

theorem getLsbD_one_shl (k j : Nat) (hk : k < 64) : ((1#64) <<< k).getLsbD j = decide (j = k) := by
  rw [BitVec.getLsbD_shiftLeft]
  by_cases h : j < k
  · simp [h]; omega
  · by_cases h2 : j = k
    · subst h2; simp [hk]
    · have : j - k ≠ 0 := by omega
      simp [h, h2, BitVec.getLsbD_one, this]

theorem word_clr (x : W) (k j : Nat) (hk : k < 64) :
    (x &&& ~~~((1#64) <<< k)).getLsbD j = if j = k then false else x.getLsbD j := by
  rw [BitVec.getLsbD_and, BitVec.getLsbD_not, getLsbD_one_shl _ _ hk]
  by_cases h : j = k
  · simp [h]
  · by_cases h2 : j < 64
    · simp [h, h2]
    · have : x.getLsbD j = false := BitVec.getLsbD_of_ge x j (by omega)
      simp [h, this]

theorem word_set (x : W) (k j : Nat) (hk : k < 64) :
    (x ||| ((1#64) <<< k)).getLsbD j = if j = k then true else x.getLsbD j := by
  rw [BitVec.getLsbD_or, getLsbD_one_shl _ _ hk]
  by_cases h : j = k <;> simp [h]

/-- **SetBit**: bit `i` becomes `b ≠ 0`, every other bit is unchanged; out-of-range indexes change nothing -/
theorem setBit_getLsbD (u : U128) (i : Int) (b : Nat) (j : Nat) :
    (u.setBit i b).bv.getLsbD j =
      if 0 ≤ i ∧ i < 128 ∧ j = i.toNat then decide (b ≠ 0) else u.bv.getLsbD j := by
  unfold setBit
  by_cases h : i < 0 ∨ i > 127
  · have : ¬ (0 ≤ i ∧ i < 128 ∧ j = i.toNat) := by omega
    rw [if_pos h, if_neg this]
  · rw [if_neg h]
    have h0 : 0 ≤ i := by omega
    have h1 : i < 128 := by omega
    have e : (i - 64).toNat = i.toNat - 64 := by omega
    by_cases hb : b = 0 <;> by_cases h2 : i ≥ 64
    all_goals
      simp only [hb, h2, if_true, if_false, getLsbD_bv, e]
      by_cases hj : j < 64
      all_goals
        simp only [hj, if_true, if_false]
        first
          | rw [word_clr _ _ _ (by omega)]
          | rw [word_set _ _ _ (by omega)]
          | skip
        by_cases hji : j = i.toNat
        all_goals (try simp [hji, h0, h1, hb])
        all_goals (try omega)
/-! ### Len64 / LeadingZeros64 -/
theorem len64_le (x : W) : len64 x ≤ 64 := by
  unfold len64; split
  · omega
  · rename_i h
    have h1 : 2 ^ x.toNat.log2 ≤ x.toNat := Nat.log2_self_le h
    have h2 : x.toNat < 2^64 := x.isLt
    have : 2 ^ x.toNat.log2 < 2 ^ 64 := Nat.lt_of_le_of_lt h1 h2
    have := (Nat.pow_lt_pow_iff_right (a := 2) (by omega)).mp this
    omega
theorem len64_upper (x : W) : x.toNat < 2 ^ len64 x := by
  unfold len64; split
  · omega
  · exact Nat.lt_log2_self
theorem len64_lower (x : W) (h : x.toNat ≠ 0) : 2 ^ (len64 x - 1) ≤ x.toNat := by
  unfold len64; rw [if_neg h]; simpa using Nat.log2_self_le h
theorem len64_zero (x : W) : len64 x = 0 ↔ x.toNat = 0 := by
  unfold len64; split <;> simp_all

theorem toNat_of_hi_zero (u : U128) (h : u.hi = 0#64) : u.toNat = u.lo.toNat := by
  unfold toNat; rw [h]; have : (0#64).toNat = 0 := rfl; rw [this]; omega

theorem hi_ne_zero (u : U128) : u.hi ≠ 0#64 ↔ u.toNat ≥ 2^64 := by
  have := u.hi.isLt; have := u.lo.isLt
  rw [ne_eq, w_eq_iff, BitVec.toNat_ofNat]; unfold toNat; omega

/-- **BitLen** is the bit length of the value -/
theorem bitLen_upper (u : U128) : u.toNat < 2 ^ u.bitLen := by
  have := u.hi.isLt; have := u.lo.isLt
  unfold bitLen; split
  · have h := len64_upper u.hi
    rw [Nat.pow_add]; unfold toNat
    have : u.hi.toNat + 1 ≤ 2 ^ len64 u.hi := h
    have := Nat.mul_le_mul_right (2^64) this
    omega
  · rename_i h
    have h' : u.hi = 0#64 := by simpa using h
    rw [toNat_of_hi_zero u h']; exact len64_upper u.lo
theorem bitLen_lower (u : U128) (h : u.toNat ≠ 0) : 2 ^ (u.bitLen - 1) ≤ u.toNat := by
  have := u.hi.isLt; have := u.lo.isLt
  unfold bitLen; split
  · rename_i hh
    have hz : u.hi.toNat ≠ 0 := by
      intro e; apply hh; apply BitVec.eq_of_toNat_eq; simpa using e
    have h1 := len64_lower u.hi hz
    have h2 : len64 u.hi ≠ 0 := fun e => hz ((len64_zero _).mp e)
    have e : len64 u.hi + 64 - 1 = (len64 u.hi - 1) + 64 := by omega
    rw [e, Nat.pow_add]; unfold toNat
    exact Nat.le_trans (Nat.mul_le_mul_right (2^64) h1) (Nat.le_add_right _ _)
  · rename_i hh
    have h' : u.hi = 0#64 := by simpa using hh
    rw [toNat_of_hi_zero u h'] at h ⊢
    exact len64_lower u.lo h
theorem bitLen_le (u : U128) : u.bitLen ≤ 128 := by
  unfold bitLen; have := len64_le u.hi; have := len64_le u.lo; split <;> omega

/-- **LeadingZeros** = 128 − BitLen -/
theorem leadingZeros_eq (u : U128) : u.leadingZeros = 128 - u.bitLen := by
  unfold leadingZeros bitLen clz
  have := len64_le u.hi; have := len64_le u.lo
  by_cases h : u.hi = 0#64
  · simp only [h, if_true, ne_eq, not_true, if_false]; omega
  · simp only [h, if_false, ne_eq, not_false_eq_true, if_true]; omega

/-! ### TrailingZeros64 -/
theorem ctzAux_spec : ∀ (f x : Nat), x ≠ 0 → x < 2^f →
    x.testBit (ctzAux f x) = true ∧ ∀ j, j < ctzAux f x → x.testBit j = false := by
  intro f
  induction f with
  | zero => intro x h0 h1; simp at h1; omega
  | succ f ih =>
    intro x h0 h1
    unfold ctzAux
    by_cases hx : x % 2 = 1
    · rw [if_pos hx]
      refine ⟨?_, fun j hj => by omega⟩
      rw [Nat.testBit_zero]; simp [hx]
    · rw [if_neg hx]
      have hx2 : x / 2 ≠ 0 := by omega
      have hx3 : x / 2 < 2^f := by rw [Nat.pow_succ] at h1; omega
      obtain ⟨a, b⟩ := ih (x/2) hx2 hx3
      refine ⟨?_, ?_⟩
      · rw [Nat.testBit_succ]; exact a
      · intro j hj
        cases j with
        | zero => rw [Nat.testBit_zero]; simp; omega
        | succ j => rw [Nat.testBit_succ]; exact b j (by omega)
theorem ctzAux_lt : ∀ (f x : Nat), x ≠ 0 → x < 2^f → ctzAux f x < f := by
  intro f
  induction f with
  | zero => intro x h0 h1; simp at h1; omega
  | succ f ih =>
    intro x h0 h1
    unfold ctzAux
    by_cases hx : x % 2 = 1
    · rw [if_pos hx]; omega
    · rw [if_neg hx]
      have hx2 : x / 2 ≠ 0 := by omega
      have hx3 : x / 2 < 2^f := by rw [Nat.pow_succ] at h1; omega
      have := ih (x/2) hx2 hx3; omega

theorem ctz_spec (x : W) (h : x.toNat ≠ 0) :
    ctz x < 64 ∧ x.toNat.testBit (ctz x) = true ∧ ∀ j, j < ctz x → x.toNat.testBit j = false := by
  unfold ctz; rw [if_neg h]
  exact ⟨ctzAux_lt 64 _ h x.isLt, ctzAux_spec 64 _ h x.isLt⟩

theorem lo_testBit (u : U128) (j : Nat) (h : j < 64) : u.toNat.testBit j = u.lo.toNat.testBit j := by
  rw [testBit_eq, getLsbD_bv, if_pos h]; rfl
theorem hi_testBit (u : U128) (j : Nat) : u.toNat.testBit (j + 64) = u.hi.toNat.testBit j := by
  rw [testBit_eq, getLsbD_bv, if_neg (by omega)]; simp; rfl

/-- **TrailingZeros**: 128 for zero, otherwise the index of the lowest set bit -/
theorem trailingZeros_zero (u : U128) (h : u.toNat = 0) : u.trailingZeros = 128 := by
  have := u.hi.isLt; have := u.lo.isLt
  unfold toNat at h
  have h1 : u.hi = 0#64 := BitVec.eq_of_toNat_eq (by simp only [BitVec.toNat_ofNat]; omega)
  have h2 : u.lo = 0#64 := BitVec.eq_of_toNat_eq (by simp only [BitVec.toNat_ofNat]; omega)
  simp [trailingZeros, h1, h2, ctz]
theorem trailingZeros_spec (u : U128) (h : u.toNat ≠ 0) :
    u.trailingZeros < 128 ∧ u.toNat.testBit u.trailingZeros = true ∧
      ∀ j, j < u.trailingZeros → u.toNat.testBit j = false := by
  have := u.hi.isLt; have := u.lo.isLt
  unfold trailingZeros
  by_cases hl : u.lo = 0#64
  · rw [if_pos hl]
    have hl0 : u.lo.toNat = 0 := by rw [hl]; rfl
    have hh : u.hi.toNat ≠ 0 := by unfold toNat at h; omega
    obtain ⟨a, b, c⟩ := ctz_spec u.hi hh
    refine ⟨by omega, ?_, ?_⟩
    · rw [hi_testBit]; exact b
    · intro j hj
      by_cases hj64 : j < 64
      · rw [lo_testBit _ _ hj64, hl0]; simp
      · have : j = (j - 64) + 64 := by omega
        rw [this, hi_testBit]; exact c _ (by omega)
  · rw [if_neg hl]
    have hl0 : u.lo.toNat ≠ 0 := by
      intro e; apply hl; apply BitVec.eq_of_toNat_eq; simpa using e
    obtain ⟨a, b, c⟩ := ctz_spec u.lo hl0
    refine ⟨by omega, ?_, ?_⟩
    · rw [lo_testBit _ _ a]; exact b
    · intro j hj; rw [lo_testBit _ _ (by omega)]; exact c j hj


/-! ### OnesCount64 -/
theorem popAux_eq : ∀ (f x : Nat), popAux f x = (List.range f).countP (fun i => x.testBit i) := by
  intro f
  induction f with
  | zero => intro x; rfl
  | succ f ih =>
    intro x
    rw [List.range_succ_eq_map, List.countP_cons, List.countP_map]
    unfold popAux
    rw [ih (x / 2)]
    have e : ((fun i => x.testBit i) ∘ Nat.succ) = (fun i => (x / 2).testBit i) := by
      funext i; simp [Nat.testBit_succ]
    rw [e, Nat.testBit_zero]
    have : x % 2 = 0 ∨ x % 2 = 1 := by omega
    rcases this with h | h <;> simp [h] <;> omega
theorem range128 : List.range 128 = List.range 64 ++ (List.range 64).map (64 + ·) :=
  List.range_add (n := 64) (m := 64)
theorem t1 (u : U128) : u.onesCount = (List.range 64).countP (fun i => u.hi.toNat.testBit i) + (List.range 64).countP (fun i => u.lo.toNat.testBit i) := by
  unfold onesCount popcount
  rw [popAux_eq, popAux_eq]
theorem b (u : U128) (i : Nat) : u.hi.toNat.testBit i = u.toNat.testBit (64 + i) := by
  rw [Nat.add_comm, hi_testBit]
theorem b2 (u : U128) : (List.range 64).countP (fun i => u.hi.toNat.testBit i) =
      (List.range 64).countP (fun i => u.toNat.testBit (64 + i)) := by
  simp only [b]
theorem onesCount_eq (u : U128) : u.onesCount = (List.range 128).countP (fun i => u.toNat.testBit i) := by
  have a : (List.range 64).countP (fun i => u.lo.toNat.testBit i) = (List.range 64).countP (fun i => u.toNat.testBit i) := by
    apply List.countP_congr
    intro i hi
    simp only [List.mem_range] at hi
    simp only [lo_testBit u i hi]
  rw [t1, range128, List.countP_append, List.countP_map, a, b2, Nat.add_comm]
  rfl
end U128
