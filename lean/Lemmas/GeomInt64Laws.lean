import Lemmas.GeomRect
import Lemmas.GeomInt64
/-! C18: helpers for transporting the rectangle laws from `Int` to `Int64` (they need the `Prop` forms of
    `Lemmas/GeomRect.lean`). -/
namespace Geom

/-- a point of `Int` that is `In` the image of a machine rectangle is the image of a machine point -/
theorem point_representable (q : Point Int) (b : Rect Int64) (hb : b.NoWrap) (hq : q.inRect b.toInt = true) :
    ∃ p : Point Int64, p.toInt = q := by
  have := (Rect.inRect_iff q b.toInt).mp hq
  obtain ⟨_, h1, h2, h3, h4⟩ := this
  simp only [Rect.toInt, Rect.right, Rect.bottom] at h1 h2 h3 h4
  obtain ⟨n1, n2, n3, n4⟩ := hb
  have bx := Int64.le_toInt b.x
  have by_ := Int64.le_toInt b.y
  refine ⟨⟨Int64.ofInt q.x, Int64.ofInt q.y⟩, ?_⟩
  simp only [Point.toInt]
  rw [Int64.toInt_ofInt_of_le (by omega) (by omega), Int64.toInt_ofInt_of_le (by omega) (by omega)]

theorem intersect_int_range (A B : Rect Int)
    (hA : (-2 ^ 62 ≤ A.x ∧ A.x < 2 ^ 62) ∧ (-2 ^ 62 ≤ A.y ∧ A.y < 2 ^ 62) ∧
      (-2 ^ 62 ≤ A.x + A.w ∧ A.x + A.w < 2 ^ 62) ∧ (-2 ^ 62 ≤ A.y + A.h ∧ A.y + A.h < 2 ^ 62))
    (hB : (-2 ^ 62 ≤ B.x ∧ B.x < 2 ^ 62) ∧ (-2 ^ 62 ≤ B.y ∧ B.y < 2 ^ 62) ∧
      (-2 ^ 62 ≤ B.x + B.w ∧ B.x + B.w < 2 ^ 62) ∧ (-2 ^ 62 ≤ B.y + B.h ∧ B.y + B.h < 2 ^ 62)) :
    -2 ^ 63 ≤ (A.intersect B).x + (A.intersect B).w ∧ (A.intersect B).x + (A.intersect B).w < 2 ^ 63 ∧
    -2 ^ 63 ≤ (A.intersect B).y + (A.intersect B).h ∧ (A.intersect B).y + (A.intersect B).h < 2 ^ 63 := by
  obtain ⟨⟨a1, a2⟩, ⟨a3, a4⟩, ⟨a5, a6⟩, ⟨a7, a8⟩⟩ := hA
  obtain ⟨⟨b1, b2⟩, ⟨b3, b4⟩, ⟨b5, b6⟩, ⟨b7, b8⟩⟩ := hB
  rw [Rect.intersect_eq]
  by_cases h1 : A.Empty ∨ B.Empty
  · rw [if_pos h1]; dsimp only [Rect.zero]; omega
  · rw [if_neg h1]
    by_cases h2 : min A.right B.right - max A.x B.x ≤ 0 ∨ min A.bottom B.bottom - max A.y B.y ≤ 0
    · rw [if_pos h2]; dsimp only [Rect.zero]; omega
    · rw [if_neg h2]; dsimp only [Rect.right, Rect.bottom]; omega

/-- the intersection of two `Half` rectangles does not wrap -/
theorem intersect_noWrap (a b : Rect Int64) (ha : a.Half) (hb : b.Half) : (a.intersect b).NoWrap := by
  have e := intersect_toInt a b ha hb
  have ex : (a.intersect b).x.toInt = (a.toInt.intersect b.toInt).x := by rw [← e]; rfl
  have ey : (a.intersect b).y.toInt = (a.toInt.intersect b.toInt).y := by rw [← e]; rfl
  have ew : (a.intersect b).w.toInt = (a.toInt.intersect b.toInt).w := by rw [← e]; rfl
  have eh : (a.intersect b).h.toInt = (a.toInt.intersect b.toInt).h := by rw [← e]; rfl
  unfold Rect.NoWrap
  rw [ex, ey, ew, eh]
  exact intersect_int_range a.toInt b.toInt ha hb

theorem union_int_range (A B : Rect Int)
    (hA : (-2 ^ 62 ≤ A.x ∧ A.x < 2 ^ 62) ∧ (-2 ^ 62 ≤ A.y ∧ A.y < 2 ^ 62) ∧
      (-2 ^ 62 ≤ A.x + A.w ∧ A.x + A.w < 2 ^ 62) ∧ (-2 ^ 62 ≤ A.y + A.h ∧ A.y + A.h < 2 ^ 62))
    (hB : (-2 ^ 62 ≤ B.x ∧ B.x < 2 ^ 62) ∧ (-2 ^ 62 ≤ B.y ∧ B.y < 2 ^ 62) ∧
      (-2 ^ 62 ≤ B.x + B.w ∧ B.x + B.w < 2 ^ 62) ∧ (-2 ^ 62 ≤ B.y + B.h ∧ B.y + B.h < 2 ^ 62)) :
    -2 ^ 63 ≤ (A.union B).x + (A.union B).w ∧ (A.union B).x + (A.union B).w < 2 ^ 63 ∧
    -2 ^ 63 ≤ (A.union B).y + (A.union B).h ∧ (A.union B).y + (A.union B).h < 2 ^ 63 := by
  obtain ⟨⟨a1, a2⟩, ⟨a3, a4⟩, ⟨a5, a6⟩, ⟨a7, a8⟩⟩ := hA
  obtain ⟨⟨b1, b2⟩, ⟨b3, b4⟩, ⟨b5, b6⟩, ⟨b7, b8⟩⟩ := hB
  rw [Rect.union_eq]
  by_cases h1 : A.Empty ∧ B.Empty
  · rw [if_pos h1]; dsimp only [Rect.zero]; omega
  · rw [if_neg h1]
    by_cases h2 : A.Empty
    · rw [if_pos h2]; omega
    · rw [if_neg h2]
      by_cases h3 : B.Empty
      · rw [if_pos h3]; omega
      · rw [if_neg h3]; dsimp only [Rect.right, Rect.bottom]; omega

/-- the union of two `Half` rectangles does not wrap -/
theorem union_noWrap (a b : Rect Int64) (ha : a.Half) (hb : b.Half) : (a.union b).NoWrap := by
  have e := union_toInt a b ha hb
  have ex : (a.union b).x.toInt = (a.toInt.union b.toInt).x := by rw [← e]; rfl
  have ey : (a.union b).y.toInt = (a.toInt.union b.toInt).y := by rw [← e]; rfl
  have ew : (a.union b).w.toInt = (a.toInt.union b.toInt).w := by rw [← e]; rfl
  have eh : (a.union b).h.toInt = (a.toInt.union b.toInt).h := by rw [← e]; rfl
  unfold Rect.NoWrap
  rw [ex, ey, ew, eh]
  exact union_int_range a.toInt b.toInt ha hb

end Geom
