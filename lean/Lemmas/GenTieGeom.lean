import Generated.SSA_Geom
import Model.Geom
import Mathlib.Tactic.SplitIfs
import Mathlib.Tactic.Tauto
/-! C18 / C07, translator tie: the bridge between the definitions that `gossa/ssagen … geom` regenerates from package
    `xmath/geom` (`Generated/SSA_Geom.lean`: generic over an abstract coordinate type `α` with exactly the operations the
    Go body uses; `Rect[T]` is a `Point[T]` and a `Size[T]` as in the source) and the hand-written model
    (`Model/Geom.lean`: the same operations, flat records).  `flatR` … forget the nesting; no law of `α` is needed for
    the shapes the model was transcribed from (the proofs are propositional), and none is assumed. -/
namespace GenTieGeom
open Gen

def flatP {α : Type} (p : Geom_Point α) : Geom.Point α := ⟨p.X, p.Y⟩
def flatR {α : Type} (r : Geom_Rect α) : Geom.Rect α := ⟨r.Point.X, r.Point.Y, r.Size.Width, r.Size.Height⟩
def flatI {α : Type} (i : Geom_Insets α) : Geom.Insets α := ⟨i.Top, i.Left, i.Bottom, i.Right⟩
def flatM {α : Type} (m : Geom_Matrix α) : Geom.Matrix α := ⟨m.ScaleX, m.SkewX, m.TransX, m.SkewY, m.ScaleY, m.TransY⟩

end GenTieGeom

/-- `geo_tie [the generated definition, its model function] [model helpers]`: state a `Bool` equation as an
    equivalence; unfold the two functions under study while turning `Bool` connectives into propositions, THEN the
    helpers they call (every other generated definition, `gen_def`, and the listed model helpers), THEN the flattening
    maps — in this order and with the `if`s split after each step, so that the `Decidable` instance of a `decide` or an
    `if` still matches its proposition when it is eliminated; close each case propositionally (`simp_all`, `tauto`: the comparisons of `α` are opaque atoms) -/
syntax "geo_tie" "[" Lean.Parser.Tactic.simpLemma,* "]" "[" Lean.Parser.Tactic.simpLemma,* "]" : tactic
macro_rules
  | `(tactic| geo_tie [$ts,*] []) => `(tactic| geo_tie [$ts,*] [eq_self_iff_true])
  | `(tactic| geo_tie [$ts,*] [$ls,*]) => `(tactic|
      (try with_reducible refine Bool.eq_iff_iff.mpr ?_) <;>
      (simp only [$ts,*, Bool.and_eq_true, Bool.or_eq_true, decide_eq_true_eq, Bool.ite_eq_true_distrib,
        Bool.ite_eq_false_distrib, Bool.not_eq_true', decide_eq_false_iff_not, Bool.false_eq_true, Bool.true_eq_false,
        eq_self_iff_true]) <;>
      (try split_ifs) <;>
      (try simp only [gen_def, $ls,*, Bool.and_eq_true, Bool.or_eq_true, decide_eq_true_eq, Bool.ite_eq_true_distrib,
        Bool.ite_eq_false_distrib, Bool.not_eq_true', decide_eq_false_iff_not, Bool.false_eq_true, Bool.true_eq_false,
        eq_self_iff_true] at *) <;>
      (try split_ifs at *) <;>
      (try simp only [GenTieGeom.flatP, GenTieGeom.flatR, GenTieGeom.flatI, GenTieGeom.flatM, gt_iff_lt, ge_iff_le]
        at *) <;>
      first
      | with_reducible rfl
      | (simp_all only [not_true_eq_false, not_false_eq_true, and_self, and_true,
          true_and, and_false, false_and, or_self, or_true, true_or, or_false, false_or, iff_self, iff_true, true_iff,
          iff_false, false_iff, not_and, not_or, not_not, imp_self, implies_true, Geom.Rect.mk.injEq,
          Geom.Point.mk.injEq, gt_iff_lt, ge_iff_le, Geom.Rect.zero, decide_eq_decide] <;> done)
      | (simp_all <;> done)
      | ((try simp_all) <;> (repeat' split) <;> (try simp_all) <;> done)
      | tauto
      | ((try simp only [if_false_right, if_false_left, if_true_left, if_true_right] at *) <;> tauto))
