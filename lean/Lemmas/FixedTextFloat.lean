import Lemmas.FixedTextLiteral
/-! C04 helper lemmas, part 8: float-target CheckedAs reduced to the contracts of strconv.ParseFloat / FormatFloat. -/
namespace FixedText

/-- the decimal text `t` denotes the number ±N / 10^k: sign, integer digits, optionally '.' and `k` fraction digits,
    `N` = all the digits read as one number -/
def Denotes (t : Str) (neg : Bool) (N k : Nat) : Prop :=
  ∃ ip fp : Str, t = (if neg then [45] else []) ++ ip ++ (if fp = [] then [] else 46 :: fp) ∧ ip ≠ [] ∧
    (∀ c ∈ ip, isDigit c = true) ∧ (∀ c ∈ fp, isDigit c = true) ∧ N = parseDigits (ip ++ fp) ∧ k = fp.length

/-- `String()` denotes exactly raw / 10^p: some `N / 10^k` with `N · 10^(p−k) = |raw|`, `k ≤ p` -/
theorem toStr_denotes (p : Nat) (raw : Int) :
    ∃ N k, Denotes (toStr (10^p) raw) (decide (raw < 0)) N k ∧ k ≤ p ∧ N * 10^(p - k) = raw.natAbs := by
  obtain ⟨hne, hip, _, hfpd, hlen, _, hfp0⟩ := toStr_canonical p raw
  have hv := toStr_value p raw
  simp only at hv
  generalize hfp : (if raw.tmod (10^p) = 0 then [] else fracStr p (raw.tmod (10^p)).natAbs) = fp at *
  refine ⟨parseDigits (natStr (raw.tdiv (10^p)).natAbs ++ fp), fp.length, ⟨_, fp, ?_, hne, hip, hfpd, rfl, rfl⟩, hlen, hv⟩
  rw [toStr_decomp]
  have htl : (if raw.tmod (10^p) = 0 then [] else 46 :: fracStr p (raw.tmod (10^p)).natAbs) =
      (if fp = [] then [] else 46 :: fp) := by
    by_cases h0 : raw.tmod (10^p) = 0
    · rw [if_pos h0, if_pos (hfp0.mpr h0)]
    · rw [if_neg h0, if_neg (fun h => h0 (hfp0.mp h)), ← hfp, if_neg h0]
  rw [htl]
  simp only [decide_eq_true_eq]

/-- The contract of the stdlib functions, as named hypotheses.  `nearest neg N k` stands for "the float of the target
    type nearest to ±N/10^k" and `shortest x` for "the shortest decimal text that reads back as x" — the two notions
    in the wording of the property. -/
structure StrconvContract {F : Type} (parseFloat : Str → F) (formatFloat : F → Str)
    (nearest : Bool → Nat → Nat → F) (shortest : F → Str) : Prop where
  /-- strconv.ParseFloat is correctly rounded: a decimal text reads as the float nearest to the number it denotes -/
  parse_nearest : ∀ t neg N k, Denotes t neg N k → parseFloat t = nearest neg N k
  /-- strconv.FormatFloat(x, 'f', -1, bits) is the shortest round-trip text -/
  format_shortest : ∀ x, formatFloat x = shortest x
  /-- `nearest` depends on the value only: ±N/10^k = ±(N·10^j)/10^(k+j) -/
  nearest_scale : ∀ neg N k j, nearest neg (N * 10^j) (k + j) = nearest neg N k

theorem nearest_of_denotes {F : Type} {parseFloat : Str → F} {formatFloat : F → Str}
    {nearest : Bool → Nat → Nat → F} {shortest : F → Str} (h : StrconvContract parseFloat formatFloat nearest shortest)
    (p : Nat) (raw : Int) : parseFloat (toStr (10^p) raw) = nearest (decide (raw < 0)) raw.natAbs p := by
  obtain ⟨N, k, hd, hk, hN⟩ := toStr_denotes p raw
  rw [h.parse_nearest _ _ _ _ hd, ← hN]
  have := h.nearest_scale (decide (raw < 0)) N k (p - k)
  rw [show k + (p - k) = p by omega] at this
  exact this.symm

end FixedText
