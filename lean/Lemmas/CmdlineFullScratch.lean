import Lemmas.CmdlineDecl
namespace Cmd

theorem digits_ge (base : Nat) (s : Str) : ∀ (a m : Nat), digits base s a = some m → a ≤ m := by
  induction s with
  | nil => intro a m h; simp [digits] at h; omega
  | cons c t ih =>
    intro a m h
    unfold digits at h
    by_cases hc : c = 95
    · simp only [hc, if_true] at h; exact ih a m h
    · simp only [hc, if_false] at h
      cases hd : digitVal c with
      | none => simp [hd] at h
      | some d =>
        simp only [hd] at h
        by_cases hb : d < base
        · simp only [hb, if_true] at h
          have := ih _ m h
          have : a ≤ a * base := Nat.le_mul_of_pos_right a (by omega)
          omega
        · simp [hb] at h

/-- the scan-order digit loop accepts exactly the strings the unbounded loop accepts with a value within the limit -/
theorem scanU_ok (base M : Nat) (s : Str) : ∀ (a m : Nat), a ≤ M →
    (scanU base M s a = .ok m ↔ digits base s a = some m ∧ m ≤ M) := by
  induction s with
  | nil =>
    intro a m ha
    simp only [scanU, digits, ScanRes.ok.injEq, Option.some.injEq]
    constructor
    · intro h; subst h; exact ⟨rfl, ha⟩
    · intro h; exact h.1
  | cons c t ih =>
    intro a m ha
    unfold scanU digits
    by_cases hc : c = 95
    · simp only [hc, if_true]; exact ih a m ha
    · simp only [hc, if_false]
      cases hd : digitVal c with
      | none => simp
      | some d =>
        simp only
        by_cases hb : d < base
        · have hb' : ¬ base ≤ d := by omega
          simp only [hb, hb', if_true, if_false]
          by_cases hr : M < a * base + d
          · simp only [hr, if_true]
            constructor
            · intro h; cases h
            · intro ⟨h1, h2⟩
              have := digits_ge base t _ m h1
              omega
          · simp only [hr, if_false]
            exact ih _ m (by omega)
        · have hb' : base ≤ d := by omega
          simp [hb, hb']

/-- `ParseUint` with its error values accepts exactly what `Cmd.parseUint` accepts, with the same value -/
theorem parseUintFull_ok (bits : Nat) (s : Str) (n : Nat) :
    parseUintFull bits s = .ok n ↔ parseUint bits s = some (n : Int) := by
  have hpow : 0 < 2 ^ bits := Nat.pos_of_ne_zero (by simp)
  unfold parseUintFull parseUint parseNat
  by_cases hs : s = []
  · simp [hs]
  · simp only [hs, if_false]
    generalize (s.contains 95 && !underscoreOK s) = u
    cases hsc : scanU (splitBase s).1 (2 ^ bits - 1) (splitBase s).2 0 with
    | ok m =>
      have := (scanU_ok _ _ _ 0 m (by omega)).1 hsc
      simp only [this.1]
      cases u
      · simp only [Bool.false_eq_true, if_false, ScanRes.ok.injEq]
        have hm : m < 2 ^ bits := by omega
        simp only [hm, if_true, Option.some.injEq]
        constructor
        · intro h; subst h; rfl
        · intro h; exact Int.ofNat.inj h
      · simp
    | «syntax» =>
      simp only
      constructor
      · intro h; cases h
      · intro h
        exfalso
        cases hdg : digits (splitBase s).1 (splitBase s).2 0 with
        | none => simp [hdg] at h
        | some m =>
          simp only [hdg] at h
          cases u
          · simp only [Bool.false_eq_true, if_false] at h
            by_cases hm : m < 2 ^ bits
            · have := (scanU_ok (splitBase s).1 (2 ^ bits - 1) (splitBase s).2 0 m (by omega)).2 ⟨hdg, by omega⟩
              rw [hsc] at this; cases this
            · simp [hm] at h
          · simp at h
    | range =>
      simp only
      constructor
      · intro h; cases h
      · intro h
        exfalso
        cases hdg : digits (splitBase s).1 (splitBase s).2 0 with
        | none => simp [hdg] at h
        | some m =>
          simp only [hdg] at h
          cases u
          · simp only [Bool.false_eq_true, if_false] at h
            by_cases hm : m < 2 ^ bits
            · have := (scanU_ok (splitBase s).1 (2 ^ bits - 1) (splitBase s).2 0 m (by omega)).2 ⟨hdg, by omega⟩
              rw [hsc] at this; cases this
            · simp [hm] at h
          · simp at h

end Cmd

namespace Cmd

theorem parseUint_some (bits : Nat) (s : Str) (n : Nat) :
    parseUint bits s = some (n : Int) ↔ parseNat s = some n ∧ n < 2 ^ bits := by
  unfold parseUint
  cases h : parseNat s with
  | none => simp
  | some m =>
    simp only [Option.some.injEq]
    by_cases hm : m < 2 ^ bits
    · simp only [hm, if_true, Option.some.injEq]
      constructor
      · intro e; have : m = n := Int.ofNat.inj e; subst this; exact ⟨rfl, hm⟩
      · intro ⟨e, _⟩; subst e; rfl
    · simp only [hm, if_false]
      constructor
      · intro e; cases e
      · intro ⟨e, h2⟩; subst e; exact absurd h2 hm

/-- the three outcomes of `parseUintFull`, read through `parseNat` -/
theorem parseUintFull_cases (bits : Nat) (s : Str) :
    (∃ n, parseUintFull bits s = .ok n ∧ parseNat s = some n ∧ n < 2 ^ bits) ∨
    ((∀ n, parseUintFull bits s ≠ .ok n) ∧ ∀ n, parseNat s = some n → ¬ n < 2 ^ bits) := by
  cases h : parseUintFull bits s with
  | ok n =>
    left
    exact ⟨n, rfl, (parseUint_some bits s n).1 ((parseUintFull_ok bits s n).1 h)⟩
  | «syntax» =>
    right
    refine ⟨(by intro n e; cases e), ?_⟩
    intro n hn hlt
    have := (parseUintFull_ok bits s n).2 ((parseUint_some bits s n).2 ⟨hn, hlt⟩)
    rw [h] at this; cases this
  | range =>
    right
    refine ⟨(by intro n e; cases e), ?_⟩
    intro n hn hlt
    have := (parseUintFull_ok bits s n).2 ((parseUint_some bits s n).2 ⟨hn, hlt⟩)
    rw [h] at this; cases this

end Cmd
