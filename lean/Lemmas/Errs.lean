import Model.Errs
/-! C11 heap lemmas: chains as a relation, the heap invariant `WF`, frame lemmas for the two kinds of write
    (`setNext`, allocation of a fresh block), and the assembly over `appendLoop`. Core-only. -/
namespace Errs

/-! ### congruence: a chain is determined by the cells it visits (design Appendix C) -/

theorem chain_succ (h : Heap) (f id : Nat) :
    chain h (f + 1) id = id :: (match nextOf h id with | some j => chain h f j | none => []) := rfl

theorem chain_congr (h h' : Heap) (fuel id : Nat) (hag : ∀ i ∈ chain h fuel id, h'[i]? = h[i]?) :
    chain h' fuel id = chain h fuel id := by
  induction fuel generalizing id with
  | zero => rfl
  | succ f ih =>
    have hid : h'[id]? = h[id]? := hag id (by simp [chain])
    have hn : nextOf h' id = nextOf h id := by unfold nextOf; rw [hid]
    simp only [chain, hn]
    cases hnx : nextOf h id with
    | none => rfl
    | some j =>
      simp only
      rw [ih j (fun i hi => hag i (by simp [chain, hnx, hi]))]

theorem filterMap_congr' {α β : Type} (f g : α → Option β) (l : List α) (h : ∀ x ∈ l, f x = g x) :
    l.filterMap f = l.filterMap g := by
  induction l with
  | nil => rfl
  | cons a l ih =>
    simp only [List.filterMap_cons, h a (by simp)]
    rw [ih (fun x hx => h x (by simp [hx]))]

theorem items_congr (h h' : Heap) (fuel id : Nat) (hag : ∀ i ∈ chain h fuel id, h'[i]? = h[i]?) :
    itemsAt h' fuel id = itemsAt h fuel id := by
  unfold itemsAt
  rw [chain_congr h h' fuel id hag]
  apply filterMap_congr'
  intro i hi
  rw [hag i hi]

theorem setNext_other (h : Heap) (e j i : Nat) (hne : i ≠ e) : (setNext h e j)[i]? = h[i]? := by
  unfold setNext
  rw [Array.getElem?_modify]
  have : ¬ e = i := fun x => hne x.symm
  simp [this]

theorem setNext_size (h : Heap) (e j : Nat) : (setNext h e j).size = h.size := by
  unfold setNext; simp

theorem nextOf_setNext_same (h : Heap) (e n : Nat) (he : e < h.size) : nextOf (setNext h e n) e = some n := by
  unfold nextOf setNext
  rw [Array.getElem?_modify]
  simp [he]

theorem nextOf_setNext_other (h : Heap) (e n a : Nat) (hne : a ≠ e) : nextOf (setNext h e n) a = nextOf h a := by
  unfold nextOf; rw [setNext_other h e n a hne]

theorem nextOf_congr (h h' : Heap) (i : Nat) (hi : h'[i]? = h[i]?) : nextOf h' i = nextOf h i := by
  unfold nextOf; rw [hi]

theorem isEmpty_congr (h h' : Heap) (i : Nat) (hi : h'[i]? = h[i]?) : isEmpty h' i = isEmpty h i := by
  unfold isEmpty; rw [hi]

/-! ### chains as a relation: `Chain h id l e` — walking from `id` visits exactly `l` and stops at `e` -/

inductive Chain (h : Heap) : Nat → List Nat → Nat → Prop
  | last (id : Nat) : nextOf h id = none → Chain h id [id] id
  | step (id j : Nat) (l : List Nat) (e : Nat) : nextOf h id = some j → Chain h j l e → Chain h id (id :: l) e

theorem Chain.ne_nil {h : Heap} {id e : Nat} {l : List Nat} (c : Chain h id l e) : l ≠ [] := by
  cases c <;> simp

theorem Chain.head_mem {h : Heap} {id e : Nat} {l : List Nat} (c : Chain h id l e) : id ∈ l := by
  cases c <;> simp

theorem Chain.tail_mem {h : Heap} {id e : Nat} {l : List Nat} (c : Chain h id l e) : e ∈ l := by
  induction c with
  | last id _ => simp
  | step id j l e _ _ ih => simp [ih]

theorem Chain.tail_next {h : Heap} {id e : Nat} {l : List Nat} (c : Chain h id l e) : nextOf h e = none := by
  induction c with
  | last id hn => exact hn
  | step id j l e _ _ ih => exact ih

/-- the executable walk computes the relation's list … -/
theorem Chain.chain_eq {h : Heap} {id e : Nat} {l : List Nat} (c : Chain h id l e) :
    ∀ fuel, l.length ≤ fuel → chain h fuel id = l := by
  induction c with
  | last id hn =>
    intro fuel hf
    obtain ⟨f, rfl⟩ : ∃ f, fuel = f + 1 := ⟨fuel - 1, by simp at hf; omega⟩
    simp [chain, hn]
  | step id j l e hn _ ih =>
    intro fuel hf
    obtain ⟨f, rfl⟩ : ∃ f, fuel = f + 1 := ⟨fuel - 1, by simp at hf; omega⟩
    simp only [chain, hn]
    rw [ih f (by simp at hf; omega)]

/-- … and its end -/
theorem Chain.tailOf_eq {h : Heap} {id e : Nat} {l : List Nat} (c : Chain h id l e) :
    ∀ fuel, l.length ≤ fuel → tailOf h fuel id = e := by
  induction c with
  | last id hn =>
    intro fuel hf
    obtain ⟨f, rfl⟩ : ∃ f, fuel = f + 1 := ⟨fuel - 1, by simp at hf; omega⟩
    simp [tailOf, hn]
  | step id j l e hn _ ih =>
    intro fuel hf
    obtain ⟨f, rfl⟩ : ∃ f, fuel = f + 1 := ⟨fuel - 1, by simp at hf; omega⟩
    simp only [tailOf, hn]
    exact ih f (by simp at hf; omega)

theorem Chain.unique {h : Heap} {id e e' : Nat} {l l' : List Nat} (c : Chain h id l e) (c' : Chain h id l' e') :
    l = l' ∧ e = e' := by
  induction c generalizing l' e' with
  | last id hn =>
    cases c' with
    | last _ _ => exact ⟨rfl, rfl⟩
    | step _ j _ _ hn' _ => rw [hn] at hn'; cases hn'
  | step id j l e hn _ ih =>
    cases c' with
    | last _ hn' => rw [hn] at hn'; cases hn'
    | step _ j' l'' _ hn' c'' =>
      rw [hn] at hn'; cases hn'
      obtain ⟨h1, h2⟩ := ih c''
      exact ⟨by rw [h1], h2⟩

/-- frame: a heap that agrees on the visited cells has the same chain -/
theorem Chain.congr {h h' : Heap} {id e : Nat} {l : List Nat} (c : Chain h id l e)
    (hag : ∀ i ∈ l, h'[i]? = h[i]?) : Chain h' id l e := by
  induction c with
  | last id hn =>
    exact Chain.last id (by rw [nextOf_congr h h' id (hag id (by simp))]; exact hn)
  | step id j l e hn _ ih =>
    exact Chain.step id j l e (by rw [nextOf_congr h h' id (hag id (by simp))]; exact hn)
      (ih (fun i hi => hag i (by simp [hi])))

/-- **linking**: after the end `e` of a chain is pointed at the head `n` of a chain that does not contain `e`, the first
    chain is followed by the second -/
theorem Chain.link {h : Heap} {a e n e' : Nat} {la lb : List Nat} (ca : Chain h a la e) (cb : Chain h n lb e')
    (he : e < h.size) (hB : e ∉ lb) : Chain (setNext h e n) a (la ++ lb) e' := by
  have cb' : Chain (setNext h e n) n lb e' :=
    cb.congr (fun i hi => setNext_other h e n i (fun x => hB (x ▸ hi)))
  have hnone := ca.tail_next
  induction ca with
  | last id _ =>
    exact Chain.step id n lb e' (nextOf_setNext_same h id n he) cb'
  | step id j l e hn c ih =>
    have hne : id ≠ e := by intro x; rw [x, c.tail_next] at hn; cases hn
    exact Chain.step id j (l ++ lb) e' (by rw [nextOf_setNext_other h e n id hne]; exact hn) (ih he hB cb' hnone)

/-! ### the heap invariant: links point forward, stay inside the heap and never reach an empty node
    (true of every heap the exported API can build: `Append` links only fresh, non-empty cells) -/

def WF (h : Heap) : Prop := ∀ i j, nextOf h i = some j → i < j ∧ j < h.size ∧ isEmpty h j = false

theorem nextOf_lt_size {h : Heap} {i j : Nat} (hn : nextOf h i = some j) : i < h.size := by
  unfold nextOf at hn
  cases hi : h[i]? with
  | none => rw [hi] at hn; cases hn
  | some n => exact (Array.getElem?_eq_some_iff.mp hi).1

/-- in a well-formed heap every cell starts a chain; it is ascending, inside the heap and short enough for `fuelOf` -/
theorem WF.exists_chain {h : Heap} (hwf : WF h) : ∀ (k id : Nat), h.size - id ≤ k → id < h.size →
    ∃ l e, Chain h id l e ∧ l.length ≤ h.size - id ∧ (∀ i ∈ l, id ≤ i ∧ i < h.size) := by
  intro k
  induction k with
  | zero => intro id hk hid; omega
  | succ k ih =>
    intro id hk hid
    cases hn : nextOf h id with
    | none => exact ⟨[id], id, Chain.last id hn, by simp; omega, by simp; omega⟩
    | some j =>
      obtain ⟨h1, h2, _⟩ := hwf id j hn
      obtain ⟨l, e, c, hl, hm⟩ := ih j (by omega) h2
      refine ⟨id :: l, e, Chain.step id j l e hn c, by simp; omega, ?_⟩
      intro i hi
      simp at hi
      rcases hi with rfl | hi
      · omega
      · have := hm i hi; omega

/-- the executable walk with the model's fuel is the chain -/
theorem WF.chain_spec {h : Heap} (hwf : WF h) {id : Nat} (hid : id < h.size) :
    Chain h id (chain h (fuelOf h) id) (tailOf h (fuelOf h) id) ∧ (∀ i ∈ chain h (fuelOf h) id, id ≤ i ∧ i < h.size) := by
  obtain ⟨l, e, c, hl, hm⟩ := hwf.exists_chain (h.size - id) id (Nat.le_refl _) hid
  have hf : l.length ≤ fuelOf h := by unfold fuelOf; omega
  rw [c.chain_eq _ hf, c.tailOf_eq _ hf]
  exact ⟨c, hm⟩

theorem Chain.bounds {h : Heap} (hwf : WF h) {id e : Nat} {l : List Nat} (c : Chain h id l e) (hid : id < h.size) :
    l.length ≤ h.size ∧ (∀ i ∈ l, id ≤ i ∧ i < h.size) ∧ l = chain h (fuelOf h) id ∧ e = tailOf h (fuelOf h) id := by
  obtain ⟨l', e', c', hl, hm⟩ := hwf.exists_chain (h.size - id) id (Nat.le_refl _) hid
  obtain ⟨rfl, rfl⟩ := c.unique c'
  have hf : l.length ≤ fuelOf h := by unfold fuelOf; omega
  exact ⟨by omega, hm, (c.chain_eq _ hf).symm, (c.tailOf_eq _ hf).symm⟩

/-- the end of a chain with a non-empty head is non-empty -/
theorem Chain.tail_nonempty {h : Heap} (hwf : WF h) {id e : Nat} {l : List Nat} (c : Chain h id l e)
    (hne : isEmpty h id = false) : isEmpty h e = false := by
  induction c with
  | last id _ => exact hne
  | step id j l e hn _ ih => exact ih (hwf id j hn).2.2

/-! ### allocation of a fresh block -/

theorem freshBlock_length (base : Nat) (src : List ENode) : (freshBlock base src).length = src.length := by
  induction src generalizing base with
  | nil => rfl
  | cons n rest ih =>
    cases rest with
    | nil => rfl
    | cons m rest => simp only [freshBlock, List.length_cons, ih (base + 1)]

/-- cell `k` of the copy is cell `k` of the source, relinked to its right neighbour -/
theorem freshBlock_get (base : Nat) (src : List ENode) (k : Nat) :
    (freshBlock base src)[k]? =
      (src[k]?).map (fun m => { m with next := if k + 1 < src.length then some (base + k + 1) else none }) := by
  induction src generalizing base k with
  | nil => simp [freshBlock]
  | cons n rest ih =>
    cases rest with
    | nil =>
      cases k with
      | zero => simp [freshBlock]
      | succ k => simp [freshBlock]
    | cons m rest =>
      cases k with
      | zero => simp [freshBlock]
      | succ k =>
        simp only [freshBlock, List.getElem?_cons_succ, ih (base + 1) k, List.length_cons]
        cases (m :: rest)[k]? with
        | none => rfl
        | some x =>
          simp only [Option.map_some]
          have e1 : base + 1 + k + 1 = base + (k + 1) + 1 := by omega
          have e2 : (k + 1 < rest.length + 1) ↔ (k + 1 + 1 < rest.length + 1 + 1) := by omega
          simp only [e1, e2]

theorem block_cell (h : Heap) (blk : List ENode) (k : Nat) : (h ++ blk.toArray)[h.size + k]? = blk[k]? := by
  rw [Array.getElem?_append_right (by omega)]
  simp

theorem block_old (h : Heap) (blk : List ENode) (i : Nat) (hi : i < h.size) : (h ++ blk.toArray)[i]? = h[i]? := by
  rw [Array.getElem?_append_left hi]

/-- a block whose cells are linked to their right neighbours is one chain -/
theorem linear_chain (H : Heap) : ∀ (len base : Nat), 0 < len →
    (∀ k, k < len → nextOf H (base + k) = if k + 1 < len then some (base + k + 1) else none) →
    Chain H base (List.range' base len) (base + len - 1) := by
  intro len
  induction len with
  | zero => intro base h0; omega
  | succ n ih =>
    intro base _ hnx
    cases n with
    | zero =>
      have h0 := hnx 0 (by omega)
      simp at h0
      simpa [List.range'] using Chain.last base h0
    | succ n =>
      have h0 := hnx 0 (by omega)
      simp at h0
      have hrec := ih (base + 1) (by omega) (fun k hk => by
        have := hnx (k + 1) (by omega)
        have e1 : base + (k + 1) = base + 1 + k := by omega
        have e2 : base + (k + 1) + 1 = base + 1 + k + 1 := by omega
        have e3 : (k + 1 + 1 < n + 1 + 1) ↔ (k + 1 < n + 1) := by omega
        rw [e1] at this
        simp only [e3] at this
        exact this)
      have e4 : base + 1 + (n + 1) - 1 = base + (n + 1 + 1) - 1 := by omega
      rw [e4] at hrec
      rw [List.range'_succ]
      exact Chain.step base (base + 1) _ _ h0 hrec

theorem range_filterMap (H : Heap) : ∀ (l : List ENode) (k : Nat), (∀ i, i < l.length → H[k + i]? = l[i]?) →
    (List.range' k l.length).filterMap (fun i => (H[i]?).bind visible) = l.filterMap visible := by
  intro l
  induction l with
  | nil => intro _ _; rfl
  | cons a l ih =>
    intro k hc
    have h0 := hc 0 (by simp)
    simp only [Nat.add_zero, List.getElem?_cons_zero] at h0
    simp only [List.length_cons, List.range'_succ, List.filterMap_cons, h0, Option.bind_some]
    rw [ih (k + 1) (fun i hi => by
      have := hc (i + 1) (by simp; omega)
      simp only [List.getElem?_cons_succ] at this
      rw [← this]; congr 1; omega)]

/-- the shape of the nodes of a chain: all but the last have a successor -/
def LinkShape : List ENode → Prop
  | [] => False
  | [n] => n.next = none
  | n :: m :: rest => n.next.isSome = true ∧ LinkShape (m :: rest)

theorem visible_relink_some (n : ENode) (k : Nat) (hn : n.next.isSome = true) :
    visible { n with next := some k } = visible n := by
  cases hx : n.next with
  | none => rw [hx] at hn; cases hn
  | some j => simp [visible, nodeEmpty, hx]

theorem relink_none (n : ENode) (hn : n.next = none) : { n with next := none } = n := by
  cases n; simp at hn; subst hn; rfl

theorem freshBlock_visible (base : Nat) (src : List ENode) (hs : LinkShape src) :
    (freshBlock base src).filterMap visible = src.filterMap visible := by
  induction src generalizing base with
  | nil => rfl
  | cons n rest ih =>
    cases rest with
    | nil =>
      simp only [LinkShape] at hs
      simp only [freshBlock, relink_none n hs]
    | cons m rest =>
      simp only [LinkShape] at hs
      have hrec := ih (base + 1) hs.2
      simp only [freshBlock]
      rw [List.filterMap_cons, visible_relink_some n _ hs.1, hrec]
      conv => rhs; rw [List.filterMap_cons]

theorem LinkShape.get {src : List ENode} (hs : LinkShape src) : ∀ (k : Nat) (m : ENode), src[k]? = some m →
    (m.next.isSome = true ↔ k + 1 < src.length) := by
  induction src with
  | nil => exact absurd hs (by simp [LinkShape])
  | cons n rest ih =>
    intro k m hk
    cases rest with
    | nil =>
      simp only [LinkShape] at hs
      cases k with
      | zero => simp at hk; subst hk; simp [hs]
      | succ k => simp at hk
    | cons m' rest =>
      simp only [LinkShape] at hs
      cases k with
      | zero => simp at hk; subst hk; simp [hs.1]
      | succ k =>
        simp only [List.getElem?_cons_succ] at hk
        have := ih hs.2 k m hk
        simp only [List.length_cons] at this ⊢
        rw [this]; omega

structure BlockOK (src : List ENode) : Prop where
  shape : LinkShape src
  nonempty : ∀ m ∈ src, nodeEmpty m = false

theorem nodeEmpty_relink {src : List ENode} (hs : LinkShape src) (k : Nat) (m : ENode) (hk : src[k]? = some m)
    (base : Nat) :
    nodeEmpty { m with next := if k + 1 < src.length then some (base + k + 1) else none } = nodeEmpty m := by
  have hg := hs.get k m hk
  by_cases hlt : k + 1 < src.length
  · have hsome := hg.mpr hlt
    cases hx : m.next with
    | none => rw [hx] at hsome; cases hsome
    | some j => simp [nodeEmpty, hlt, hx]
  · have hnone : m.next = none := by
      cases hx : m.next with
      | none => rfl
      | some j => exact absurd (hg.mp (by simp [hx])) hlt
    simp only [hlt, if_false, relink_none m hnone]

theorem LinkShape.ne_nil {src : List ENode} (hs : LinkShape src) : src ≠ [] := by
  intro h; subst h; exact hs

/-- **allocation**: copying a block of nodes into fresh cells keeps the heap well-formed, changes no old cell, and the
    block is one chain whose visible items are those of the source nodes -/
theorem block_spec (h : Heap) (src : List ENode) (hwf : WF h) (ok : BlockOK src) :
    WF (h ++ (freshBlock h.size src).toArray) ∧
    (h ++ (freshBlock h.size src).toArray).size = h.size + src.length ∧
    (∀ i, i < h.size → (h ++ (freshBlock h.size src).toArray)[i]? = h[i]?) ∧
    Chain (h ++ (freshBlock h.size src).toArray) h.size (List.range' h.size src.length) (h.size + src.length - 1) ∧
    (List.range' h.size src.length).filterMap (fun i => ((h ++ (freshBlock h.size src).toArray)[i]?).bind visible)
      = src.filterMap visible ∧
    isEmpty (h ++ (freshBlock h.size src).toArray) h.size = false := by
  have hlen : 0 < src.length := List.length_pos_iff.mpr ok.shape.ne_nil
  have hcell : ∀ k, (h ++ (freshBlock h.size src).toArray)[h.size + k]? =
      (src[k]?).map (fun m => { m with next := if k + 1 < src.length then some (h.size + k + 1) else none }) := by
    intro k; rw [block_cell, freshBlock_get]
  have hsize : (h ++ (freshBlock h.size src).toArray).size = h.size + src.length := by
    simp [freshBlock_length]
  have hold : ∀ i, i < h.size → (h ++ (freshBlock h.size src).toArray)[i]? = h[i]? := fun i hi => block_old h _ i hi
  have hnext : ∀ k, k < src.length → nextOf (h ++ (freshBlock h.size src).toArray) (h.size + k) =
      if k + 1 < src.length then some (h.size + k + 1) else none := by
    intro k hk
    unfold nextOf
    rw [hcell k, List.getElem?_eq_getElem hk]
    simp
  have hemp : ∀ k, k < src.length → isEmpty (h ++ (freshBlock h.size src).toArray) (h.size + k) = false := by
    intro k hk
    unfold isEmpty
    rw [hcell k, List.getElem?_eq_getElem hk]
    simp only [Option.map_some]
    rw [nodeEmpty_relink ok.shape k src[k] (List.getElem?_eq_getElem hk)]
    exact ok.nonempty _ (List.getElem_mem hk)
  refine ⟨?_, hsize, hold, linear_chain _ src.length h.size hlen hnext, ?_, ?_⟩
  · intro i j hn
    by_cases hi : i < h.size
    · have hn' : nextOf h i = some j := by rw [← nextOf_congr h _ i (hold i hi)]; exact hn
      obtain ⟨h1, h2, h3⟩ := hwf i j hn'
      refine ⟨h1, by rw [hsize]; omega, ?_⟩
      rw [isEmpty_congr h _ j (hold j h2)]; exact h3
    · obtain ⟨k, rfl⟩ : ∃ k, i = h.size + k := ⟨i - h.size, by omega⟩
      have hk : k < src.length := by
        have := nextOf_lt_size hn; rw [hsize] at this; omega
      rw [hnext k hk] at hn
      by_cases hlt : k + 1 < src.length
      · simp [hlt] at hn
        subst hn
        refine ⟨by omega, by rw [hsize]; omega, ?_⟩
        have := hemp (k + 1) hlt
        rw [← Nat.add_assoc] at this
        exact this
      · simp [hlt] at hn
  · rw [← freshBlock_visible h.size src ok.shape]
    have := range_filterMap (h ++ (freshBlock h.size src).toArray) (freshBlock h.size src) h.size
      (fun i _ => block_cell h _ i)
    rw [freshBlock_length] at this
    exact this
  · have := hemp 0 hlen
    simpa using this

/-! ### what one argument contributes -/

def itemOf (n : ENode) : Item := { msg := n.msg, cause := n.cause, hasStack := n.hasStack, wrapped := n.wrapped }

/-- the non-nil, non-empty errors contained in one argument of `Append` (aggregates flattened) -/
def argItems (h : Heap) : Val → List Item
  | .ref id => items h id
  | v => if isNil v then [] else [itemOf (wrapperNode v)]

def getNode (h : Heap) (i : Nat) : ENode := (h[i]?).getD default

theorem get_of_lt (h : Heap) (i : Nat) (hi : i < h.size) : h[i]? = some (getNode h i) := by
  unfold getNode; simp [Array.getElem?_eq_getElem hi]

theorem Chain.mem_cases {h : Heap} {id e : Nat} {l : List Nat} (c : Chain h id l e) :
    ∀ i ∈ l, i = id ∨ ∃ p, nextOf h p = some i := by
  induction c with
  | last id _ => intro i hi; simp at hi; exact Or.inl hi
  | step id j l e hn _ ih =>
    intro i hi
    simp at hi
    rcases hi with rfl | hi
    · exact Or.inl rfl
    · rcases ih i hi with rfl | ⟨p, hp⟩
      · exact Or.inr ⟨id, hn⟩
      · exact Or.inr ⟨p, hp⟩

theorem Chain.shape {h : Heap} {id e : Nat} {l : List Nat} (c : Chain h id l e) (hin : ∀ i ∈ l, i < h.size) :
    LinkShape (l.map (getNode h)) := by
  induction c with
  | last id hn =>
    have hid := get_of_lt h id (hin id (by simp))
    simp only [List.map_cons, List.map_nil, LinkShape]
    unfold nextOf at hn; rw [hid] at hn; simpa using hn
  | step id j l e hn c ih =>
    have hid := get_of_lt h id (hin id (by simp))
    have hrec := ih (fun i hi => hin i (by simp [hi]))
    obtain ⟨j', l', rfl⟩ : ∃ j' l', l = j' :: l' := by
      cases l with
      | nil => exact absurd rfl c.ne_nil
      | cons a b => exact ⟨a, b, rfl⟩
    simp only [List.map_cons, LinkShape] at hrec ⊢
    refine ⟨?_, hrec⟩
    unfold nextOf at hn; rw [hid] at hn
    simp at hn; simp [hn]

theorem isEmpty_false_node (h : Heap) (i : Nat) (hi : i < h.size) (he : isEmpty h i = false) :
    nodeEmpty (getNode h i) = false := by
  unfold isEmpty at he; rw [get_of_lt h i hi] at he; exact he

/-- the nodes of a chain with a non-empty head form a block that can be copied -/
theorem Chain.blockOK {h : Heap} (hwf : WF h) {id e : Nat} {l : List Nat} (c : Chain h id l e)
    (hin : ∀ i ∈ l, i < h.size) (hne : isEmpty h id = false) : BlockOK (l.map (getNode h)) := by
  refine ⟨c.shape hin, ?_⟩
  intro m hm
  simp only [List.mem_map] at hm
  obtain ⟨i, hi, rfl⟩ := hm
  apply isEmpty_false_node h i (hin i hi)
  rcases c.mem_cases i hi with rfl | ⟨p, hp⟩
  · exact hne
  · exact (hwf p i hp).2.2

theorem map_get_visible (h : Heap) (l : List Nat) (hin : ∀ i ∈ l, i < h.size) :
    (l.map (getNode h)).filterMap visible = l.filterMap (fun i => (h[i]?).bind visible) := by
  rw [List.filterMap_map]
  apply filterMap_congr'
  intro i hi
  simp [get_of_lt h i (hin i hi)]

theorem visible_of_nonempty (n : ENode) (hn : nodeEmpty n = false) : visible n = some (itemOf n) := by
  simp [visible, hn, itemOf]

theorem items_of_empty (h : Heap) (id : Nat) (he : isEmpty h id = true) : items h id = [] := by
  unfold items itemsAt fuelOf
  unfold isEmpty at he
  cases hx : h[id]? with
  | none => simp [chain, nextOf, hx]
  | some n =>
    rw [hx] at he
    have hnx : n.next = none := by
      unfold nodeEmpty at he
      cases hh : n.next with
      | none => rfl
      | some j => simp [hh] at he
    simp [chain, nextOf, hx, hnx, visible, he]

/-- the outcome of building the chain for one argument -/
structure ArgBuilt (h : Heap) (a : Val) (h1 : Heap) (n : Nat) (w : List Nat) (lb : List Nat) (e' : Nat) : Prop where
  wf : WF h1
  grow : h.size < h1.size
  frame : ∀ i, i < h.size → h1[i]? = h[i]?
  chain : Chain h1 n lb e'
  fresh : ∀ i ∈ lb, h.size ≤ i ∧ i < h1.size
  headNonempty : isEmpty h1 n = false
  items : lb.filterMap (fun i => (h1[i]?).bind visible) = argItems h a
  itemsNe : argItems h a ≠ []
  written : ∀ i ∈ w, h.size ≤ i

theorem built_of_block (h : Heap) (a : Val) (src : List ENode) (w : List Nat) (hwf : WF h) (ok : BlockOK src)
    (hit : src.filterMap visible = argItems h a) (hw : ∀ i ∈ w, h.size ≤ i) :
    ArgBuilt h a (h ++ (freshBlock h.size src).toArray) h.size w (List.range' h.size src.length)
      (h.size + src.length - 1) := by
  obtain ⟨h1, h2, h3, h4, h5, h6⟩ := block_spec h src hwf ok
  have hlen : 0 < src.length := List.length_pos_iff.mpr ok.shape.ne_nil
  refine ⟨h1, by rw [h2]; omega, h3, h4, ?_, h6, by rw [h5, hit], ?_, hw⟩
  · intro i hi
    rw [List.mem_range'_1] at hi
    rw [h2]; omega
  · rw [← hit]
    obtain ⟨m, rest, rfl⟩ : ∃ m rest, src = m :: rest := by
      cases src with
      | nil => exact absurd rfl ok.shape.ne_nil
      | cons a b => exact ⟨a, b, rfl⟩
    rw [List.filterMap_cons, visible_of_nonempty m (ok.nonempty m (by simp))]
    simp

theorem argNode_spec (h : Heap) (a : Val) (hwf : WF h) (hid : ∀ id, a = .ref id → id < h.size) :
    (argNode h a = (h, none, []) ∧ argItems h a = []) ∨
    (∃ h1 n w lb e', argNode h a = (h1, some n, w) ∧ ArgBuilt h a h1 n w lb e') := by
  have wrapper : ∀ v : Val, isNil v = false → (∀ id, v ≠ .ref id) →
      argNode h v = (h.push (wrapperNode v), some h.size, []) → argItems h v = [itemOf (wrapperNode v)] →
      ∃ h1 n w lb e', argNode h v = (h1, some n, w) ∧ ArgBuilt h v h1 n w lb e' := by
    intro v _ _ hav hit
    have hpush : h.push (wrapperNode v) = h ++ (freshBlock h.size [wrapperNode v]).toArray := by
      simp [freshBlock, wrapperNode]
    have ok : BlockOK [wrapperNode v] := ⟨by simp [LinkShape, wrapperNode], by simp [nodeEmpty, wrapperNode]⟩
    refine ⟨h.push (wrapperNode v), h.size, [], List.range' h.size [wrapperNode v].length,
      h.size + [wrapperNode v].length - 1, hav, ?_⟩
    rw [hpush]
    exact built_of_block h v [wrapperNode v] [] hwf ok
      (by rw [hit]; simp [visible_of_nonempty (wrapperNode v) (ok.nonempty (wrapperNode v) (by simp))]) (by simp)
  cases a with
  | nilIface => exact Or.inl ⟨by simp [argNode, isNil], by simp [argItems, isNil]⟩
  | typedNil => exact Or.inl ⟨by simp [argNode], by simp [argItems, isNil]⟩
  | foreignNil => exact Or.inl ⟨by simp [argNode, isNil], by simp [argItems, isNil]⟩
  | plain u m =>
    exact Or.inr (wrapper _ (by simp [isNil]) (by simp) (by simp [argNode, isNil]) (by simp [argItems, isNil]))
  | fwrap u m inner =>
    exact Or.inr (wrapper _ (by simp [isNil]) (by simp) (by simp [argNode, isNil]) (by simp [argItems, isNil]))
  | ref id =>
    have hlt := hid id rfl
    by_cases he : isEmpty h id = true
    · exact Or.inl ⟨by simp [argNode, he], by simp [argItems, items_of_empty h id he]⟩
    · have he' : isEmpty h id = false := by simpa using he
      obtain ⟨c, hm⟩ := hwf.chain_spec hlt
      have hin : ∀ i ∈ chain h (fuelOf h) id, i < h.size := fun i hi => (hm i hi).2
      have ok := c.blockOK hwf hin he'
      have hsrc : (chain h (fuelOf h) id).map (fun i => (h[i]?).getD default) = (chain h (fuelOf h) id).map (getNode h) := rfl
      refine Or.inr ⟨h ++ (freshBlock h.size ((chain h (fuelOf h) id).map (getNode h))).toArray, h.size,
        List.range' h.size ((h ++ (freshBlock h.size ((chain h (fuelOf h) id).map (getNode h))).toArray).size - h.size - 1),
        List.range' h.size ((chain h (fuelOf h) id).map (getNode h)).length,
        h.size + ((chain h (fuelOf h) id).map (getNode h)).length - 1,
        by simp only [argNode, he', copyChain, hsrc]; rfl, ?_⟩
      refine built_of_block h (.ref id) _ _ hwf ok ?_ ?_
      · rw [map_get_visible h _ hin]; rfl
      · intro i hi
        rw [List.mem_range'_1] at hi
        exact hi.1

/-! ### the destructive write keeps the invariant -/

theorem setNext_cell (h : Heap) (e n : Nat) (he : e < h.size) :
    (setNext h e n)[e]? = some { getNode h e with next := some n } := by
  unfold setNext
  rw [Array.getElem?_modify]
  simp [get_of_lt h e he]

theorem isEmpty_setNext (h : Heap) (e n i : Nat) (hi : isEmpty h i = false) : isEmpty (setNext h e n) i = false := by
  by_cases hie : i = e
  · subst hie
    by_cases hlt : i < h.size
    · unfold isEmpty; rw [setNext_cell h i n hlt]; simp [nodeEmpty]
    · unfold isEmpty at hi
      have : h[i]? = none := by simp; omega
      rw [this] at hi; cases hi
  · rw [isEmpty_congr h _ i (setNext_other h e n i hie)]; exact hi

theorem WF_setNext (h : Heap) (e n : Nat) (hwf : WF h) (he : e < h.size) (hen : e < n) (hn : n < h.size)
    (hne : isEmpty h n = false) : WF (setNext h e n) := by
  intro i j hij
  rw [setNext_size]
  by_cases hie : i = e
  · subst hie
    rw [nextOf_setNext_same h i n he] at hij
    cases hij
    exact ⟨hen, hn, isEmpty_setNext h i n n hne⟩
  · rw [nextOf_setNext_other h e n i hie] at hij
    obtain ⟨h1, h2, h3⟩ := hwf i j hij
    exact ⟨h1, h2, isEmpty_setNext h e n j h3⟩

theorem visible_setNext (h : Heap) (e n : Nat) (he : e < h.size) (hne : isEmpty h e = false) :
    ((setNext h e n)[e]?).bind visible = (h[e]?).bind visible := by
  have hx := isEmpty_false_node h e he hne
  rw [setNext_cell h e n he, get_of_lt h e he]
  simp only [Option.bind_some]
  rw [visible_of_nonempty _ hx]
  simp [visible, nodeEmpty, itemOf]

/-! ### frame for an argument: a heap that agrees on the cells of its chain gives it the same content -/

theorem arg_frame (h h' : Heap) (hwf : WF h) (hwf' : WF h') (hsz : h.size ≤ h'.size) (id : Nat) (hid : id < h.size)
    (hag : ∀ i ∈ chain h (fuelOf h) id, h'[i]? = h[i]?) :
    chain h' (fuelOf h') id = chain h (fuelOf h) id ∧ items h' id = items h id := by
  obtain ⟨c, _⟩ := hwf.chain_spec hid
  have c' := c.congr hag
  obtain ⟨_, _, hl, _⟩ := c'.bounds hwf' (by omega)
  refine ⟨hl.symm, ?_⟩
  unfold items itemsAt
  rw [← hl]
  apply filterMap_congr'
  intro i hi
  rw [hag i hi]

theorem argItems_frame (h h' : Heap) (hwf : WF h) (hwf' : WF h') (hsz : h.size ≤ h'.size) (a : Val)
    (hid : ∀ id, a = .ref id → id < h.size ∧ ∀ i ∈ chain h (fuelOf h) id, h'[i]? = h[i]?) :
    argItems h' a = argItems h a := by
  cases a with
  | ref id => exact (arg_frame h h' hwf hwf' hsz id (hid id rfl).1 (hid id rfl).2).2
  | nilIface => rfl
  | typedNil => rfl
  | foreignNil => rfl
  | plain u m => rfl
  | fwrap u m inner => rfl

theorem flatMap_congr' {α β : Type} (f g : α → List β) (l : List α) (h : ∀ x ∈ l, f x = g x) :
    l.flatMap f = l.flatMap g := by
  induction l with
  | nil => rfl
  | cons a l ih =>
    simp only [List.flatMap_cons, h a (by simp)]
    rw [ih (fun x hx => h x (by simp [hx]))]

/-! ### assembly over the loop -/

/-- what `appendLoop` achieves from a state whose cursor is `e`, the end of the chain `l` of the root `r` -/
structure LoopDone (h : Heap) (r e : Nat) (l log : List Nat) (args : List Val)
    (res : Heap × Option Nat × List Nat) : Prop where
  root : res.2.1 = some r
  wf : WF res.1
  grow : h.size ≤ res.1.size
  frame : ∀ i, i < h.size → i ≠ e → res.1[i]? = h[i]?
  chain : ∃ L e', Chain res.1 r (l ++ L) e' ∧ (∀ i ∈ L, h.size ≤ i ∧ i < res.1.size) ∧
      (l ++ L).filterMap (fun i => (res.1[i]?).bind visible) =
        l.filterMap (fun i => (h[i]?).bind visible) ++ args.flatMap (argItems h) ∧
      ((L = [] ∧ res.1 = h) ∨ h.size ≤ e')
  written : ∀ i ∈ res.2.2, i ∈ log ∨ i = e ∨ h.size ≤ i

theorem loop_some : ∀ (args : List Val) (h : Heap) (r e : Nat) (l log : List Nat), WF h → Chain h r l e →
    (∀ i ∈ l, i < h.size) → isEmpty h r = false →
    (∀ id, Val.ref id ∈ args → id < h.size ∧ e ∉ chain h (fuelOf h) id) →
    LoopDone h r e l log args (appendLoop h (some r) (some e) log args) := by
  intro args
  induction args with
  | nil =>
    intro h r e l log hwf c hin hne _
    have hun : appendLoop h (some r) (some e) log [] = (h, some r, log) := rfl
    rw [hun]
    exact ⟨rfl, hwf, Nat.le_refl _, fun _ _ _ => rfl, ⟨[], e, by simpa using c, by simp, by simp, Or.inl ⟨rfl, rfl⟩⟩, fun i hi => Or.inl hi⟩
  | cons a as ih =>
    intro h r e l log hwf c hin hne hargs
    have hargs' : ∀ id, Val.ref id ∈ as → id < h.size ∧ e ∉ chain h (fuelOf h) id :=
      fun id hid => hargs id (by simp [hid])
    rcases argNode_spec h a hwf (fun id ha => (hargs id (by simp [ha])).1) with ⟨hsk, hit⟩ | ⟨h1, n, w, lb, e', hb, B⟩
    · have hun : appendLoop h (some r) (some e) log (a :: as) = appendLoop h (some r) (some e) log as := by
        simp only [appendLoop, hsk]
      rw [hun]
      obtain ⟨g1, g2, g3, g4, ⟨L, e', g5, g6, g7, g9⟩, g8⟩ := ih h r e l log hwf c hin hne hargs'
      exact ⟨g1, g2, g3, g4, ⟨L, e', g5, g6, by rw [g7]; simp [hit], g9⟩, g8⟩
    · have he : e < h.size := hin e c.tail_mem
      have hgrow := B.grow
      have he1 : e < h1.size := by omega
      have c1 : Chain h1 r l e := c.congr (fun i hi => B.frame i (hin i hi))
      have heB : e ∉ lb := fun hx => by have := (B.fresh e hx).1; omega
      have hn : h.size ≤ n ∧ n < h1.size := B.fresh n B.chain.head_mem
      have hsz2 : (setNext h1 e n).size = h1.size := setNext_size _ _ _
      have hwf2 : WF (setNext h1 e n) := WF_setNext h1 e n B.wf he1 (by omega) hn.2 B.headNonempty
      have c2 : Chain (setNext h1 e n) r (l ++ lb) e' := c1.link B.chain he1 heB
      have hoth : ∀ i ∈ lb, (setNext h1 e n)[i]? = h1[i]? :=
        fun i hi => setNext_other h1 e n i (fun x => heB (by rw [← x]; exact hi))
      have cb2 : Chain (setNext h1 e n) n lb e' := B.chain.congr hoth
      have hcur : tailOf (setNext h1 e n) (fuelOf (setNext h1 e n)) n = e' :=
        ((cb2.bounds hwf2 (by rw [hsz2]; exact hn.2)).2.2.2).symm
      have hun : appendLoop h (some r) (some e) log (a :: as) =
          appendLoop (setNext h1 e n) (some r) (some e') (log ++ w ++ [e]) as := by
        simp only [appendLoop, hb, hcur]
      rw [hun]
      have hfr2 : ∀ i, i < h.size → i ≠ e → (setNext h1 e n)[i]? = h[i]? :=
        fun i hi hie => by rw [setNext_other h1 e n i hie, B.frame i hi]
      have he' : h.size ≤ e' := (B.fresh e' B.chain.tail_mem).1
      have hagree : ∀ id, Val.ref id ∈ as → id < h.size ∧ ∀ i ∈ chain h (fuelOf h) id, (setNext h1 e n)[i]? = h[i]? := by
        intro id hid
        obtain ⟨hlt, hnot⟩ := hargs' id hid
        exact ⟨hlt, fun i hi => hfr2 i ((hwf.chain_spec hlt).2 i hi).2 (fun x => hnot (by rw [← x]; exact hi))⟩
      have hargs2 : ∀ id, Val.ref id ∈ as → id < (setNext h1 e n).size ∧
          e' ∉ chain (setNext h1 e n) (fuelOf (setNext h1 e n)) id := by
        intro id hid
        obtain ⟨hlt, hag⟩ := hagree id hid
        have hch := (arg_frame h _ hwf hwf2 (by rw [hsz2]; omega) id hlt hag).1
        refine ⟨by rw [hsz2]; omega, ?_⟩
        rw [hch]
        intro hx
        have := ((hwf.chain_spec hlt).2 e' hx).2
        omega
      have hin2 : ∀ i ∈ l ++ lb, i < (setNext h1 e n).size := by
        intro i hi
        rw [hsz2]
        rcases List.mem_append.mp hi with hi | hi
        · have := hin i hi; omega
        · exact (B.fresh i hi).2
      have hne2 : isEmpty (setNext h1 e n) r = false :=
        isEmpty_setNext h1 e n r (by rw [isEmpty_congr h h1 r (B.frame r (hin r c.head_mem))]; exact hne)
      obtain ⟨g1, g2, g3, g4, ⟨L, e'', g5, g6, g7, g9⟩, g8⟩ :=
        ih (setNext h1 e n) r e' (l ++ lb) (log ++ w ++ [e]) hwf2 c2 hin2 hne2 hargs2
      rw [hsz2] at g3
      have htail : h.size ≤ e'' := by
        rcases g9 with ⟨hL, hres⟩ | hge
        · subst hL
          rw [hres, List.append_nil] at g5
          have := (g5.unique c2).2
          omega
        · rw [hsz2] at hge; omega
      refine ⟨g1, g2, by omega, ?_, ⟨lb ++ L, e'', by rw [← List.append_assoc]; exact g5, ?_, ?_, Or.inr htail⟩, ?_⟩
      · intro i hi hie
        rw [g4 i (by rw [hsz2]; omega) (by omega), hfr2 i hi hie]
      · intro i hi
        rcases List.mem_append.mp hi with hi | hi
        · have := B.fresh i hi; omega
        · have := g6 i hi; rw [hsz2] at this; omega
      · rw [← List.append_assoc, g7, List.filterMap_append]
        have e1 : l.filterMap (fun i => ((setNext h1 e n)[i]?).bind visible) =
            l.filterMap (fun i => (h[i]?).bind visible) := by
          apply filterMap_congr'
          intro i hi
          by_cases hie : i = e
          · subst hie
            rw [visible_setNext h1 i n he1
              (by rw [isEmpty_congr h h1 i (B.frame i he)]; exact c.tail_nonempty hwf hne), B.frame i he]
          · rw [hfr2 i (hin i hi) hie]
        have e2 : lb.filterMap (fun i => ((setNext h1 e n)[i]?).bind visible) = argItems h a := by
          rw [← B.items]
          apply filterMap_congr'
          intro i hi
          rw [hoth i hi]
        have e3 : as.flatMap (argItems (setNext h1 e n)) = as.flatMap (argItems h) := by
          apply flatMap_congr'
          intro a' ha'
          apply argItems_frame h _ hwf hwf2 (by rw [hsz2]; omega)
          intro id hid
          subst hid
          exact hagree id ha'
        rw [e1, e2, e3]
        simp [List.flatMap_cons, List.append_assoc]
      · intro i hi
        rcases g8 i hi with hi | hi | hi
        · simp only [List.mem_append, List.mem_singleton] at hi
          rcases hi with (hi | hi) | hi
          · exact Or.inl hi
          · exact Or.inr (Or.inr (B.written i hi))
          · exact Or.inr (Or.inl hi)
        · exact Or.inr (Or.inr (by omega))
        · rw [hsz2] at hi; exact Or.inr (Or.inr (by omega))

/-- what `appendLoop` achieves when it starts without a root (nil or empty accumulator) -/
inductive NoneDone (h : Heap) (log : List Nat) (args : List Val) (res : Heap × Option Nat × List Nat) : Prop
  | nothing : res = (h, none, log) → args.flatMap (argItems h) = [] → NoneDone h log args res
  | built (r : Nat) : res.2.1 = some r → h.size ≤ r → WF res.1 → h.size ≤ res.1.size →
      (∀ i, i < h.size → res.1[i]? = h[i]?) →
      (∃ L e', Chain res.1 r L e' ∧ (∀ i ∈ L, h.size ≤ i ∧ i < res.1.size) ∧
        L.filterMap (fun i => (res.1[i]?).bind visible) = args.flatMap (argItems h) ∧ h.size ≤ e') →
      args.flatMap (argItems h) ≠ [] → (∀ i ∈ res.2.2, i ∈ log ∨ h.size ≤ i) → NoneDone h log args res

theorem loop_none : ∀ (args : List Val) (h : Heap) (log : List Nat), WF h →
    (∀ id, Val.ref id ∈ args → id < h.size) → NoneDone h log args (appendLoop h none none log args) := by
  intro args
  induction args with
  | nil => intro h log _ _; exact NoneDone.nothing rfl rfl
  | cons a as ih =>
    intro h log hwf hargs
    have hargs' : ∀ id, Val.ref id ∈ as → id < h.size := fun id hid => hargs id (by simp [hid])
    rcases argNode_spec h a hwf (fun id ha => hargs id (by simp [ha])) with ⟨hsk, hit⟩ | ⟨h1, n, w, lb, e', hb, B⟩
    · have hun : appendLoop h none none log (a :: as) = appendLoop h none none log as := by
        simp only [appendLoop, hsk]
      rw [hun]
      cases ih h log hwf hargs' with
      | nothing h1 h2 => exact NoneDone.nothing h1 (by simp [hit, h2])
      | built r g1 g2 g3 g4 g5 g6 g7 g8 =>
        exact NoneDone.built r g1 g2 g3 g4 g5 (by simpa [hit] using g6) (by simpa [hit] using g7) g8
    · have hgrow := B.grow
      have hn : h.size ≤ n ∧ n < h1.size := B.fresh n B.chain.head_mem
      have hcur : tailOf h1 (fuelOf h1) n = e' := ((B.chain.bounds B.wf hn.2).2.2.2).symm
      have hun : appendLoop h none none log (a :: as) = appendLoop h1 (some n) (some e') (log ++ w) as := by
        simp only [appendLoop, hb, hcur]
      rw [hun]
      have he' : h.size ≤ e' := (B.fresh e' B.chain.tail_mem).1
      have hagree : ∀ id, Val.ref id ∈ as → id < h.size ∧ ∀ i ∈ chain h (fuelOf h) id, h1[i]? = h[i]? := by
        intro id hid
        have hlt := hargs' id hid
        exact ⟨hlt, fun i hi => B.frame i ((hwf.chain_spec hlt).2 i hi).2⟩
      have hargs1 : ∀ id, Val.ref id ∈ as → id < h1.size ∧ e' ∉ chain h1 (fuelOf h1) id := by
        intro id hid
        obtain ⟨hlt, hag⟩ := hagree id hid
        have hch := (arg_frame h _ hwf B.wf (by omega) id hlt hag).1
        refine ⟨by omega, ?_⟩
        rw [hch]
        intro hx
        have := ((hwf.chain_spec hlt).2 e' hx).2
        omega
      obtain ⟨g1, g2, g3, g4, ⟨L, e'', g5, g6, g7, g9⟩, g8⟩ :=
        loop_some as h1 n e' lb (log ++ w) B.wf B.chain (fun i hi => (B.fresh i hi).2) B.headNonempty hargs1
      have htail : h.size ≤ e'' := by
        rcases g9 with ⟨hL, hres⟩ | hge
        · subst hL
          rw [hres, List.append_nil] at g5
          have := (g5.unique B.chain).2
          omega
        · omega
      have e3 : as.flatMap (argItems h1) = as.flatMap (argItems h) := by
        apply flatMap_congr'
        intro a' ha'
        apply argItems_frame h _ hwf B.wf (by omega)
        intro id hid
        subst hid
        exact hagree id ha'
      refine NoneDone.built n g1 hn.1 g2 (by omega) ?_ ⟨lb ++ L, e'', g5, ?_, ?_, htail⟩ ?_ ?_
      · intro i hi
        rw [g4 i (by omega) (by omega), B.frame i hi]
      · intro i hi
        rcases List.mem_append.mp hi with hi | hi
        · have := B.fresh i hi; omega
        · have := g6 i hi; omega
      · rw [g7, B.items, e3]; simp [List.flatMap_cons]
      · simp only [List.flatMap_cons]
        intro hx
        exact B.itemsNe (List.append_eq_nil_iff.mp hx).1
      · intro i hi
        rcases g8 i hi with hi | hi | hi
        · rcases List.mem_append.mp hi with hi | hi
          · exact Or.inl hi
          · exact Or.inr (B.written i hi)
        · exact Or.inr (by omega)
        · exact Or.inr (by omega)

/-! ### `Append` as a whole -/

/-- the content of the result of `Append` -/
def resItems (res : Heap × Option Nat × List Nat) : List Item :=
  match res.2.1 with | some r => items res.1 r | none => []

/-- the accumulator of `Append(err, errs...)` is `err`.  (Before fix f2f6175 a nil `err` made the first non-nil argument the
    accumulator; the name is kept because lemma files of other properties mention it — it is the identity now.) -/
def accOf (acc : Val) (_ : List Val) : Val := acc

/-- the appended arguments are `errs` — all of them (identity, see `accOf`) -/
def restOf (_ : Val) (args : List Val) : List Val := args

/-- no appended argument's chain ends in the accumulator's last cell (the one pre-existing cell `Append` writes) -/
def NoAlias (h : Heap) (acc : Val) (args : List Val) : Prop :=
  ∀ id, accOf acc args = .ref id → ∀ id', Val.ref id' ∈ restOf acc args →
    tailOf h (fuelOf h) id ∉ chain h (fuelOf h) id'

structure AppendDone (h : Heap) (acc : Val) (args : List Val) (res : Heap × Option Nat × List Nat) : Prop where
  wf : WF res.1
  grow : h.size ≤ res.1.size
  rootLt : ∀ r, res.2.1 = some r → r < res.1.size
  items : resItems res = argItems h acc ++ args.flatMap (argItems h)
  nilIff : res.2.1 = none ↔ argItems h acc ++ args.flatMap (argItems h) = []
  written : ∀ i ∈ res.2.2, (∃ id, accOf acc args = .ref id ∧ i = tailOf h (fuelOf h) id) ∨ h.size ≤ i
  frame : ∀ i, i < h.size → (∀ id, accOf acc args = .ref id → i ≠ tailOf h (fuelOf h) id) → res.1[i]? = h[i]?
  tail : ∀ r, res.2.1 = some r →
    h.size ≤ tailOf res.1 (fuelOf res.1) r ∨ (res.1 = h ∧ accOf acc args = .ref r)

theorem items_eq_of_chain {h : Heap} (hwf : WF h) {r e : Nat} {l : List Nat} (c : Chain h r l e) (hr : r < h.size) :
    items h r = l.filterMap (fun i => (h[i]?).bind visible) := by
  unfold items itemsAt
  rw [← (c.bounds hwf hr).2.2.1]

theorem items_ne_nil {h : Heap} (hwf : WF h) {id : Nat} (hid : id < h.size) (hne : isEmpty h id = false) :
    items h id ≠ [] := by
  obtain ⟨l, e, c, _, _⟩ := hwf.exists_chain (h.size - id) id (Nat.le_refl _) hid
  rw [items_eq_of_chain hwf c hid]
  have hv : (h[id]?).bind visible = some (itemOf (getNode h id)) := by
    rw [get_of_lt h id hid]; exact visible_of_nonempty _ (isEmpty_false_node h id hid hne)
  cases c with
  | last _ _ => simp [hv]
  | step _ j l _ _ _ => simp [hv]

theorem wrapper_built (h : Heap) (v : Val) (hwf : WF h) (hnil : isNil v = false) (hnr : ∀ id, v ≠ .ref id) :
    ArgBuilt h v (h.push (wrapperNode v)) h.size [] [h.size] h.size := by
  have hpush : h.push (wrapperNode v) = h ++ (freshBlock h.size [wrapperNode v]).toArray := by
    simp [freshBlock, wrapperNode]
  have ok : BlockOK [wrapperNode v] := ⟨by simp [LinkShape, wrapperNode], by simp [nodeEmpty, wrapperNode]⟩
  have hit : argItems h v = [itemOf (wrapperNode v)] := by
    cases v with
    | ref id => exact absurd rfl (hnr id)
    | nilIface => simp [isNil] at hnil
    | typedNil => simp [isNil] at hnil
    | foreignNil => simp [isNil] at hnil
    | plain u m => simp [argItems, isNil]
    | fwrap u m inner => simp [argItems, isNil]
  have := built_of_block h v [wrapperNode v] [] hwf ok
    (by rw [hit]; simp [visible_of_nonempty (wrapperNode v) (ok.nonempty (wrapperNode v) (by simp))]) (by simp)
  rw [hpush]
  simpa [List.range'] using this

theorem none_to_done (h : Heap) (acc : Val) (args : List Val) (hwf : WF h) (hacc0 : argItems h acc = [])
    (hun : append h acc args = appendLoop h none none [] args)
    (hids : ∀ id, Val.ref id ∈ args → id < h.size) : AppendDone h acc args (append h acc args) := by
  rw [hun]
  cases loop_none args h [] hwf hids with
  | nothing h1 h2 =>
    rw [h1]
    exact ⟨hwf, Nat.le_refl _, by simp, by simp [resItems, hacc0, h2], by simp [hacc0, h2], by simp, fun _ _ _ => rfl,
      by simp⟩
  | built r g1 g2 g3 g4 g5 g6 g7 g8 =>
    obtain ⟨L, e', c, hL, hit, htl⟩ := g6
    have hr : r < (appendLoop h none none [] args).1.size := (hL r c.head_mem).2
    refine ⟨g3, g4, fun r' hr' => by rw [g1] at hr'; cases hr'; exact hr, ?_, ?_, ?_, fun i hi _ => g5 i hi,
      fun r' hr' => by rw [g1] at hr'; cases hr'; rw [← (c.bounds g3 hr).2.2.2]; exact Or.inl htl⟩
    · simp only [resItems, g1]
      rw [items_eq_of_chain g3 c hr, hit, hacc0]; rfl
    · rw [g1, hacc0]; simp [g7]
    · intro i hi
      rcases g8 i hi with hi | hi
      · simp at hi
      · exact Or.inr hi

theorem some_to_done (h : Heap) (acc : Val) (args : List Val) (id : Nat) (hacc : acc = .ref id) (hwf : WF h)
    (hid : id < h.size) (hne : isEmpty h id = false)
    (hids : ∀ id', Val.ref id' ∈ args → id' < h.size)
    (hna : ∀ id', Val.ref id' ∈ args → tailOf h (fuelOf h) id ∉ chain h (fuelOf h) id') :
    AppendDone h acc args (append h acc args) := by
  subst hacc
  have hun : append h (.ref id) args = appendLoop h (some id) (some (tailOf h (fuelOf h) id)) [] args := by
    simp [append, hne]
  rw [hun]
  obtain ⟨c, hm⟩ := hwf.chain_spec hid
  obtain ⟨g1, g2, g3, g4, ⟨L, e', g5, g6, g7, g9⟩, g8⟩ :=
    loop_some args h id _ _ [] hwf c (fun i hi => (hm i hi).2) hne (fun id' hid' => ⟨hids id' hid', hna id' hid'⟩)
  have hacc' : accOf (.ref id) args = .ref id := rfl
  refine ⟨g2, g3, fun r' hr' => by rw [g1] at hr'; cases hr'; omega, ?_, ?_, ?_, ?_, ?_⟩
  rotate_right
  · intro r' hr'
    rw [g1] at hr'; cases hr'
    rcases g9 with ⟨_, hres⟩ | hge
    · exact Or.inr ⟨hres, hacc'⟩
    · rw [← (g5.bounds g2 (by omega)).2.2.2]; exact Or.inl hge
  · simp only [resItems, g1]
    rw [items_eq_of_chain g2 g5 (by omega), g7]; rfl
  · rw [g1]
    have : argItems h (.ref id) ≠ [] := items_ne_nil hwf hid hne
    simp [this]
  · intro i hi
    rcases g8 i hi with hi | hi | hi
    · simp at hi
    · exact Or.inl ⟨id, hacc', hi⟩
    · exact Or.inr hi
  · intro i hi hx
    exact g4 i hi (hx id hacc')

theorem accOf_of_ne (acc : Val) (args : List Val) (_ : acc ≠ .nilIface) : accOf acc args = acc := rfl

theorem restOf_of_ne (acc : Val) (args : List Val) (_ : acc ≠ .nilIface) : restOf acc args = args := rfl

theorem wrap_to_done (h : Heap) (v : Val) (args : List Val) (hwf : WF h) (hnil : isNil v = false)
    (hnr : ∀ id, v ≠ .ref id) (hids : ∀ id', Val.ref id' ∈ args → id' < h.size) :
    AppendDone h v args (append h v args) := by
  have hun : append h v args = appendLoop (h.push (wrapperNode v)) (some h.size) (some h.size) [] args := by
    cases v with
    | ref id => exact absurd rfl (hnr id)
    | nilIface => simp [isNil] at hnil
    | typedNil => simp [isNil] at hnil
    | foreignNil => simp [isNil] at hnil
    | plain u m => simp [append, isNil]
    | fwrap u m inner => simp [append, isNil]
  rw [hun]
  have B := wrapper_built h v hwf hnil hnr
  have hgrow := B.grow
  have hagree : ∀ id, Val.ref id ∈ args → id < h.size ∧
      ∀ i ∈ chain h (fuelOf h) id, (h.push (wrapperNode v))[i]? = h[i]? := by
    intro id hid
    have hlt := hids id hid
    exact ⟨hlt, fun i hi => B.frame i ((hwf.chain_spec hlt).2 i hi).2⟩
  have hargs1 : ∀ id, Val.ref id ∈ args → id < (h.push (wrapperNode v)).size ∧
      h.size ∉ chain (h.push (wrapperNode v)) (fuelOf (h.push (wrapperNode v))) id := by
    intro id hid
    obtain ⟨hlt, hag⟩ := hagree id hid
    have hch := (arg_frame h _ hwf B.wf (by omega) id hlt hag).1
    refine ⟨by omega, ?_⟩
    rw [hch]
    intro hx
    have := ((hwf.chain_spec hlt).2 h.size hx).2
    omega
  obtain ⟨g1, g2, g3, g4, ⟨L, e', g5, g6, g7, g9⟩, g8⟩ :=
    loop_some args (h.push (wrapperNode v)) h.size h.size [h.size] [] B.wf B.chain
      (fun i hi => (B.fresh i hi).2) B.headNonempty hargs1
  have htail : h.size ≤ e' := by
    rcases g9 with ⟨hL, hres⟩ | hge
    · subst hL
      rw [hres, List.append_nil] at g5
      have := (g5.unique B.chain).2
      omega
    · omega
  have e3 : args.flatMap (argItems (h.push (wrapperNode v))) = args.flatMap (argItems h) := by
    apply flatMap_congr'
    intro a' ha'
    apply argItems_frame h _ hwf B.wf (by omega)
    intro id hid
    subst hid
    exact hagree id ha'
  have hr : h.size < (appendLoop (h.push (wrapperNode v)) (some h.size) (some h.size) [] args).1.size := by omega
  refine ⟨g2, by omega, fun r' hr' => by rw [g1] at hr'; cases hr'; exact hr, ?_, ?_, ?_, ?_,
    fun r' hr' => by rw [g1] at hr'; cases hr'; rw [← (g5.bounds g2 hr).2.2.2]; exact Or.inl htail⟩
  · simp only [resItems, g1]
    rw [items_eq_of_chain g2 g5 hr, g7, B.items, e3]
  · rw [g1]
    have := B.itemsNe
    simp [this]
  · intro i hi
    rcases g8 i hi with hi | hi | hi
    · simp at hi
    · exact Or.inr (by omega)
    · exact Or.inr (by omega)
  · intro i hi _
    rw [g4 i (by omega) (by omega), B.frame i hi]

theorem append_core (h : Heap) (acc : Val) (args : List Val) (hwf : WF h)
    (hids : ∀ id, Val.ref id ∈ acc :: args → id < h.size)
    (hna : ∀ id, acc = .ref id → ∀ id', Val.ref id' ∈ args → tailOf h (fuelOf h) id ∉ chain h (fuelOf h) id') :
    AppendDone h acc args (append h acc args) := by
  have hids' : ∀ id', Val.ref id' ∈ args → id' < h.size := fun id' hid' => hids id' (by simp [hid'])
  cases acc with
  | nilIface => exact none_to_done h _ args hwf (by simp [argItems, isNil]) (by simp [append]) hids'
  | typedNil => exact none_to_done h _ args hwf (by simp [argItems, isNil]) (by simp [append]) hids'
  | foreignNil => exact none_to_done h _ args hwf (by simp [argItems, isNil]) (by simp [append, isNil]) hids'
  | plain u m => exact wrap_to_done h _ args hwf (by simp [isNil]) (by simp) hids'
  | fwrap u m inner => exact wrap_to_done h _ args hwf (by simp [isNil]) (by simp) hids'
  | ref id =>
    by_cases he : isEmpty h id = true
    · exact none_to_done h _ args hwf (by simp [argItems, items_of_empty h id he]) (by simp [append, he]) hids'
    · exact some_to_done h _ args id rfl hwf (hids id (by simp)) (by simpa using he) hids' (hna id rfl)

/-- **the assembled theorem about `Append`** -/
theorem append_spec : ∀ (args : List Val) (acc : Val) (h : Heap), WF h →
    (∀ id, Val.ref id ∈ acc :: args → id < h.size) → NoAlias h acc args →
    AppendDone h acc args (append h acc args) := by
  intro args acc h hwf hids hna
  exact append_core h acc args hwf hids (fun id hid id' hid' => hna id hid id' hid')

/-! ### consequences -/

theorem restOf_subset (args : List Val) (acc : Val) (x : Val) (hx : x ∈ restOf acc args) : x ∈ args := hx

/-- frame for any pre-existing aggregate whose chain does not end in the accumulator's last cell -/
theorem append_frame_any (h : Heap) (acc : Val) (args : List Val) (hwf : WF h)
    (hids : ∀ id, Val.ref id ∈ acc :: args → id < h.size) (hna : NoAlias h acc args) (id' : Nat) (hid' : id' < h.size)
    (hno : ∀ id, accOf acc args = .ref id → tailOf h (fuelOf h) id ∉ chain h (fuelOf h) id') :
    chain (append h acc args).1 (fuelOf (append h acc args).1) id' = chain h (fuelOf h) id' ∧
    items (append h acc args).1 id' = items h id' ∧
    ∀ i ∈ chain h (fuelOf h) id', (append h acc args).1[i]? = h[i]? := by
  have D := append_spec args acc h hwf hids hna
  have hag : ∀ i ∈ chain h (fuelOf h) id', (append h acc args).1[i]? = h[i]? := by
    intro i hi
    apply D.frame i ((hwf.chain_spec hid').2 i hi).2
    intro id hacc heq
    exact hno id hacc (by rw [← heq]; exact hi)
  have := arg_frame h _ hwf D.wf D.grow id' hid' hag
  exact ⟨this.1, this.2, hag⟩

theorem filterMap_length_filter {α β : Type} (f : α → Option β) (p : α → Bool) (l : List α)
    (h : ∀ x ∈ l, (f x).isSome = p x) : (l.filterMap f).length = (l.filter p).length := by
  induction l with
  | nil => rfl
  | cons a l ih =>
    have ha := h a (by simp)
    have := ih (fun x hx => h x (by simp [hx]))
    simp only [List.filterMap_cons, List.filter_cons]
    cases hf : f a with
    | none => rw [hf] at ha; simp at ha; simp [ha, this]
    | some b => rw [hf] at ha; simp at ha; simp [ha, this]

/-- `Count` is the number of non-empty errors of the chain — on every heap -/
theorem count_eq_items (h : Heap) (id : Nat) : count h id = (items h id).length := by
  unfold count items itemsAt
  symm
  apply filterMap_length_filter
  intro i _
  unfold isEmpty
  cases h[i]? with
  | none => rfl
  | some n => simp only [Option.bind_some, visible]; cases nodeEmpty n <;> rfl

/-- `WrappedErrors` of an aggregate with a non-empty head is the list of its items -/
theorem wrapped_eq_items (h : Heap) (hwf : WF h) (id : Nat) (hid : id < h.size) (hne : isEmpty h id = false) :
    (wrappedErrors h id).map itemOf = items h id := by
  obtain ⟨c, hm⟩ := hwf.chain_spec hid
  unfold wrappedErrors items itemsAt
  rw [List.map_filterMap]
  apply filterMap_congr'
  intro i hi
  have hlt := (hm i hi).2
  have hne_i : isEmpty h i = false := by
    rcases c.mem_cases i hi with rfl | ⟨p, hp⟩
    · exact hne
    · exact (hwf p i hp).2.2
  rw [get_of_lt h i hlt]
  simp only [Option.map_some, Option.bind_some]
  rw [visible_of_nonempty _ (isEmpty_false_node h i hlt hne_i)]
  rfl

theorem root_nonempty {h : Heap} {acc : Val} {args : List Val} {res : Heap × Option Nat × List Nat}
    (D : AppendDone h acc args res) (r : Nat) (hr : res.2.1 = some r) : isEmpty res.1 r = false := by
  cases he : isEmpty res.1 r with
  | false => rfl
  | true =>
    have h1 : resItems res = [] := by simp only [resItems, hr]; exact items_of_empty _ _ he
    have h2 := D.nilIff.mpr (by rw [← D.items]; exact h1)
    rw [hr] at h2; cases h2

/-- a Boolean check of the invariant (run by the model driver on every heap it builds) -/
theorem wf_of_wfb (h : Heap) (hb : wfb h = true) : WF h := by
  intro i j hij
  have hi := nextOf_lt_size hij
  unfold wfb at hb
  have := List.all_eq_true.mp hb i (List.mem_range.mpr hi)
  rw [hij] at this
  simp at this
  exact ⟨this.1.1, this.1.2, this.2⟩

theorem accOf_mem (args : List Val) (acc : Val) : accOf acc args ∈ acc :: args := by simp [accOf]

/-- a sequence of `Append`s on one accumulator: the result of each call is the accumulator of the next -/
def appendSeq (h : Heap) (acc : Val) : List (List Val) → Heap × Val
  | [] => (h, acc)
  | args :: rest => appendSeq (append h acc args).1 (ptrVal (append h acc args).2.1) rest

theorem argItems_ptrVal (res : Heap × Option Nat × List Nat) : argItems res.1 (ptrVal res.2.1) = resItems res := by
  unfold resItems
  cases res.2.1 with
  | none => simp [ptrVal, argItems, isNil]
  | some r => simp [ptrVal, argItems]

theorem appendSeq_spec : ∀ (argss : List (List Val)) (h : Heap) (acc : Val), acc ≠ .nilIface → WF h →
    (∀ id, acc = .ref id → id < h.size) →
    (∀ args ∈ argss, ∀ id', Val.ref id' ∈ args → id' < h.size ∧
      ∀ id, acc = .ref id → tailOf h (fuelOf h) id ∉ chain h (fuelOf h) id') →
    argItems (appendSeq h acc argss).1 (appendSeq h acc argss).2 =
      argItems h acc ++ argss.flatMap (fun args => args.flatMap (argItems h)) ∧
    WF (appendSeq h acc argss).1 := by
  intro argss
  induction argss with
  | nil => intro h acc _ hwf _ _; exact ⟨by simp [appendSeq], hwf⟩
  | cons args rest ih =>
    intro h acc hacc hwf hid hargs
    have hids : ∀ id, Val.ref id ∈ acc :: args → id < h.size := by
      intro id hmem
      rcases List.mem_cons.mp hmem with heq | hmem
      · exact hid id heq.symm
      · exact (hargs args (by simp) id hmem).1
    have hna : NoAlias h acc args := by
      intro id hid' id' hmem
      rw [accOf_of_ne acc _ hacc] at hid'
      rw [restOf_of_ne acc _ hacc] at hmem
      exact (hargs args (by simp) id' hmem).2 id hid'
    have D := append_spec args acc h hwf hids hna
    have hfr : ∀ args' ∈ rest, ∀ id', Val.ref id' ∈ args' → id' < h.size ∧
        chain (append h acc args).1 (fuelOf (append h acc args).1) id' = chain h (fuelOf h) id' ∧
        ∀ i ∈ chain h (fuelOf h) id', (append h acc args).1[i]? = h[i]? := by
      intro args' hargs' id' hmem
      obtain ⟨hlt, hno⟩ := hargs args' (List.mem_cons_of_mem _ hargs') id' hmem
      have := append_frame_any h acc args hwf hids hna id' hlt
        (fun id hx => hno id (by rw [accOf_of_ne acc _ hacc] at hx; exact hx))
      exact ⟨hlt, this.1, this.2.2⟩
    have hacc' : ptrVal (append h acc args).2.1 ≠ .nilIface := by
      cases (append h acc args).2.1 <;> simp [ptrVal]
    have hid' : ∀ r, ptrVal (append h acc args).2.1 = .ref r → r < (append h acc args).1.size := by
      intro r hr
      apply D.rootLt r
      cases hx : (append h acc args).2.1 with
      | none => rw [hx] at hr; simp [ptrVal] at hr
      | some r' => rw [hx] at hr; simp [ptrVal] at hr; rw [hr]
    have hargs2 : ∀ args' ∈ rest, ∀ id', Val.ref id' ∈ args' → id' < (append h acc args).1.size ∧
        ∀ r, ptrVal (append h acc args).2.1 = .ref r →
          tailOf (append h acc args).1 (fuelOf (append h acc args).1) r ∉
            chain (append h acc args).1 (fuelOf (append h acc args).1) id' := by
      intro args' hargs' id' hmem
      obtain ⟨hlt, hch, _⟩ := hfr args' hargs' id' hmem
      have hgrow := D.grow
      refine ⟨by omega, ?_⟩
      intro r hr
      have hroot : (append h acc args).2.1 = some r := by
        cases hx : (append h acc args).2.1 with
        | none => rw [hx] at hr; simp [ptrVal] at hr
        | some r' => rw [hx] at hr; simp [ptrVal] at hr; rw [hr]
      rw [hch]
      rcases D.tail r hroot with hge | ⟨hres, hacr⟩
      · intro hx
        have := ((hwf.chain_spec hlt).2 _ hx).2
        omega
      · rw [hres]
        rw [accOf_of_ne acc _ hacc] at hacr
        exact (hargs args' (List.mem_cons_of_mem _ hargs') id' hmem).2 r hacr
    obtain ⟨i1, i2⟩ := ih (append h acc args).1 (ptrVal (append h acc args).2.1) hacc' D.wf hid' hargs2
    refine ⟨?_, i2⟩
    have e1 : rest.flatMap (fun args' => args'.flatMap (argItems (append h acc args).1)) =
        rest.flatMap (fun args' => args'.flatMap (argItems h)) := by
      apply flatMap_congr'
      intro args' hargs'
      apply flatMap_congr'
      intro a' ha'
      apply argItems_frame h _ hwf D.wf D.grow
      intro id' heq
      subst heq
      obtain ⟨hlt, _, hag⟩ := hfr args' hargs' id' ha'
      exact ⟨hlt, hag⟩
    show argItems (appendSeq (append h acc args).1 (ptrVal (append h acc args).2.1) rest).1
        (appendSeq (append h acc args).1 (ptrVal (append h acc args).2.1) rest).2 = _
    rw [i1, argItems_ptrVal, D.items, e1]
    simp [List.flatMap_cons, List.append_assoc]

/-! ### the constructors keep the invariant -/

theorem push_wf (h : Heap) (n : ENode) (hwf : WF h) (hn : n.next = none) : WF (h.push n) := by
  intro i j hij
  have hcell : ∀ k, k < h.size → (h.push n)[k]? = h[k]? := by
    intro k hk; rw [Array.getElem?_push]; simp [Nat.ne_of_lt hk]
  by_cases hi : i < h.size
  · rw [nextOf_congr h _ i (hcell i hi)] at hij
    obtain ⟨h1, h2, h3⟩ := hwf i j hij
    refine ⟨h1, by simp; omega, ?_⟩
    rw [isEmpty_congr h _ j (hcell j h2)]; exact h3
  · have hlt := nextOf_lt_size hij
    have hie : i = h.size := by simp at hlt; omega
    subst hie
    unfold nextOf at hij
    rw [Array.getElem?_push] at hij
    simp [hn] at hij

theorem wrap_wf (h : Heap) (v : Val) (hwf : WF h) : WF (wrap h v).1 := by
  unfold wrap
  split
  · exact hwf
  · split
    · exact hwf
    · exact push_wf h _ hwf rfl

theorem wrapTyped_wf (h : Heap) (v : Val) (hwf : WF h) : WF (wrapTyped h v).1 := by
  unfold wrapTyped
  split
  · exact hwf
  · split
    · exact hwf
    · exact push_wf h _ hwf rfl

/-! ### the invariant is preserved by `Append` whatever the aliasing between its arguments -/

theorem tail_lt {h : Heap} (hwf : WF h) {id : Nat} (hid : id < h.size) : tailOf h (fuelOf h) id < h.size := by
  obtain ⟨c, hm⟩ := hwf.chain_spec hid
  exact (hm _ c.tail_mem).2

theorem loop_wf : ∀ (args : List Val) (h : Heap) (root cur : Option Nat) (log : List Nat), WF h →
    (∀ e, cur = some e → e < h.size) → (∀ id, Val.ref id ∈ args → id < h.size) →
    WF (appendLoop h root cur log args).1 ∧ h.size ≤ (appendLoop h root cur log args).1.size := by
  intro args
  induction args with
  | nil => intro h root cur log hwf _ _; exact ⟨hwf, Nat.le_refl _⟩
  | cons a as ih =>
    intro h root cur log hwf hcur hargs
    have hargs' : ∀ id, Val.ref id ∈ as → id < h.size := fun id hid => hargs id (by simp [hid])
    rcases argNode_spec h a hwf (fun id ha => hargs id (by simp [ha])) with ⟨hsk, _⟩ | ⟨h1, n, w, lb, e', hb, B⟩
    · have hun : appendLoop h root cur log (a :: as) = appendLoop h root cur log as := by
        simp only [appendLoop, hsk]
      rw [hun]
      exact ih h root cur log hwf hcur hargs'
    · have hgrow := B.grow
      have hn : h.size ≤ n ∧ n < h1.size := B.fresh n B.chain.head_mem
      cases cur with
      | none =>
        have hun : appendLoop h root none log (a :: as) =
            appendLoop h1 (some n) (some (tailOf h1 (fuelOf h1) n)) (log ++ w) as := by
          simp only [appendLoop, hb]
        rw [hun]
        have := ih h1 (some n) (some (tailOf h1 (fuelOf h1) n)) (log ++ w) B.wf
          (fun e he => by cases he; exact tail_lt B.wf hn.2) (fun id hid => by have := hargs' id hid; omega)
        exact ⟨this.1, by omega⟩
      | some e =>
        have he := hcur e rfl
        have hsz2 : (setNext h1 e n).size = h1.size := setNext_size _ _ _
        have hwf2 : WF (setNext h1 e n) := WF_setNext h1 e n B.wf (by omega) (by omega) hn.2 B.headNonempty
        have hun : appendLoop h root (some e) log (a :: as) =
            appendLoop (setNext h1 e n) root (some (tailOf (setNext h1 e n) (fuelOf (setNext h1 e n)) n))
              (log ++ w ++ [e]) as := by
          simp only [appendLoop, hb]
        rw [hun]
        have := ih (setNext h1 e n) root (some (tailOf (setNext h1 e n) (fuelOf (setNext h1 e n)) n))
          (log ++ w ++ [e]) hwf2
          (fun e' he' => by cases he'; exact tail_lt hwf2 (by rw [hsz2]; exact hn.2))
          (fun id hid => by have := hargs' id hid; rw [hsz2]; omega)
        rw [hsz2] at this
        exact ⟨this.1, by omega⟩

theorem append_wrapper_eq (h : Heap) (v : Val) (args : List Val) (hnil : isNil v = false) (hnr : ∀ id, v ≠ .ref id) :
    append h v args = appendLoop (h.push (wrapperNode v)) (some h.size) (some h.size) [] args := by
  cases v with
  | ref id => exact absurd rfl (hnr id)
  | nilIface => simp [isNil] at hnil
  | typedNil => simp [isNil] at hnil
  | foreignNil => simp [isNil] at hnil
  | plain u m => simp [append, isNil]
  | fwrap u m inner => simp [append, isNil]

theorem append_wf_core (h : Heap) (acc : Val) (args : List Val) (hwf : WF h)
    (hids : ∀ id, Val.ref id ∈ acc :: args → id < h.size) :
    WF (append h acc args).1 ∧ h.size ≤ (append h acc args).1.size := by
  have hargs : ∀ id, Val.ref id ∈ args → id < h.size := fun id hid => hids id (List.mem_cons_of_mem _ hid)
  have hnone : ∀ e, (none : Option Nat) = some e → e < h.size := fun e he => by cases he
  have wrapper : ∀ v : Val, isNil v = false → (∀ id, v ≠ .ref id) →
      WF (append h v args).1 ∧ h.size ≤ (append h v args).1.size := by
    intro v hnil hnr
    rw [append_wrapper_eq h v args hnil hnr]
    have := loop_wf args (h.push (wrapperNode v)) (some h.size) (some h.size) [] (push_wf h _ hwf rfl)
      (fun e he => by cases he; rw [Array.size_push]; omega)
      (fun id hid => by have := hargs id hid; rw [Array.size_push]; omega)
    have h2 := this.2
    rw [Array.size_push] at h2
    exact ⟨this.1, by omega⟩
  cases acc with
  | nilIface =>
    have hun : append h .nilIface args = appendLoop h none none [] args := by simp [append]
    rw [hun]; exact loop_wf args h none none [] hwf hnone hargs
  | typedNil =>
    have hun : append h .typedNil args = appendLoop h none none [] args := by simp [append]
    rw [hun]; exact loop_wf args h none none [] hwf hnone hargs
  | foreignNil =>
    have hun : append h .foreignNil args = appendLoop h none none [] args := by simp [append, isNil]
    rw [hun]; exact loop_wf args h none none [] hwf hnone hargs
  | plain u m => exact wrapper _ (by simp [isNil]) (by simp)
  | fwrap u m inner => exact wrapper _ (by simp [isNil]) (by simp)
  | ref id =>
    by_cases he : isEmpty h id = true
    · have hun : append h (.ref id) args = appendLoop h none none [] args := by simp [append, he]
      rw [hun]; exact loop_wf args h none none [] hwf hnone hargs
    · have hun : append h (.ref id) args = appendLoop h (some id) (some (tailOf h (fuelOf h) id)) [] args := by
        simp [append, he]
      rw [hun]
      exact loop_wf args h (some id) (some (tailOf h (fuelOf h) id)) [] hwf
        (fun e he' => by cases he'; exact tail_lt hwf (hids id (by simp))) hargs

/-- `Append` keeps the heap invariant whatever the aliasing between accumulator and arguments -/
theorem append_wf_any : ∀ (args : List Val) (acc : Val) (h : Heap), WF h →
    (∀ id, Val.ref id ∈ acc :: args → id < h.size) →
    WF (append h acc args).1 ∧ h.size ≤ (append h acc args).1.size := by
  intro args acc h hwf hids
  exact append_wf_core h acc args hwf hids

/-- `WrappedErrors()` elements carry no link -/
theorem wrappedErrors_next_none' (h : Heap) (id : Nat) : ∀ n ∈ wrappedErrors h id, n.next = none := by
  intro n hn
  unfold wrappedErrors at hn
  simp only [List.mem_filterMap] at hn
  obtain ⟨i, _, hx⟩ := hn
  cases hh : h[i]? with
  | none => rw [hh] at hx; cases hx
  | some m => rw [hh] at hx; simp at hx; rw [← hx]

/-- taking an element of `WrappedErrors()` as a value of its own keeps the invariant, whatever the value and index -/
theorem elem_wf_any (h : Heap) (v : Val) (i : Nat) (hwf : WF h) : WF (elem h v i).1 := by
  cases v with
  | ref id =>
    cases hn : (wrappedErrors h id)[i]? with
    | none => simp only [elem, hn]; exact hwf
    | some n =>
      simp only [elem, hn]
      exact push_wf h n hwf (wrappedErrors_next_none' h id n (List.mem_of_getElem? hn))
  | nilIface => exact hwf
  | typedNil => exact hwf
  | foreignNil => exact hwf
  | plain u m => exact hwf
  | fwrap u m inner => exact hwf

/-- the heaps the exported API can build (without `CloneWithPrefixMessage`): every `*Error` handed to a call exists -/
inductive Reachable : Heap → Prop
  | empty : Reachable #[]
  | new (h : Heap) (m : String) : Reachable h → Reachable (new h m).1
  | newWithCause (h : Heap) (m : String) (c : Val) : Reachable h → Reachable (newWithCause h m c).1
  | newEmpty (h : Heap) : Reachable h → Reachable (newEmpty h).1
  | wrap (h : Heap) (v : Val) : Reachable h → Reachable (wrap h v).1
  | wrapTyped (h : Heap) (v : Val) : Reachable h → Reachable (wrapTyped h v).1
  | append (h : Heap) (acc : Val) (args : List Val) : Reachable h →
      (∀ id, Val.ref id ∈ acc :: args → id < h.size) → Reachable (append h acc args).1
  | elem (h : Heap) (v : Val) (i : Nat) : Reachable h → Reachable (elem h v i).1   -- an element of WrappedErrors()

theorem reachable_wf_aux {h : Heap} (r : Reachable h) : WF h := by
  induction r with
  | empty => intro i j hij; simp [nextOf] at hij
  | new h m _ ih => exact push_wf h _ ih rfl
  | newWithCause h m c _ ih => exact push_wf h _ ih rfl
  | newEmpty h _ ih => exact push_wf h _ ih rfl
  | wrap h v _ ih => exact wrap_wf h v ih
  | wrapTyped h v _ ih => exact wrapTyped_wf h v ih
  | append h acc args _ hids ih => exact (append_wf_any args acc h ih hids).1
  | elem h v i _ ih => exact elem_wf_any h v i ih

/-! ### the content law with aliasing: arguments that end in the accumulator's last cell are read after it has grown -/

theorem Chain.mem_none_eq_tail {h : Heap} {a e x : Nat} {l : List Nat} (c : Chain h a l e) (hx : x ∈ l)
    (hn : nextOf h x = none) : x = e := by
  induction c with
  | last id _ => simpa using hx
  | step id j l e hj _ ih =>
    rcases List.mem_cons.mp hx with rfl | hx
    · rw [hn] at hj; cases hj
    · exact ih hx

/-- what the argument `a` contributes when `A` has already been appended behind the cell `e0` -/
def contrib (h : Heap) (e0 : Nat) (A : List Item) : Val → List Item
  | .ref id' => if e0 ∈ chain h (fuelOf h) id' then items h id' ++ A else items h id'
  | v => argItems h v

/-- everything that is appended behind `e0` by the arguments, in order (`A` = appended so far) -/
def aliasItems (h : Heap) (e0 : Nat) : List Item → List Val → List Item
  | A, [] => A
  | A, a :: as => aliasItems h e0 (A ++ contrib h e0 A a) as

/-- loop invariant relating the current heap `hc` (cursor `ec`, cells `Ls` appended so far with content `A`) to the
    heap `h` at the call -/
structure Prog (h : Heap) (e0 : Nat) (hc : Heap) (ec : Nat) (Ls : List Nat) (A : List Item) : Prop where
  wf : WF hc
  grow : h.size ≤ hc.size
  chains : ∀ a la ea, a < h.size → Chain h a la ea →
    (ea = e0 → Chain hc a (la ++ Ls) ec) ∧ (ea ≠ e0 → Chain hc a la ea)
  vis : ∀ i, i < h.size → (hc[i]?).bind visible = (h[i]?).bind visible
  fresh : ∀ i ∈ Ls, h.size ≤ i ∧ i < hc.size
  its : Ls.filterMap (fun i => (hc[i]?).bind visible) = A
  cur : (Ls = [] ∧ ec = e0) ∨ (Ls ≠ [] ∧ h.size ≤ ec)
  ecLt : ec < hc.size
  ecNonempty : isEmpty hc ec = false

theorem contrib_eq {h : Heap} {e0 : Nat} {hc : Heap} {ec : Nat} {Ls : List Nat} {A : List Item}
    (P : Prog h e0 hc ec Ls A) (hwf : WF h) (he0 : nextOf h e0 = none) (a : Val)
    (hid : ∀ id, a = .ref id → id < h.size) : argItems hc a = contrib h e0 A a := by
  cases a with
  | nilIface => rfl
  | typedNil => rfl
  | foreignNil => rfl
  | plain u m => rfl
  | fwrap u m inner => rfl
  | ref id' =>
    have hlt := hid id' rfl
    obtain ⟨c, hm⟩ := hwf.chain_spec hlt
    have hgrow := P.grow
    have hvis : (chain h (fuelOf h) id').filterMap (fun i => (hc[i]?).bind visible) = items h id' := by
      unfold items itemsAt
      apply filterMap_congr'
      intro i hi
      exact P.vis i (hm i hi).2
    by_cases ht : tailOf h (fuelOf h) id' = e0
    · have hmem : e0 ∈ chain h (fuelOf h) id' := by rw [← ht]; exact c.tail_mem
      have c' := (P.chains id' _ _ hlt c).1 ht
      simp only [argItems, contrib, hmem, if_true]
      rw [items_eq_of_chain P.wf c' (by omega), List.filterMap_append, hvis, P.its]
    · have hmem : e0 ∉ chain h (fuelOf h) id' := fun hx => ht (c.mem_none_eq_tail hx he0).symm
      have c' := (P.chains id' _ _ hlt c).2 ht
      simp only [argItems, contrib, hmem, if_false]
      rw [items_eq_of_chain P.wf c' (by omega), hvis]

theorem loop_alias (h : Heap) (e0 r : Nat) (hwf : WF h) (he0 : nextOf h e0 = none) :
    ∀ (args : List Val) (hc : Heap) (ec : Nat) (Ls : List Nat) (A : List Item) (log : List Nat),
    Prog h e0 hc ec Ls A → (∀ id, Val.ref id ∈ args → id < h.size) →
    (appendLoop hc (some r) (some ec) log args).2.1 = some r ∧
    ∃ Ls' ec', Prog h e0 (appendLoop hc (some r) (some ec) log args).1 ec' Ls' (aliasItems h e0 A args) := by
  intro args
  induction args with
  | nil => intro hc ec Ls A log P _; exact ⟨rfl, Ls, ec, P⟩
  | cons a as ih =>
    intro hc ec Ls A log P hargs
    have hargs' : ∀ id, Val.ref id ∈ as → id < h.size := fun id hid => hargs id (by simp [hid])
    have hgrow := P.grow
    have hida : ∀ id, a = .ref id → id < h.size := fun id ha => hargs id (by simp [ha])
    have hce := contrib_eq P hwf he0 a hida
    rcases argNode_spec hc a P.wf (fun id ha => by have := hida id ha; omega) with ⟨hsk, hit⟩ | ⟨h1, n, w, lb, e', hb, B⟩
    · have hun : appendLoop hc (some r) (some ec) log (a :: as) = appendLoop hc (some r) (some ec) log as := by
        simp only [appendLoop, hsk]
      rw [hun]
      have hA : aliasItems h e0 A (a :: as) = aliasItems h e0 A as := by
        simp only [aliasItems, ← hce, hit, List.append_nil]
      rw [hA]
      exact ih hc ec Ls A log P hargs'
    · have hg1 := B.grow
      have hecLt := P.ecLt
      have hn : hc.size ≤ n ∧ n < h1.size := B.fresh n B.chain.head_mem
      have heB : ec ∉ lb := fun hx => by have := (B.fresh ec hx).1; omega
      have hsz2 : (setNext h1 ec n).size = h1.size := setNext_size _ _ _
      have hwf2 : WF (setNext h1 ec n) := WF_setNext h1 ec n B.wf (by omega) (by omega) hn.2 B.headNonempty
      have hoth : ∀ i ∈ lb, (setNext h1 ec n)[i]? = h1[i]? :=
        fun i hi => setNext_other h1 ec n i (fun x => heB (by rw [← x]; exact hi))
      have cb2 : Chain (setNext h1 ec n) n lb e' := B.chain.congr hoth
      have hcur : tailOf (setNext h1 ec n) (fuelOf (setNext h1 ec n)) n = e' :=
        ((cb2.bounds hwf2 (by rw [hsz2]; exact hn.2)).2.2.2).symm
      have hun : appendLoop hc (some r) (some ec) log (a :: as) =
          appendLoop (setNext h1 ec n) (some r) (some e') (log ++ w ++ [ec]) as := by
        simp only [appendLoop, hb, hcur]
      rw [hun]
      have hA : aliasItems h e0 A (a :: as) = aliasItems h e0 (A ++ contrib h e0 A a) as := rfl
      rw [hA]
      have he'f := B.fresh e' B.chain.tail_mem
      have hec1 : isEmpty h1 ec = false := by rw [isEmpty_congr hc h1 ec (B.frame ec hecLt)]; exact P.ecNonempty
      have hvis_ec : ((setNext h1 ec n)[ec]?).bind visible = (hc[ec]?).bind visible := by
        rw [visible_setNext h1 ec n (by omega) hec1, B.frame ec hecLt]
      have hcell : ∀ i, i < hc.size → ((setNext h1 ec n)[i]?).bind visible = (hc[i]?).bind visible := by
        intro i hi
        by_cases hie : i = ec
        · rw [hie]; exact hvis_ec
        · rw [setNext_other h1 ec n i hie, B.frame i hi]
      have P' : Prog h e0 (setNext h1 ec n) e' (Ls ++ lb) (A ++ contrib h e0 A a) := by
        refine ⟨hwf2, by rw [hsz2]; omega, ?_, ?_, ?_, ?_, ?_, by rw [hsz2]; exact he'f.2, ?_⟩
        · intro x la ea hx cx
          have hla : ∀ i ∈ la, i < h.size := fun i hi => ((cx.bounds hwf hx).2.1 i hi).2
          refine ⟨fun hea => ?_, fun hea => ?_⟩
          · have c1 := (P.chains x la ea hx cx).1 hea
            have c1' : Chain h1 x (la ++ Ls) ec := c1.congr (fun i hi => by
              apply B.frame i
              rcases List.mem_append.mp hi with hi | hi
              · have := hla i hi; omega
              · exact (P.fresh i hi).2)
            have := c1'.link B.chain (by omega) heB
            rw [List.append_assoc] at this
            exact this
          · have c1 := (P.chains x la ea hx cx).2 hea
            have hnot : ec ∉ la := by
              intro hmem
              rcases P.cur with ⟨_, hec⟩ | ⟨_, hge⟩
              · rw [hec] at hmem; exact hea (cx.mem_none_eq_tail hmem he0).symm
              · have := hla ec hmem; omega
            exact c1.congr (fun i hi => by
              rw [setNext_other h1 ec n i (fun x => hnot (by rw [← x]; exact hi)), B.frame i (by have := hla i hi; omega)])
        · intro i hi
          rw [hcell i (by omega), P.vis i hi]
        · intro i hi
          rw [hsz2]
          rcases List.mem_append.mp hi with hi | hi
          · have := P.fresh i hi; omega
          · have := B.fresh i hi; omega
        · rw [List.filterMap_append]
          have e1 : Ls.filterMap (fun i => ((setNext h1 ec n)[i]?).bind visible) = A := by
            rw [← P.its]
            apply filterMap_congr'
            intro i hi
            exact hcell i (P.fresh i hi).2
          have e2 : lb.filterMap (fun i => ((setNext h1 ec n)[i]?).bind visible) = contrib h e0 A a := by
            rw [← hce, ← B.items]
            apply filterMap_congr'
            intro i hi
            rw [hoth i hi]
          rw [e1, e2]
        · refine Or.inr ⟨?_, by omega⟩
          intro hnil
          exact B.chain.ne_nil (List.append_eq_nil_iff.mp hnil).2
        · exact cb2.tail_nonempty hwf2 (isEmpty_setNext h1 ec n n B.headNonempty)
      exact ih (setNext h1 ec n) e' (Ls ++ lb) (A ++ contrib h e0 A a) (log ++ w ++ [ec]) P' hargs'

/-- **content of `Append` with any aliasing** (accumulator a non-empty `*Error`): every argument whose chain ends in the
    accumulator's last cell is read after the accumulator has grown -/
theorem append_items_alias (h : Heap) (id : Nat) (args : List Val) (hwf : WF h) (hid : id < h.size)
    (hne : isEmpty h id = false) (hids : ∀ id', Val.ref id' ∈ args → id' < h.size) :
    resItems (append h (.ref id) args) = items h id ++ aliasItems h (tailOf h (fuelOf h) id) [] args := by
  have hun : append h (.ref id) args = appendLoop h (some id) (some (tailOf h (fuelOf h) id)) [] args := by
    simp [append, hne]
  rw [hun]
  obtain ⟨c, hm⟩ := hwf.chain_spec hid
  have he0 := c.tail_next
  have P0 : Prog h (tailOf h (fuelOf h) id) h (tailOf h (fuelOf h) id) [] [] := by
    refine ⟨hwf, Nat.le_refl _, ?_, fun _ _ => rfl, by simp, rfl, Or.inl ⟨rfl, rfl⟩, (hm _ c.tail_mem).2,
      c.tail_nonempty hwf hne⟩
    intro a la ea _ ca
    exact ⟨fun hea => by rw [List.append_nil, ← hea]; exact ca, fun _ => ca⟩
  obtain ⟨hroot, Ls', ec', P⟩ := loop_alias h _ id hwf he0 args h _ [] [] [] P0 hids
  have cres := (P.chains id _ _ hid c).1 rfl
  have hgrow := P.grow
  simp only [resItems, hroot]
  rw [items_eq_of_chain P.wf cres (by omega), List.filterMap_append, P.its]
  congr 1
  unfold items itemsAt
  apply filterMap_congr'
  intro i hi
  exact P.vis i (hm i hi).2

/-! ### an element of `WrappedErrors()` used as a value of its own -/

theorem wrappedErrors_next_none (h : Heap) (id : Nat) : ∀ n ∈ wrappedErrors h id, n.next = none := by
  intro n hn
  unfold wrappedErrors at hn
  simp only [List.mem_filterMap] at hn
  obtain ⟨i, _, hx⟩ := hn
  cases hh : h[i]? with
  | none => rw [hh] at hx; cases hx
  | some m => rw [hh] at hx; simp at hx; rw [← hx]

/-- the element is a detached copy in a fresh cell: no link, the heap invariant is kept, no existing cell changes, and no
    existing chain passes through it (so `Append` on it cannot touch the aggregate it came from: `append_frame`) -/
theorem elem_spec (h : Heap) (hwf : WF h) (id i : Nat) (n : ENode) (hn : (wrappedErrors h id)[i]? = some n) :
    elem h (.ref id) i = (h.push n, .ref h.size) ∧ n.next = none ∧ WF (h.push n) ∧
    (∀ j, j < h.size → (h.push n)[j]? = h[j]?) ∧
    (∀ id', id' < h.size → h.size ∉ chain h (fuelOf h) id') := by
  have hnext : n.next = none := wrappedErrors_next_none h id n (List.mem_of_getElem? hn)
  refine ⟨by simp [elem, hn], hnext, push_wf h n hwf hnext, ?_, ?_⟩
  · intro j hj
    rw [Array.getElem?_push]; simp [Nat.ne_of_lt hj]
  · intro id' hid' hmem
    have := ((hwf.chain_spec hid').2 _ hmem).2
    omega

theorem elem_none (h : Heap) (v : Val) (i : Nat) (hv : ∀ id, v = .ref id → (wrappedErrors h id)[i]? = none) :
    elem h v i = (h, .nilIface) := by
  cases v with
  | ref id => simp [elem, hv id rfl]
  | nilIface => rfl
  | typedNil => rfl
  | foreignNil => rfl
  | plain u m => rfl
  | fwrap u m inner => rfl

end Errs
