import Model.Errs
/-! C11 heap lemmas: chains as a relation, the heap invariant `WF`, frame lemmas for the two kinds of write
    (`setNext`, allocation of a fresh block), and the assembly over `appendLoop`. Core-only. -/
namespace Errs

/-! ### congruence: a chain is determined by the cells it visits (design Appendix C) -/

theorem chain_succ (h : Heap) (f id : Nat) :
    chain h (f + 1) id = id :: (match nextOf h id with | some j => chain h f j | none => []) := rfl

theorem chain_congr (h h' : Heap) (fuel id : Nat) (hag : ∀ i ∈ chain h fuel id, h'[i]? = h[i]?) :
    chain h' fuel id = chain h fuel id := by
  induction fuel generalizing id with
  | zero => rfl
  | succ f ih =>
    have hid : h'[id]? = h[id]? := hag id (by simp [chain])
    have hn : nextOf h' id = nextOf h id := by unfold nextOf; rw [hid]
    simp only [chain, hn]
    cases hnx : nextOf h id with
    | none => rfl
    | some j =>
      simp only
      rw [ih j (fun i hi => hag i (by simp [chain, hnx, hi]))]

theorem filterMap_congr' {α β : Type} (f g : α → Option β) (l : List α) (h : ∀ x ∈ l, f x = g x) :
    l.filterMap f = l.filterMap g := by
  induction l with
  | nil => rfl
  | cons a l ih =>
    simp only [List.filterMap_cons, h a (by simp)]
    rw [ih (fun x hx => h x (by simp [hx]))]

theorem items_congr (h h' : Heap) (fuel id : Nat) (hag : ∀ i ∈ chain h fuel id, h'[i]? = h[i]?) :
    itemsAt h' fuel id = itemsAt h fuel id := by
  unfold itemsAt
  rw [chain_congr h h' fuel id hag]
  apply filterMap_congr'
  intro i hi
  rw [hag i hi]

theorem setNext_other (h : Heap) (e j i : Nat) (hne : i ≠ e) : (setNext h e j)[i]? = h[i]? := by
  unfold setNext
  rw [Array.getElem?_modify]
  have : ¬ e = i := fun x => hne x.symm
  simp [this]

theorem setNext_size (h : Heap) (e j : Nat) : (setNext h e j).size = h.size := by
  unfold setNext; simp

theorem nextOf_setNext_same (h : Heap) (e n : Nat) (he : e < h.size) : nextOf (setNext h e n) e = some n := by
  unfold nextOf setNext
  rw [Array.getElem?_modify]
  simp [he]

theorem nextOf_setNext_other (h : Heap) (e n a : Nat) (hne : a ≠ e) : nextOf (setNext h e n) a = nextOf h a := by
  unfold nextOf; rw [setNext_other h e n a hne]

theorem nextOf_congr (h h' : Heap) (i : Nat) (hi : h'[i]? = h[i]?) : nextOf h' i = nextOf h i := by
  unfold nextOf; rw [hi]

theorem isEmpty_congr (h h' : Heap) (i : Nat) (hi : h'[i]? = h[i]?) : isEmpty h' i = isEmpty h i := by
  unfold isEmpty; rw [hi]

/-! ### chains as a relation: `Chain h id l e` — walking from `id` visits exactly `l` and stops at `e` -/

inductive Chain (h : Heap) : Nat → List Nat → Nat → Prop
  | last (id : Nat) : nextOf h id = none → Chain h id [id] id
  | step (id j : Nat) (l : List Nat) (e : Nat) : nextOf h id = some j → Chain h j l e → Chain h id (id :: l) e

theorem Chain.ne_nil {h : Heap} {id e : Nat} {l : List Nat} (c : Chain h id l e) : l ≠ [] := by
  cases c <;> simp

theorem Chain.head_mem {h : Heap} {id e : Nat} {l : List Nat} (c : Chain h id l e) : id ∈ l := by
  cases c <;> simp

theorem Chain.tail_mem {h : Heap} {id e : Nat} {l : List Nat} (c : Chain h id l e) : e ∈ l := by
  induction c with
  | last id _ => simp
  | step id j l e _ _ ih => simp [ih]

theorem Chain.tail_next {h : Heap} {id e : Nat} {l : List Nat} (c : Chain h id l e) : nextOf h e = none := by
  induction c with
  | last id hn => exact hn
  | step id j l e _ _ ih => exact ih

/-- the executable walk computes the relation's list … -/
theorem Chain.chain_eq {h : Heap} {id e : Nat} {l : List Nat} (c : Chain h id l e) :
    ∀ fuel, l.length ≤ fuel → chain h fuel id = l := by
  induction c with
  | last id hn =>
    intro fuel hf
    obtain ⟨f, rfl⟩ : ∃ f, fuel = f + 1 := ⟨fuel - 1, by simp at hf; omega⟩
    simp [chain, hn]
  | step id j l e hn _ ih =>
    intro fuel hf
    obtain ⟨f, rfl⟩ : ∃ f, fuel = f + 1 := ⟨fuel - 1, by simp at hf; omega⟩
    simp only [chain, hn]
    rw [ih f (by simp at hf; omega)]

/-- … and its end -/
theorem Chain.tailOf_eq {h : Heap} {id e : Nat} {l : List Nat} (c : Chain h id l e) :
    ∀ fuel, l.length ≤ fuel → tailOf h fuel id = e := by
  induction c with
  | last id hn =>
    intro fuel hf
    obtain ⟨f, rfl⟩ : ∃ f, fuel = f + 1 := ⟨fuel - 1, by simp at hf; omega⟩
    simp [tailOf, hn]
  | step id j l e hn _ ih =>
    intro fuel hf
    obtain ⟨f, rfl⟩ : ∃ f, fuel = f + 1 := ⟨fuel - 1, by simp at hf; omega⟩
    simp only [tailOf, hn]
    exact ih f (by simp at hf; omega)

theorem Chain.unique {h : Heap} {id e e' : Nat} {l l' : List Nat} (c : Chain h id l e) (c' : Chain h id l' e') :
    l = l' ∧ e = e' := by
  induction c generalizing l' e' with
  | last id hn =>
    cases c' with
    | last _ _ => exact ⟨rfl, rfl⟩
    | step _ j _ _ hn' _ => rw [hn] at hn'; cases hn'
  | step id j l e hn _ ih =>
    cases c' with
    | last _ hn' => rw [hn] at hn'; cases hn'
    | step _ j' l'' _ hn' c'' =>
      rw [hn] at hn'; cases hn'
      obtain ⟨h1, h2⟩ := ih c''
      exact ⟨by rw [h1], h2⟩

/-- frame: a heap that agrees on the visited cells has the same chain -/
theorem Chain.congr {h h' : Heap} {id e : Nat} {l : List Nat} (c : Chain h id l e)
    (hag : ∀ i ∈ l, h'[i]? = h[i]?) : Chain h' id l e := by
  induction c with
  | last id hn =>
    exact Chain.last id (by rw [nextOf_congr h h' id (hag id (by simp))]; exact hn)
  | step id j l e hn _ ih =>
    exact Chain.step id j l e (by rw [nextOf_congr h h' id (hag id (by simp))]; exact hn)
      (ih (fun i hi => hag i (by simp [hi])))

/-- **linking**: after the end `e` of a chain is pointed at the head `n` of a chain that does not contain `e`, the first
    chain is followed by the second -/
theorem Chain.link {h : Heap} {a e n e' : Nat} {la lb : List Nat} (ca : Chain h a la e) (cb : Chain h n lb e')
    (he : e < h.size) (hB : e ∉ lb) : Chain (setNext h e n) a (la ++ lb) e' := by
  have cb' : Chain (setNext h e n) n lb e' :=
    cb.congr (fun i hi => setNext_other h e n i (fun x => hB (x ▸ hi)))
  have hnone := ca.tail_next
  induction ca with
  | last id _ =>
    exact Chain.step id n lb e' (nextOf_setNext_same h id n he) cb'
  | step id j l e hn c ih =>
    have hne : id ≠ e := by intro x; rw [x, c.tail_next] at hn; cases hn
    exact Chain.step id j (l ++ lb) e' (by rw [nextOf_setNext_other h e n id hne]; exact hn) (ih he hB cb' hnone)

/-! ### the heap invariant: links point forward, stay inside the heap and never reach an empty node
    (true of every heap the exported API can build: `Append` links only fresh, non-empty cells) -/

def WF (h : Heap) : Prop := ∀ i j, nextOf h i = some j → i < j ∧ j < h.size ∧ isEmpty h j = false

theorem nextOf_lt_size {h : Heap} {i j : Nat} (hn : nextOf h i = some j) : i < h.size := by
  unfold nextOf at hn
  cases hi : h[i]? with
  | none => rw [hi] at hn; cases hn
  | some n => exact (Array.getElem?_eq_some_iff.mp hi).1

/-- in a well-formed heap every cell starts a chain; it is ascending, inside the heap and short enough for `fuelOf` -/
theorem WF.exists_chain {h : Heap} (hwf : WF h) : ∀ (k id : Nat), h.size - id ≤ k → id < h.size →
    ∃ l e, Chain h id l e ∧ l.length ≤ h.size - id ∧ (∀ i ∈ l, id ≤ i ∧ i < h.size) := by
  intro k
  induction k with
  | zero => intro id hk hid; omega
  | succ k ih =>
    intro id hk hid
    cases hn : nextOf h id with
    | none => exact ⟨[id], id, Chain.last id hn, by simp; omega, by simp; omega⟩
    | some j =>
      obtain ⟨h1, h2, _⟩ := hwf id j hn
      obtain ⟨l, e, c, hl, hm⟩ := ih j (by omega) h2
      refine ⟨id :: l, e, Chain.step id j l e hn c, by simp; omega, ?_⟩
      intro i hi
      simp at hi
      rcases hi with rfl | hi
      · omega
      · have := hm i hi; omega

/-- the executable walk with the model's fuel is the chain -/
theorem WF.chain_spec {h : Heap} (hwf : WF h) {id : Nat} (hid : id < h.size) :
    Chain h id (chain h (fuelOf h) id) (tailOf h (fuelOf h) id) ∧ (∀ i ∈ chain h (fuelOf h) id, id ≤ i ∧ i < h.size) := by
  obtain ⟨l, e, c, hl, hm⟩ := hwf.exists_chain (h.size - id) id (Nat.le_refl _) hid
  have hf : l.length ≤ fuelOf h := by unfold fuelOf; omega
  rw [c.chain_eq _ hf, c.tailOf_eq _ hf]
  exact ⟨c, hm⟩

theorem Chain.bounds {h : Heap} (hwf : WF h) {id e : Nat} {l : List Nat} (c : Chain h id l e) (hid : id < h.size) :
    l.length ≤ h.size ∧ (∀ i ∈ l, id ≤ i ∧ i < h.size) ∧ l = chain h (fuelOf h) id ∧ e = tailOf h (fuelOf h) id := by
  obtain ⟨l', e', c', hl, hm⟩ := hwf.exists_chain (h.size - id) id (Nat.le_refl _) hid
  obtain ⟨rfl, rfl⟩ := c.unique c'
  have hf : l.length ≤ fuelOf h := by unfold fuelOf; omega
  exact ⟨by omega, hm, (c.chain_eq _ hf).symm, (c.tailOf_eq _ hf).symm⟩

/-- the end of a chain with a non-empty head is non-empty -/
theorem Chain.tail_nonempty {h : Heap} (hwf : WF h) {id e : Nat} {l : List Nat} (c : Chain h id l e)
    (hne : isEmpty h id = false) : isEmpty h e = false := by
  induction c with
  | last id _ => exact hne
  | step id j l e hn _ ih => exact ih (hwf id j hn).2.2

end Errs
