import Model.EvenOdd
import Lemmas.EvenOdd
import Lemmas.EvenOddPerm
import Lemmas.EvenOddEmit

/-! C05: the local minima table.  If the edges of all bounds are the non-horizontal edges of the polygon, lower end first
    (as a multiset), then counting crossings over them is the even-odd test of the polygon: horizontal edges are never
    crossed and the direction of an edge does not matter. -/

namespace EOQ

theorem crosses_horiz_int (e : EO.Pt × EO.Pt) (p : EO.Pt) (h : EO.nonHoriz e = false) :
    EO.crosses e.1 e.2 p = false := by
  unfold EO.nonHoriz at h
  simp only [bne_eq_false_iff_eq] at h
  unfold EO.crosses
  simp [h]

theorem crosses_upEdge (e : EO.Pt × EO.Pt) (p : EO.Pt) :
    EO.crosses (EO.upEdge e).1 (EO.upEdge e).2 p = EO.crosses e.1 e.2 p := by
  unfold EO.upEdge
  split
  · rfl
  · exact (crosses_symm_int e.1 e.2 p).symm

/-- **soundness of the check of the local minima table** -/
theorem lmtOK_sound (P : EO.Polygon) (E : List (EO.Pt × EO.Pt)) (h : EO.lmtOK P E = true) (p : EO.Pt) :
    EO.insideE E p = EO.inside P p := by
  unfold EO.lmtOK at h
  rw [Bool.and_eq_true] at h
  have hperm := List.isPerm_iff.mp h.2
  unfold EO.insideE EO.crossCountE EO.inside EO.crossCount
  rw [hperm.countP_eq, List.countP_map, List.countP_filter]
  have : (EO.allEdges P).countP (fun e => ((fun e => EO.crosses e.1 e.2 p) ∘ EO.upEdge) e && EO.nonHoriz e) =
      (EO.allEdges P).countP (fun e => EO.crosses e.1 e.2 p) := by
    apply List.countP_congr
    intro e _
    simp only [Function.comp, crosses_upEdge]
    cases hn : EO.nonHoriz e
    · simp [crosses_horiz_int e p hn]
    · simp
  rw [this]

theorem crossAt_upEdge (p : QPt) (e : EO.Pt × EO.Pt) : crossAt p (EO.upEdge e) = crossAt p e := by
  unfold EO.upEdge
  split
  · rfl
  · exact crossAt_symm p e.2 e.1

theorem crossAt_horiz (p : QPt) (e : EO.Pt × EO.Pt) (h : EO.nonHoriz e = false) : crossAt p e = false := by
  unfold EO.nonHoriz at h
  simp only [bne_eq_false_iff_eq] at h
  unfold crossAt crosses toQ
  simp [h]

/-- the same at every RATIONAL point -/
theorem lmtOK_sound_rat (P : EO.Polygon) (E : List (EO.Pt × EO.Pt)) (h : EO.lmtOK P E = true) (p : QPt) :
    (E.countP (crossAt p)) % 2 = 1 ↔ inside (polyQ P) p := by
  unfold EO.lmtOK at h
  rw [Bool.and_eq_true] at h
  have hperm := List.isPerm_iff.mp h.2
  unfold inside
  rw [crossCount_polyQ, hperm.countP_eq, List.countP_map, List.countP_filter]
  have : (EO.allEdges P).countP (fun e => (crossAt p ∘ EO.upEdge) e && EO.nonHoriz e) =
      (EO.allEdges P).countP (crossAt p) := by
    apply List.countP_congr
    intro e _
    simp only [Function.comp, crossAt_upEdge]
    cases hn : EO.nonHoriz e
    · simp [crossAt_horiz p e hn]
    · simp
  rw [this]

end EOQ
