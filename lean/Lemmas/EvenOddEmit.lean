import Model.EvenOdd
import Lemmas.EvenOddPrune
import Lemmas.EvenOddPerm

/-! C05: two more stages of the clipper.  `EO.generate` (contour emission, `polygonNode.generate`): dropping repeated
    vertices, dropping chains with at most two vertices and writing a chain back to front do not change the even-odd
    region (`generate_region`).  `EO.scanBeamTable` (`scanBeamTree.add` + `buildScanBeamTable`): the table is strictly
    ascending and holds exactly the ordinates added (`scanBeamTable_spec`). -/

namespace EOQ

/-! ### emission -/

section generic
variable {α : Type} [DecidableEq α] (X : α × α → Bool)

theorem countP_pairs_dedup (hX : ∀ a, X (a, a) = false) (dd : α → List α → List α)
    (hdd : ∀ prev v t, dd prev (v :: t) = if prev = v then dd prev t else v :: dd v t) (hnil : ∀ prev, dd prev [] = [])
    (a : α) (t : List α) (f : α) :
    (EO.pairs (a :: dd a t) f).countP X = (EO.pairs (a :: t) f).countP X := by
  induction t generalizing a with
  | nil => rw [hnil]
  | cons v t ih =>
    rw [hdd]
    by_cases h : a = v
    · subst h
      simp only [if_true, EO.pairs, List.countP_cons, hX]
      rw [ih a]; simp
    · simp only [h, if_false, EO.pairs, List.countP_cons]
      rw [ih v]

end generic

/-- the crossing predicate at a rational point, on integer vertices -/
def crossAt (p : QPt) (e : EO.Pt × EO.Pt) : Bool := decide (crosses (toQ e.1) (toQ e.2) p)

theorem crossAt_self (p : QPt) (a : EO.Pt) : crossAt p (a, a) = false := by
  unfold crossAt crosses; simp

theorem crossAt_symm (p : QPt) (a b : EO.Pt) : crossAt p (a, b) = crossAt p (b, a) := by
  unfold crossAt
  simp only [decide_eq_decide]
  exact crosses_symm _ _ _

theorem crossCount_polyQ (P : EO.Polygon) (p : QPt) :
    crossCount (polyQ P) p = (EO.allEdges P).countP (crossAt p) := by
  unfold crossCount polyQ
  rw [allEdges_map, List.countP_map]
  rfl

/-- the parity a single contour contributes -/
def oddC (p : QPt) (c : EO.Contour) : Prop := ((EO.edgesOf c).countP (crossAt p)) % 2 = 1

theorem inside_polyQ_cons (c : EO.Contour) (P : EO.Polygon) (p : QPt) :
    inside (polyQ (c :: P)) p ↔ ¬ (oddC p c ↔ inside (polyQ P) p) := by
  unfold inside oddC
  rw [crossCount_polyQ, crossCount_polyQ, allEdges_cons, List.countP_append]
  omega

theorem oddC_dedup (p : QPt) (c : EO.Contour) : oddC p (EO.dedup c) ↔ oddC p c := by
  unfold oddC
  cases c with
  | nil => rfl
  | cons a t =>
    simp only [EO.dedup, EO.edgesOf]
    rw [countP_pairs_dedup (crossAt p) (crossAt_self p) EO.dedupFrom (fun prev v t => rfl) (fun prev => rfl)]

theorem oddC_reverse (p : QPt) (c : EO.Contour) : oddC p c.reverse ↔ oddC p c := by
  unfold oddC
  rw [(edgesOf_reverse c).countP_eq (crossAt p), List.countP_map]
  have : (EO.edgesOf c).countP (crossAt p ∘ Prod.swap) = (EO.edgesOf c).countP (crossAt p) := by
    apply List.countP_congr
    intro e _
    simp only [Function.comp, Prod.swap]
    rw [crossAt_symm]
  rw [this]

/-- a chain with at most two vertices contributes nothing -/
theorem oddC_short (p : QPt) (c : EO.Contour) (h : c.length ≤ 2) : ¬ oddC p c := by
  unfold oddC
  match c, h with
  | [], _ => simp [EO.edgesOf]
  | [a], _ => simp [EO.edgesOf, EO.pairs, crossAt_self]
  | [a, b], _ =>
    simp only [EO.edgesOf, EO.pairs, List.countP_cons, List.countP_nil, crossAt_symm p b a]
    split <;> omega


theorem generate_cons (act : Bool) (c : EO.Contour) (rest : List (Bool × List EO.Pt)) :
    EO.generate ((act, c) :: rest) =
      if act && decide (2 < (EO.dedup c).length) then (EO.dedup c).reverse :: EO.generate rest else EO.generate rest := by
  unfold EO.generate
  rw [List.filterMap_cons]
  split <;> simp_all

theorem activeChains_cons (act : Bool) (c : EO.Contour) (rest : List (Bool × List EO.Pt)) :
    EO.activeChains ((act, c) :: rest) = if act then c :: EO.activeChains rest else EO.activeChains rest := by
  unfold EO.activeChains
  cases act <;> simp

/-- **the emission step preserves the region**: the polygon `generate` returns contains exactly the points the active
    output chains contain under the even-odd rule (dropping repeated vertices, dropping chains with at most two
    vertices and writing a chain back to front change nothing) -/
theorem generate_region (chains : List (Bool × List EO.Pt)) (p : QPt) :
    inside (polyQ (EO.generate chains)) p ↔ inside (polyQ (EO.activeChains chains)) p := by
  induction chains with
  | nil => rfl
  | cons ch rest ih =>
    obtain ⟨act, c⟩ := ch
    rw [generate_cons, activeChains_cons]
    cases act with
    | false => simpa using ih
    | true =>
      simp only [Bool.true_and, if_true]
      by_cases hl : 2 < (EO.dedup c).length
      · simp only [hl, decide_true, if_true]
        rw [inside_polyQ_cons, inside_polyQ_cons, oddC_reverse, oddC_dedup, ih]
      · simp only [hl, decide_false, Bool.false_eq_true, if_false]
        rw [inside_polyQ_cons, ih]
        have hs : ¬ oddC p c := by
          rw [← oddC_dedup]; exact oddC_short p _ (by omega)
        constructor
        · intro h hiff; exact hs (hiff.mpr h)
        · intro h; by_contra hn; exact h ⟨fun a => absurd a hs, fun a => absurd a hn⟩

/-! ### scan-beam table -/

theorem mem_add (t : EO.SBT) (y z : Int) : z ∈ (t.add y).table ↔ z ∈ t.table ∨ z = y := by
  induction t with
  | nil => simp [EO.SBT.add, EO.SBT.table]
  | node l v r ihl ihr =>
    unfold EO.SBT.add
    split
    · simp only [EO.SBT.table, List.mem_append, List.mem_cons, ihl]; tauto
    · split
      · simp only [EO.SBT.table, List.mem_append, List.mem_cons, ihr]; tauto
      · have : v = y := by omega
        simp only [EO.SBT.table, List.mem_append, List.mem_cons]
        constructor
        · intro h; exact Or.inl h
        · rintro (h | h)
          · exact h
          · right; left; omega

theorem sorted_add (t : EO.SBT) (y : Int) (h : t.table.Pairwise (· < ·)) : (t.add y).table.Pairwise (· < ·) := by
  induction t with
  | nil => simp [EO.SBT.add, EO.SBT.table]
  | node l v r ihl ihr =>
    simp only [EO.SBT.table, List.pairwise_append, List.pairwise_cons, List.mem_cons] at h
    obtain ⟨hl, ⟨hvr, hr⟩, hlr⟩ := h
    unfold EO.SBT.add
    split
    · rename_i hgt
      simp only [EO.SBT.table, List.pairwise_append, List.pairwise_cons, List.mem_cons]
      refine ⟨ihl hl, ⟨hvr, hr⟩, ?_⟩
      intro a ha b hb
      rw [mem_add] at ha
      rcases ha with ha | ha
      · exact hlr a ha b hb
      · subst ha
        rcases hb with hb | hb
        · omega
        · have := hvr b hb; omega
    · split
      · rename_i hlt
        simp only [EO.SBT.table, List.pairwise_append, List.pairwise_cons, List.mem_cons]
        refine ⟨hl, ⟨?_, ihr hr⟩, ?_⟩
        · intro b hb
          rw [mem_add] at hb
          rcases hb with hb | hb
          · exact hvr b hb
          · omega
        · intro a ha b hb
          rcases hb with hb | hb
          · exact hlr a ha b (Or.inl hb)
          · rw [mem_add] at hb
            rcases hb with hb | hb
            · exact hlr a ha b (Or.inr hb)
            · have := hlr a ha v (Or.inl rfl); omega
      · simp only [EO.SBT.table, List.pairwise_append, List.pairwise_cons, List.mem_cons]
        exact ⟨hl, ⟨hvr, hr⟩, hlr⟩

theorem foldl_add_spec (ys : List Int) (t : EO.SBT) (h : t.table.Pairwise (· < ·)) :
    (ys.foldl EO.SBT.add t).table.Pairwise (· < ·) ∧
    ∀ z, z ∈ (ys.foldl EO.SBT.add t).table ↔ z ∈ t.table ∨ z ∈ ys := by
  induction ys generalizing t with
  | nil => simp [h]
  | cons y ys ih =>
    simp only [List.foldl_cons]
    obtain ⟨h1, h2⟩ := ih (t.add y) (sorted_add t y h)
    refine ⟨h1, fun z => ?_⟩
    rw [h2, mem_add, List.mem_cons]; tauto

/-- **the scan-beam table**: strictly ascending, and it holds exactly the ordinates that were added -/
theorem scanBeamTable_spec (ys : List Int) :
    (EO.scanBeamTable ys).Pairwise (· < ·) ∧ ∀ z, z ∈ EO.scanBeamTable ys ↔ z ∈ ys := by
  unfold EO.scanBeamTable
  obtain ⟨h1, h2⟩ := foldl_add_spec ys .nil (by simp [EO.SBT.table])
  refine ⟨h1, fun z => ?_⟩
  rw [h2]; simp [EO.SBT.table]

end EOQ
