import Lemmas.ExtractFails
import Model.ExtractR
/-! C19: the resolving extractors coincide with the lexical ones when the guard is called.  Path resolution (`walk`)
    on a path none of whose components is a symbolic link is a plain look-up (`walk_lex`, `walk_enoent`, `walk_enotdir`,
    `walk_found_inv`); hence each resolving primitive is its lexical counterpart at the call sites of the loop bodies
    (after `EnsureNoSymlinks` succeeded), `ensureNoSymlinksR = ensureNoSymlinks`, `tarOneR = tarOne`, `zipOneR = zipOne`
    and `tarExtractR = tarExtract`, `zipExtractR = zipExtract` on every well-formed tree whose destination is not below
    (or itself) a symbolic link (`RInv`, preserved by every iteration). -/
namespace Ex

/-- every proper prefix of `p` (the file-system root `/` included) is a directory -/
def AllDirs (fs : FS) (p : P) : Prop := ∀ j, j < p.length → ∃ m, fs.get (p.take j) = some (.dir m)

/-- a plain look-up -/
def lexRes (fs : FS) (p : P) : Res :=
  match fs.get p with
  | none => .missing p
  | some n => .found p n

theorem nodots_step (p : P) (hd : NoDots p) (i : Nat) (hlt : i < p.length) :
    ¬ (p[i] = [] ∨ p[i] = [46]) ∧ p[i] ≠ [46, 46] ∧ p.take i ++ [p[i]] = p.take (i + 1) := by
  have hc := hd p[i] (List.getElem_mem hlt)
  exact ⟨hc.1, hc.2, (List.take_succ_eq_append_getElem hlt).symm⟩

/-- resolution of a path all of whose proper prefixes are directories: a look-up of the path itself -/
theorem walk_lex_aux (fs : FS) (fl : Bool) (lk : Nat) (p : P) (hd : NoDots p) (hall : AllDirs fs p)
    (hlast : fl = true → ∀ t, fs.get p ≠ some (.symlink t)) :
    ∀ (fuel i : Nat), i < p.length → p.length - i + 1 ≤ fuel →
      walk fs fl lk fuel (p.take i) (p.drop i) = lexRes fs p := by
  intro fuel
  induction fuel with
  | zero => intro i _ h; omega
  | succ f ih =>
    intro i hlt hf
    obtain ⟨m, hm⟩ := hall i hlt
    obtain ⟨h1, h2, h3⟩ := nodots_step p hd i hlt
    rw [List.drop_eq_getElem_cons hlt]
    simp only [walk, hm]
    rw [if_neg h1, if_neg h2, h3]
    by_cases hl : i + 1 = p.length
    · have hp : p.take (i + 1) = p := by rw [hl]; exact List.take_length
      have hr : p.drop (i + 1) = [] := by rw [hl]; exact List.drop_length
      rw [hp, hr]
      unfold lexRes
      cases hg : fs.get p with
      | none => simp
      | some n =>
        cases n with
        | symlink t =>
          have hfl : fl = false := by
            cases fl with
            | false => rfl
            | true => exact absurd hg (hlast rfl t)
          simp [hfl]
        | file k => simp
        | dir m' =>
          simp only
          cases f with
          | zero => omega
          | succ g => simp [walk, hg]
    · have hlt' : i + 1 < p.length := by omega
      obtain ⟨m', hm'⟩ := hall (i + 1) hlt'
      rw [hm']
      simp only
      exact ih (i + 1) hlt' (by omega)

theorem walk_lex (fs : FS) (fl : Bool) (lk : Nat) (p : P) (hne : p ≠ []) (hd : NoDots p) (hall : AllDirs fs p)
    (hlast : fl = true → ∀ t, fs.get p ≠ some (.symlink t)) (fuel : Nat) (hf : p.length + 1 ≤ fuel) :
    walk fs fl lk fuel [] p = lexRes fs p := by
  have := walk_lex_aux fs fl lk p hd hall hlast fuel 0 (List.length_pos_iff.mpr hne) (by omega)
  simpa using this

theorem lstatR_lex (fs : FS) (p : P) (hne : p ≠ []) (hd : NoDots p) (hall : AllDirs fs p) :
    lstatR fs p = lexRes fs p :=
  walk_lex fs false maxLinks p hne hd hall (fun h => by cases h) _ (by unfold walkFuel; omega)

theorem statR_lex (fs : FS) (p : P) (hne : p ≠ []) (hd : NoDots p) (hall : AllDirs fs p)
    (hlast : ∀ t, fs.get p ≠ some (.symlink t)) : statR fs p = lexRes fs p :=
  walk_lex fs true maxLinks p hne hd hall (fun _ => hlast) _ (by unfold walkFuel; omega)

/-- a missing component in the middle: `ENOENT` -/
theorem walk_enoent_aux (fs : FS) (fl : Bool) (lk : Nat) (p : P) (hd : NoDots p) (j0 : Nat) (h0 : j0 < p.length)
    (hnone : fs.get (p.take j0) = none) (hdirs : ∀ j, j < j0 → ∃ m, fs.get (p.take j) = some (.dir m)) :
    ∀ (fuel i : Nat), i ≤ j0 → j0 - i + 1 ≤ fuel → walk fs fl lk fuel (p.take i) (p.drop i) = .err .enoent := by
  intro fuel
  induction fuel with
  | zero => intro i _ h; omega
  | succ f ih =>
    intro i hi hf
    by_cases hij : i = j0
    · subst hij
      simp only [walk, hnone]
    · have hlt : i < j0 := by omega
      have hltp : i < p.length := by omega
      obtain ⟨m, hm⟩ := hdirs i hlt
      obtain ⟨h1, h2, h3⟩ := nodots_step p hd i hltp
      rw [List.drop_eq_getElem_cons hltp]
      simp only [walk, hm]
      rw [if_neg h1, if_neg h2, h3]
      by_cases hl : i + 1 = j0
      · rw [hl, hnone]
        simp only
        have : p.drop j0 ≠ [] := by
          intro e; have := congrArg List.length e; simp at this; omega
        rw [if_neg this]
      · obtain ⟨m', hm'⟩ := hdirs (i + 1) (by omega)
        rw [hm']
        simp only
        exact ih (i + 1) (by omega) (by omega)

/-- a regular file in the middle: `ENOTDIR` -/
theorem walk_enotdir_aux (fs : FS) (fl : Bool) (lk : Nat) (p : P) (hd : NoDots p) (j0 : Nat) (h0 : j0 < p.length) (k : Nat)
    (hfile : fs.get (p.take j0) = some (.file k)) (hdirs : ∀ j, j < j0 → ∃ m, fs.get (p.take j) = some (.dir m)) :
    ∀ (fuel i : Nat), i ≤ j0 → j0 - i + 1 ≤ fuel → walk fs fl lk fuel (p.take i) (p.drop i) = .err .enotdir := by
  intro fuel
  induction fuel with
  | zero => intro i _ h; omega
  | succ f ih =>
    intro i hi hf
    by_cases hij : i = j0
    · subst hij
      simp only [walk, hfile]
    · have hlt : i < j0 := by omega
      have hltp : i < p.length := by omega
      obtain ⟨m, hm⟩ := hdirs i hlt
      obtain ⟨h1, h2, h3⟩ := nodots_step p hd i hltp
      rw [List.drop_eq_getElem_cons hltp]
      simp only [walk, hm]
      rw [if_neg h1, if_neg h2, h3]
      by_cases hl : i + 1 = j0
      · rw [hl, hfile]
        simp only
        have : p.drop j0 ≠ [] := by
          intro e; have := congrArg List.length e; simp at this; omega
        rw [if_neg this]
      · obtain ⟨m', hm'⟩ := hdirs (i + 1) (by omega)
        rw [hm']
        simp only
        exact ih (i + 1) (by omega) (by omega)

theorem lstatR_enoent (fs : FS) (p : P) (hd : NoDots p) (j0 : Nat) (h0 : j0 < p.length)
    (hnone : fs.get (p.take j0) = none) (hdirs : ∀ j, j < j0 → ∃ m, fs.get (p.take j) = some (.dir m)) :
    lstatR fs p = .err .enoent := by
  have := walk_enoent_aux fs false maxLinks p hd j0 h0 hnone hdirs (walkFuel p) 0 (by omega) (by unfold walkFuel; omega)
  simpa [lstatR] using this

theorem lstatR_enotdir (fs : FS) (p : P) (hd : NoDots p) (j0 : Nat) (h0 : j0 < p.length) (k : Nat)
    (hfile : fs.get (p.take j0) = some (.file k)) (hdirs : ∀ j, j < j0 → ∃ m, fs.get (p.take j) = some (.dir m)) :
    lstatR fs p = .err .enotdir := by
  have := walk_enotdir_aux fs false maxLinks p hd j0 h0 k hfile hdirs (walkFuel p) 0 (by omega) (by unfold walkFuel; omega)
  simpa [lstatR] using this

/-- if no component of `p` is a symbolic link, resolution can only find `p` itself -/
theorem walk_found_inv_aux (fs : FS) (fl : Bool) (lk : Nat) (p : P) (hd : NoDots p)
    (hns : ∀ j, 1 ≤ j → j ≤ p.length → ∀ t, fs.get (p.take j) ≠ some (.symlink t)) :
    ∀ (fuel i : Nat) (q : P) (n : Nd), i ≤ p.length → walk fs fl lk fuel (p.take i) (p.drop i) = .found q n →
      q = p ∧ fs.get p = some n := by
  intro fuel
  induction fuel with
  | zero => intro i q n _ h; simp [walk] at h
  | succ f ih =>
    intro i q n hi h
    simp only [walk] at h
    cases hg : fs.get (p.take i) with
    | none => rw [hg] at h; simp at h
    | some nd =>
      cases nd with
      | file k => rw [hg] at h; simp at h
      | symlink t => rw [hg] at h; simp at h
      | dir m =>
        rw [hg] at h
        simp only at h
        by_cases hil : i = p.length
        · subst hil
          rw [List.drop_length] at h
          simp only [Res.found.injEq] at h
          rw [List.take_length] at h hg
          exact ⟨h.1.symm, by rw [hg, h.2]⟩
        · have hlt : i < p.length := by omega
          obtain ⟨h1, h2, h3⟩ := nodots_step p hd i hlt
          rw [List.drop_eq_getElem_cons hlt] at h
          simp only at h
          rw [if_neg h1, if_neg h2, h3] at h
          cases hg' : fs.get (p.take (i + 1)) with
          | none => rw [hg'] at h; simp only at h; split at h <;> cases h
          | some nd' =>
            cases nd' with
            | symlink t => exact absurd hg' (hns (i + 1) (by omega) (by omega) t)
            | file k =>
              rw [hg'] at h; simp only at h
              split at h
              · rename_i hr
                simp only [Res.found.injEq] at h
                have hl : i + 1 = p.length := by
                  have := congrArg List.length hr; simp at this; omega
                have hp : p.take (i + 1) = p := by rw [hl]; exact List.take_length
                rw [hp] at h hg'
                exact ⟨h.1.symm, by rw [hg', h.2]⟩
              · cases h
            | dir m' =>
              rw [hg'] at h; simp only at h
              exact ih (i + 1) q n (by omega) h

theorem walk_found_inv (fs : FS) (fl : Bool) (lk : Nat) (p : P) (hd : NoDots p)
    (hns : ∀ j, 1 ≤ j → j ≤ p.length → ∀ t, fs.get (p.take j) ≠ some (.symlink t)) (fuel : Nat) (q : P) (n : Nd)
    (h : walk fs fl lk fuel [] p = .found q n) : q = p ∧ fs.get p = some n := by
  have := walk_found_inv_aux fs fl lk p hd hns fuel 0 q n (by omega) (by simpa using h)
  exact this

/-! ### the primitives at a path without links are the lexical ones -/

theorem allDirs_parentIsDir (fs : FS) (p : P) (hall : AllDirs fs p) : parentIsDir fs p = true := by
  unfold parentIsDir
  split
  · rfl
  · rename_i hl
    obtain ⟨m, hm⟩ := hall (p.length - 1) (by omega)
    rw [List.dropLast_eq_take, hm]

theorem openWriteR_eq (fs : FS) (p : P) (mode : Nat) (data : List Nat) (hne : p ≠ []) (hd : NoDots p)
    (hall : AllDirs fs p) (hlast : ∀ t, fs.get p ≠ some (.symlink t)) :
    openWriteR fs p mode data = writeFile fs p mode data := by
  unfold openWriteR writeFile
  rw [statR_lex fs p hne hd hall hlast]
  unfold lexRes
  cases hg : fs.get p with
  | none => simp [allDirs_parentIsDir fs p hall]
  | some n =>
    cases n with
    | dir m => simp
    | file k => simp
    | symlink t => exact absurd hg (hlast t)

theorem symlinkR_eq (fs : FS) (t : List Nat) (p : P) (hne : p ≠ []) (hd : NoDots p) (hall : AllDirs fs p) :
    symlinkR fs t p = symlinkAt fs t p := by
  unfold symlinkR symlinkAt
  rw [lstatR_lex fs p hne hd hall]
  unfold lexRes
  by_cases ht : t = []
  · simp [ht]
  · cases hg : fs.get p with
    | none => simp [ht, allDirs_parentIsDir fs p hall]
    | some n => simp [ht]

theorem wf_allDirs (fs : FS) (hw : WF fs) (hs : ∃ m, fs.get [] = some (.dir m)) (p : P) (n : Nd)
    (hp : fs.get p = some n) : AllDirs fs p := by
  intro j hj
  by_cases h0 : j = 0
  · subst h0; simpa using hs
  · exact wf_prefix_dir fs hw p n hp j (by omega) hj

theorem linkR_eq (fs : FS) (hw : WF fs) (hs : ∃ m, fs.get [] = some (.dir m)) (tgt p : P) (hne : p ≠ [])
    (hd : NoDots p) (hall : AllDirs fs p) (htne : tgt ≠ []) (htd : NoDots tgt)
    (hns : ∀ j, 1 ≤ j → j ≤ tgt.length → ∀ t, fs.get (tgt.take j) ≠ some (.symlink t)) :
    linkR fs tgt p = linkAt fs tgt p := by
  unfold linkR linkAt
  have hp := lstatR_lex fs p hne hd hall
  cases hg : fs.get tgt with
  | some n =>
    have hta := wf_allDirs fs hw hs tgt n hg
    have ht : lstatR fs tgt = .found tgt n := by rw [lstatR_lex fs tgt htne htd hta]; unfold lexRes; rw [hg]
    rw [ht]
    cases n with
    | file k =>
      simp only
      rw [hp]; unfold lexRes
      cases hq : fs.get p with
      | none => simp [allDirs_parentIsDir fs p hall]
      | some n' => simp
    | dir m => simp
    | symlink t =>
      have := hns tgt.length (List.length_pos_iff.mpr htne) (Nat.le_refl _) t
      rw [List.take_length] at this
      exact absurd hg this
  | none =>
    simp only
    cases ht : lstatR fs tgt with
    | found q n =>
      have := walk_found_inv fs false _ tgt htd hns _ q n ht
      rw [hg] at this; cases this.2
    | missing q => rfl
    | err e => rfl

/-! ### `os.MkdirAll` -/

/-- the last step of the lexical `MkdirAll` -/
def lastStep (p : P) (mode : Nat) (fs1 : FS) : Option FS :=
  match fs1.get p with
  | none => some (fs1.put p (.dir mode))
  | some (.dir _) => some fs1
  | some _ => none

theorem dropLast_take (p : P) (i : Nat) (hi : i ≤ p.length - 1) : p.dropLast.take i = p.take i := by
  rw [List.dropLast_eq_take, List.take_take, Nat.min_eq_left hi]

theorem mkdirFrom_snoc (p : P) (hne : p ≠ []) (mode : Nat) :
    ∀ (fuel i : Nat) (fs : FS), 1 ≤ i → i ≤ p.length → p.length ≤ fuel + i →
      mkdirFrom p mode (fuel + 1) i fs = (mkdirFrom p.dropLast mode fuel i fs).bind (lastStep p mode) := by
  have hlen : 0 < p.length := List.length_pos_iff.mpr hne
  intro fuel
  induction fuel with
  | zero =>
    intro i fs h1 h2 h3
    have hi : i = p.length := by omega
    subst hi
    simp only [mkdirFrom, Option.bind]
    rw [if_neg (by omega), List.take_length]
    unfold lastStep
    cases fs.get p with
    | none => simp [mkdirFrom]
    | some n => cases n <;> simp [mkdirFrom]
  | succ f ih =>
    intro i fs h1 h2 h3
    by_cases hi : i = p.length
    · subst hi
      have hd : mkdirFrom p.dropLast mode (f + 1) p.length fs = some fs := by
        simp only [mkdirFrom]
        rw [if_pos (by simp; omega)]
      rw [hd]
      simp only [Option.bind]
      rw [mkdirFrom]
      rw [if_neg (by omega), List.take_length]
      unfold lastStep
      have hdone : ∀ x : FS, mkdirFrom p mode (f + 1) (p.length + 1) x = some x := by
        intro x; simp only [mkdirFrom]; rw [if_pos (by omega)]
      cases fs.get p with
      | none => simp [hdone]
      | some n => cases n <;> simp [hdone]
    · have hlt : i < p.length := by omega
      rw [mkdirFrom]
      rw [if_neg (by omega)]
      conv => rhs; rw [mkdirFrom]
      rw [if_neg (by simp; omega), dropLast_take p i (by omega)]
      cases hg : fs.get (p.take i) with
      | none => simp only; exact ih (i + 1) _ (by omega) (by omega) (by omega)
      | some n =>
        cases n with
        | dir m => simp only; exact ih (i + 1) _ (by omega) (by omega) (by omega)
        | file k => simp
        | symlink t => simp

theorem mkdirAll_snoc (fs : FS) (p : P) (hne : p ≠ []) (mode : Nat) :
    mkdirAll fs p mode = (mkdirAll fs p.dropLast mode).bind (lastStep p mode) := by
  have hlen : 0 < p.length := List.length_pos_iff.mpr hne
  unfold mkdirAll
  have := mkdirFrom_snoc p hne mode p.length 1 fs (by omega) (by omega) (by omega)
  rw [this]
  congr 2
  simp only [List.length_dropLast]; omega

theorem nodots_dropLast (p : P) (hd : NoDots p) : NoDots p.dropLast := by
  intro c hc
  rw [List.dropLast_eq_take] at hc
  exact hd c (List.mem_of_mem_take hc)

/-- **Go's `os.MkdirAll` on the resolving file system is the lexical `MkdirAll`** on a path no component of which is
    a symbolic link (well-formed tree) -/
theorem mkdirAllR_eq (fs : FS) (hw : WF fs) (hs : ∃ m, fs.get [] = some (.dir m)) (mode : Nat) :
    ∀ (k : Nat) (p : P), p.length < k → NoDots p →
      (∀ j, 1 ≤ j → j ≤ p.length → ∀ t, fs.get (p.take j) ≠ some (.symlink t)) →
      mkdirAllR fs mode k p = mkdirAll fs p mode := by
  intro k
  induction k with
  | zero => intro p h; omega
  | succ k ih =>
    intro p hk hd hns
    by_cases hp0 : p = []
    · subst hp0
      obtain ⟨m, hm⟩ := hs
      have hst : statR fs [] = .found [] (.dir m) := by
        show walk fs true maxLinks (4095 + 1) [] [] = _
        simp only [walk, hm]
      simp only [mkdirAllR, hst]
      simp [mkdirAll, mkdirFrom]
    · have hlen : 0 < p.length := List.length_pos_iff.mpr hp0
      cases hg : fs.get p with
      | some n =>
        have hall := wf_allDirs fs hw hs p n hg
        have hlast : ∀ t, fs.get p ≠ some (.symlink t) := by
          intro t
          have := hns p.length hlen (Nat.le_refl _) t
          rwa [List.take_length] at this
        have hst : statR fs p = .found p n := by
          rw [statR_lex fs p hp0 hd hall hlast]; unfold lexRes; rw [hg]
        simp only [mkdirAllR, hst]
        cases n with
        | dir m => exact (mkdirAll_id fs hw p mode m hg).symm
        | file i =>
          symm
          rw [mkdirAll_none_iff]
          exact ⟨p.length, hlen, Nat.le_refl _, Or.inl ⟨i, by rw [List.take_length]; exact hg⟩⟩
        | symlink t => exact absurd hg (hlast t)
      | none =>
        have hnf : ∀ q n, statR fs p ≠ .found q n := by
          intro q n h
          have := walk_found_inv fs true _ p hd hns _ q n h
          rw [hg] at this; cases this.2
        have hbranch : mkdirAllR fs mode (k + 1) p =
            match mkdirAllR fs mode k p.dropLast with
            | none => none
            | some fs1 =>
              match mkdirR fs1 p mode with
              | some fs2 => some fs2
              | none =>
                match lstatR fs1 p with
                | .found _ (.dir _) => some fs1
                | _ => none := by
          simp only [mkdirAllR]
          cases hst : statR fs p with
          | found q n => exact absurd hst (hnf q n)
          | missing q => simp only [if_neg hp0]; rfl
          | err e => simp only [if_neg hp0]; rfl
        have hns' : ∀ j, 1 ≤ j → j ≤ p.dropLast.length → ∀ t, fs.get (p.dropLast.take j) ≠ some (.symlink t) := by
          intro j h1 h2 t
          have h2' : j ≤ p.length - 1 := by simpa using h2
          rw [dropLast_take p j h2']
          exact hns j h1 (by omega) t
        rw [hbranch, ih p.dropLast (by simp; omega) (nodots_dropLast p hd) hns', mkdirAll_snoc fs p hp0 mode]
        cases h1 : mkdirAll fs p.dropLast mode with
        | none => rfl
        | some fs1 =>
          simp only [Option.bind]
          have hself : fs1.get p = none := by rw [parent_self fs fs1 p hp0 mode h1]; exact hg
          have hall1 : AllDirs fs1 p := by
            intro j hj
            by_cases h0 : j = 0
            · subst h0
              obtain ⟨m, hm⟩ := hs
              exact ⟨m, by simpa using (mkdirAll_self_sys fs fs1 _ _ h1).1.mono [] _ hm⟩
            · obtain ⟨m, hm⟩ := (mkdirAll_self_sys fs fs1 _ mode h1).2 j (by omega) (by simp; omega)
              rw [dropLast_take p j (by omega)] at hm
              exact ⟨m, hm⟩
          have hl : lstatR fs1 p = .missing p := by
            rw [lstatR_lex fs1 p hp0 hd hall1]; unfold lexRes; rw [hself]
          simp only [mkdirR, hl, lastStep, hself]

theorem osMkdirAll_eq (fs : FS) (hw : WF fs) (hs : ∃ m, fs.get [] = some (.dir m)) (p : P) (mode : Nat) (hd : NoDots p)
    (hns : ∀ j, 1 ≤ j → j ≤ p.length → ∀ t, fs.get (p.take j) ≠ some (.symlink t)) :
    osMkdirAll fs p mode = mkdirAll fs p mode :=
  mkdirAllR_eq fs hw hs mode _ p (by omega) hd hns

/-! ### the guard -/

theorem nodots_take (p : P) (hd : NoDots p) (i : Nat) : NoDots (p.take i) :=
  fun c hc => hd c (List.mem_of_mem_take hc)

theorem cleanStep_take (p : P) (hd : NoDots p) (i : Nat) (hlt : i < p.length) :
    cleanStep (p.take i) p[i] = p.take (i + 1) := by
  obtain ⟨h1, h2, h3⟩ := nodots_step p hd i hlt
  unfold cleanStep
  rw [if_neg h1, if_neg h2, h3]

theorem take_take_le (p : P) (i j : Nat) (h : j ≤ i) : (p.take i).take j = p.take j := by
  rw [List.take_take, Nat.min_eq_left h]

/-- the walk of the guard meets a missing component: success -/
theorem guardLoop_none (fs : FS) (p : P) (hd : NoDots p) (i : Nat) (hlt : i < p.length) (j0 : Nat) (hj0 : j0 ≤ i)
    (hnone : fs.get (p.take j0) = none) (hdirs : ∀ j, j < j0 → ∃ m, fs.get (p.take j) = some (.dir m)) :
    guardLoopR fs (p.take i) (p.drop i) = true := by
  rw [List.drop_eq_getElem_cons hlt]
  simp only [guardLoopR, cleanStep_take p hd i hlt]
  have : lstatR fs (p.take (i + 1)) = .err .enoent := by
    apply lstatR_enoent fs _ (nodots_take p hd _) j0 (by rw [List.length_take]; omega)
    · rw [take_take_le p _ _ (by omega)]; exact hnone
    · intro j hj; rw [take_take_le p _ _ (by omega)]; exact hdirs j hj
  rw [this]

/-- … a regular file with components after it: failure (`ENOTDIR` is not `IsNotExist`) -/
theorem guardLoop_file (fs : FS) (p : P) (hd : NoDots p) (i : Nat) (hlt : i < p.length) (k : Nat)
    (hfile : fs.get (p.take i) = some (.file k)) (hdirs : ∀ j, j < i → ∃ m, fs.get (p.take j) = some (.dir m)) :
    guardLoopR fs (p.take i) (p.drop i) = false := by
  rw [List.drop_eq_getElem_cons hlt]
  simp only [guardLoopR, cleanStep_take p hd i hlt]
  have : lstatR fs (p.take (i + 1)) = .err .enotdir := by
    apply lstatR_enotdir fs _ (nodots_take p hd _) i (by rw [List.length_take]; omega) k
    · rw [take_take_le p _ _ (by omega)]; exact hfile
    · intro j hj; rw [take_take_le p _ _ (by omega)]; exact hdirs j hj
  rw [this]

theorem guardLoop_dirs (fs : FS) (p : P) (hd : NoDots p) :
    ∀ (fuel i : Nat), i ≤ p.length → p.length + 1 ≤ fuel + i →
      (∀ j, j ≤ i → ∃ m, fs.get (p.take j) = some (.dir m)) →
      guardLoopR fs (p.take i) (p.drop i) = noSymFrom fs p fuel (i + 1) := by
  intro fuel
  induction fuel with
  | zero => intro i h1 h2; omega
  | succ f ih =>
    intro i hi hf hdirs
    by_cases hil : i = p.length
    · subst hil
      rw [List.drop_length]
      simp only [guardLoopR, noSymFrom]
      rw [if_pos (by omega)]
    · have hlt : i < p.length := by omega
      rw [List.drop_eq_getElem_cons hlt]
      simp only [guardLoopR, cleanStep_take p hd i hlt, noSymFrom]
      rw [if_neg (by omega)]
      have hall : AllDirs fs (p.take (i + 1)) := by
        intro j hj
        have hj' : j ≤ i := by rw [List.length_take] at hj; omega
        rw [take_take_le p _ _ (by omega)]
        exact hdirs j hj'
      have hne : p.take (i + 1) ≠ [] := by
        intro e; have := congrArg List.length e; rw [List.length_take, List.length_nil] at this; omega
      rw [lstatR_lex fs _ hne (nodots_take p hd _) hall]
      unfold lexRes
      cases hg : fs.get (p.take (i + 1)) with
      | none => rfl
      | some n =>
        cases n with
        | symlink t => rfl
        | file k =>
          simp only
          by_cases hl : i + 1 = p.length
          · have : p.drop (i + 1) = [] := by rw [hl]; exact List.drop_length
            rw [this]; simp [guardLoopR, hl]
          · rw [guardLoop_file fs p hd (i + 1) (by omega) k hg (fun j hj => hdirs j (by omega))]
            simp [hl]
        | dir m =>
          simp only
          apply ih (i + 1) (by omega) (by omega)
          intro j hj
          by_cases hji : j = i + 1
          · rw [hji]; exact ⟨m, hg⟩
          · exact hdirs j (by omega)

/-- what the equivalence needs of the destination: the tree is well formed, `/` is a directory, no proper prefix of
    the root is a file or a symbolic link (each is a directory or does not exist yet — `MkdirAll` creates those), the
    root itself is not a symbolic link (it may be missing, a directory or a file) -/
structure RInv (fs : FS) (root : P) : Prop where
  wf : WF fs
  slashDir : ∃ m, fs.get [] = some (.dir m)
  anc : ∀ j, j < root.length → fs.get (root.take j) = none ∨ ∃ m, fs.get (root.take j) = some (.dir m)
  rootNoLink : ∀ t, fs.get root ≠ some (.symlink t)

theorem RInv.slash {fs : FS} {root : P} (h : RInv fs root) (_hroot : root ≠ []) : ∃ m, fs.get [] = some (.dir m) :=
  h.slashDir

/-- the first missing prefix -/
theorem first_none (fs : FS) (p : P) (n : Nat)
    (hnd : ∀ j, j < n → fs.get (p.take j) = none ∨ ∃ m, fs.get (p.take j) = some (.dir m))
    (hex : ∃ j, j < n ∧ fs.get (p.take j) = none) :
    ∃ j0, j0 < n ∧ fs.get (p.take j0) = none ∧ ∀ j, j < j0 → ∃ m, fs.get (p.take j) = some (.dir m) := by
  induction n with
  | zero => obtain ⟨j, h, _⟩ := hex; omega
  | succ k ih =>
    by_cases hex' : ∃ j, j < k ∧ fs.get (p.take j) = none
    · obtain ⟨j0, h1, h2, h3⟩ := ih (fun j hj => hnd j (by omega)) hex'
      exact ⟨j0, by omega, h2, h3⟩
    · obtain ⟨j, hj, hn⟩ := hex
      have hjk : j = k := by
        by_cases h : j = k
        · exact h
        · exact absurd ⟨j, by omega, hn⟩ hex'
      subst hjk
      refine ⟨j, by omega, hn, ?_⟩
      intro i hi
      rcases hnd i (by omega) with h | h
      · exact absurd ⟨i, hi, h⟩ hex'
      · exact h

theorem not_allDirs_first (fs : FS) (root : P)
    (hanc : ∀ j, j < root.length → fs.get (root.take j) = none ∨ ∃ m, fs.get (root.take j) = some (.dir m))
    (hna : ¬ AllDirs fs root) :
    ∃ j0, j0 < root.length ∧ fs.get (root.take j0) = none ∧ ∀ j, j < j0 → ∃ m, fs.get (root.take j) = some (.dir m) := by
  apply first_none fs root root.length hanc
  apply Classical.byContradiction
  intro hno
  apply hna
  intro j hj
  rcases hanc j hj with h | h
  · exact absurd ⟨j, hj, h⟩ hno
  · exact h

theorem prefix_take_eq {root p : P} (hp : root <+: p) : p.take root.length = root := by
  obtain ⟨t, rfl⟩ := hp; simp

theorem commonLen_append (r t : P) : commonLen r (r ++ t) = r.length := by
  induction r with
  | nil => cases t <;> simp [commonLen]
  | cons a s ih => simp [commonLen, ih]

/-- for a path at or below the root `filepath.Rel` is `.` or the components below the root -/
theorem relParts_of_prefix (root p : P) (hp : root <+: p) :
    relParts root p = if p = root then [[46]] else p.drop root.length := by
  obtain ⟨t, rfl⟩ := hp
  unfold relParts
  rw [commonLen_append]
  simp

/-- **`internal.EnsureNoSymlinks` with its `Lstat` calls on the resolving file system is the lexical guard** -/
theorem guardR_eq (fs : FS) (root p : P) (hinv : RInv fs root) (hroot : root ≠ []) (hd : NoDots p) (hp : root <+: p) :
    ensureNoSymlinksR fs root p = ensureNoSymlinks fs root p := by
  have htake := prefix_take_eq hp
  have hdr : NoDots root := by rw [← htake]; exact nodots_take p hd _
  have hrl : root.length ≤ p.length := hp.length_le
  unfold ensureNoSymlinksR ensureNoSymlinks
  rw [relParts_of_prefix root p hp]
  by_cases hall : AllDirs fs root
  · -- every ancestor of the destination exists
    by_cases hpr : p = root
    · rw [if_pos hpr, if_pos hpr]
      have hcs : cleanStep root [46] = root := by unfold cleanStep; rw [if_pos (Or.inr rfl)]
      simp only [guardLoopR, hcs]
      rw [lstatR_lex fs root hroot hdr hall]
      unfold lexRes
      cases hg : fs.get root with
      | none => rfl
      | some n => cases n <;> rfl
    · rw [if_neg hpr, if_neg hpr]
      have hlen : root.length < p.length := prefix_lt hp (fun e => hpr e.symm)
      have hdirs : ∀ j, j < root.length → ∃ m, fs.get (p.take j) = some (.dir m) := by
        intro j hj
        have := hall j hj
        rw [← htake, take_take_le p _ _ (by omega)] at this
        exact this
      have hloop : guardLoopR fs root (p.drop root.length) = guardLoopR fs (p.take root.length) (p.drop root.length) := by
        rw [htake]
      rw [hloop]
      cases hg : fs.get root with
      | none =>
        have hg' : fs.get (p.take root.length) = none := by rw [htake]; exact hg
        rw [guardLoop_none fs p hd _ hlen root.length (Nat.le_refl _) hg' hdirs]
        simp only
        have hnext : fs.get (p.take (root.length + 1)) = none := by
          have hr1 : 1 ≤ root.length := List.length_pos_iff.mpr hroot
          exact none_below fs hinv.wf p root.length hr1 hg' _ (by omega) (by omega)
        rw [noSymFrom]
        rw [if_neg (by omega), hnext]
      | some n =>
        cases n with
        | file k =>
          have hg' : fs.get (p.take root.length) = some (.file k) := by rw [htake]; exact hg
          rw [guardLoop_file fs p hd _ hlen k hg' hdirs]
        | symlink t => exact absurd hg (hinv.rootNoLink t)
        | dir m =>
          simp only
          apply guardLoop_dirs fs p hd (p.length + 1) root.length (by omega) (by omega)
          intro j hj
          by_cases hjr : j = root.length
          · rw [hjr, htake]; exact ⟨m, hg⟩
          · exact hdirs j (by omega)
  · -- some ancestor of the destination does not exist yet: neither does anything below it; both guards succeed
    obtain ⟨j0, hj0, hnone, hdirs⟩ := not_allDirs_first fs root hinv.anc hall
    have hj1 : 1 ≤ j0 := by
      rcases Nat.eq_zero_or_pos j0 with h | h
      · subst h
        obtain ⟨m, hm⟩ := hinv.slashDir
        simp only [List.take_zero] at hnone
        rw [hm] at hnone; cases hnone
      · exact h
    have hrootnone : fs.get root = none := by
      have := none_below fs hinv.wf root j0 hj1 hnone root.length (by omega) (Nat.le_refl _)
      rwa [List.take_length] at this
    have hnoneP : fs.get (p.take j0) = none := by
      rw [← htake, take_take_le p _ _ (by omega)] at hnone; exact hnone
    have hdirsP : ∀ j, j < j0 → ∃ m, fs.get (p.take j) = some (.dir m) := by
      intro j hj
      have := hdirs j hj
      rw [← htake, take_take_le p _ _ (by omega)] at this
      exact this
    by_cases hpr : p = root
    · rw [if_pos hpr, if_pos hpr, hrootnone]
      have hcs : cleanStep root [46] = root := by unfold cleanStep; rw [if_pos (Or.inr rfl)]
      simp only [guardLoopR, hcs]
      rw [lstatR_enoent fs root hdr j0 hj0 hnone hdirs]
    · rw [if_neg hpr, if_neg hpr, hrootnone]
      have hlen : root.length < p.length := prefix_lt hp (fun e => hpr e.symm)
      have hloop : guardLoopR fs root (p.drop root.length) = guardLoopR fs (p.take root.length) (p.drop root.length) := by
        rw [htake]
      rw [hloop, guardLoop_none fs p hd _ hlen j0 (by omega) hnoneP hdirsP]
      simp only
      have hnext : fs.get (p.take (root.length + 1)) = none :=
        none_below fs hinv.wf p j0 hj1 hnoneP _ (by omega) (by omega)
      rw [noSymFrom]
      rw [if_neg (by omega), hnext]

/-! ### the loop bodies -/

/-- after the guard no component of the path is a symbolic link (the root and its ancestors are none by `RInv`) -/
theorem guard_nosym (fs : FS) (root p : P) (hinv : RInv fs root) (hp : root <+: p)
    (hg : ensureNoSymlinks fs root p = true) :
    ∀ j, 1 ≤ j → j ≤ p.length → ∀ t, fs.get (p.take j) ≠ some (.symlink t) := by
  intro j h1 h2 t
  have htake := prefix_take_eq hp
  by_cases hj : j < root.length
  · have hrl : root.length ≤ p.length := hp.length_le
    rcases hinv.anc j hj with hm | ⟨m, hm⟩
    · rw [← htake, take_take_le p _ _ (by omega)] at hm
      rw [hm]; exact fun h => by cases h
    · rw [← htake, take_take_le p _ _ (by omega)] at hm
      rw [hm]; exact fun h => by cases h
  · by_cases hj' : j = root.length
    · rw [hj', htake]; exact hinv.rootNoLink t
    · exact (ensureNoSymlinks_ok fs hinv.wf root p hg).1 j (by omega) h2 t

theorem RInv.mkdir {fs fs1 : FS} {root : P} (hinv : RInv fs root) (q : P) (mode : Nat)
    (h1 : mkdirAll fs q mode = some fs1) : RInv fs1 root := by
  have hsys := (mkdirAll_self_sys fs fs1 q mode h1).1
  refine ⟨hsys.wf hinv.wf, ?_, ?_, ?_⟩
  · obtain ⟨m, hm⟩ := hinv.slashDir
    exact ⟨m, hsys.mono _ _ hm⟩
  · intro j hj
    rcases hinv.anc j hj with hm | ⟨m, hm⟩
    · rw [mkdirAll_exact fs fs1 q mode h1, hm]
      simp only
      split
      · exact Or.inr ⟨_, rfl⟩
      · exact Or.inl rfl
    · exact Or.inr ⟨m, hsys.mono _ _ hm⟩
  · intro t h
    exact hinv.rootNoLink t (((mkdirAll_sameLeaves fs fs1 q mode h1) root).1 t |>.mp h)

/-- after `MkdirAll(Dir(p))` every proper prefix of `p` is a directory -/
theorem allDirs_after_parent (fs fs1 : FS) (hs : ∃ m, fs.get [] = some (.dir m)) (p : P) (hne : p ≠ []) (mode : Nat)
    (h1 : mkdirAll fs p.dropLast mode = some fs1) : AllDirs fs1 p := by
  have hlen : 0 < p.length := List.length_pos_iff.mpr hne
  intro j hj
  by_cases h0 : j = 0
  · subst h0
    obtain ⟨m, hm⟩ := hs
    exact ⟨m, by simpa using (mkdirAll_self_sys fs fs1 _ _ h1).1.mono [] _ hm⟩
  · obtain ⟨m, hm⟩ := (mkdirAll_self_sys fs fs1 _ mode h1).2 j (by omega) (by simp; omega)
    rw [dropLast_take p j (by omega)] at hm
    exact ⟨m, hm⟩

theorem nosym_dropLast (fs : FS) (p : P)
    (hns : ∀ j, 1 ≤ j → j ≤ p.length → ∀ t, fs.get (p.take j) ≠ some (.symlink t)) :
    ∀ j, 1 ≤ j → j ≤ p.dropLast.length → ∀ t, fs.get (p.dropLast.take j) ≠ some (.symlink t) := by
  intro j h1 h2 t
  have h2' : j ≤ p.length - 1 := by simpa using h2
  rw [dropLast_take p j h2']
  exact hns j h1 (by omega) t

theorem tarOneR_eq (fs : FS) (root : P) (hinv : RInv fs root) (hroot : root ≠ []) (hr : GoodPath root)
    (hdr : NoDots root) (mask : Nat) (e : Entry) : tarOneR fs root mask e = tarOne fs root mask e := by
  unfold tarOneR
  by_cases hcor : e.kind = .corrupt
  · simp [tarOneG, tarOne, hcor]
  cases hl : lexOK root (cleanJoin root e.name) (e.kind == .dir) with
  | false => simp [tarOneG, tarOne, hcor, hl]
  | true =>
    have hp : root <+: cleanJoin root e.name := lexOK_prefix root _ hr (cleanJoin_good root e.name hr) _ hl
    have hne := prefix_ne_nil root _ hroot hp
    have hdp : NoDots (cleanJoin root e.name) := cleanJoin_nodots root e.name hdr
    have hgeq := guardR_eq fs root _ hinv hroot hdp hp
    cases hg : ensureNoSymlinks fs root (cleanJoin root e.name) with
    | false => simp [tarOneG, tarOne, hcor, hl, hgeq, hg]
    | true =>
      have hns := guard_nosym fs root _ hinv hp hg
      have hs := hinv.slash hroot
      have hMp : osMkdirAll fs (cleanJoin root e.name).dropLast (0o755 &&& mask) =
          mkdirAll fs (cleanJoin root e.name).dropLast (0o755 &&& mask) :=
        osMkdirAll_eq fs hinv.wf hs _ _ (nodots_dropLast _ hdp) (nosym_dropLast fs _ hns)
      have hlastOf : ∀ fs1, mkdirAll fs (cleanJoin root e.name).dropLast (0o755 &&& mask) = some fs1 →
          ∀ t, fs1.get (cleanJoin root e.name) ≠ some (.symlink t) := by
        intro fs1 h1 t
        rw [parent_self fs fs1 _ hne _ h1]
        have := hns _ (List.length_pos_iff.mpr hne) (Nat.le_refl _) t
        rwa [List.take_length] at this
      cases hk : e.kind with
      | corrupt => exact absurd hk hcor
      | other => (simp [tarOneG, tarOne, hk, hl, hgeq, hg]; try rfl)
      | dir =>
        have hM : osMkdirAll fs (cleanJoin root e.name) (perm e.mode &&& mask) =
            mkdirAll fs (cleanJoin root e.name) (perm e.mode &&& mask) := osMkdirAll_eq fs hinv.wf hs _ _ hdp hns
        (simp [tarOneG, tarOne, hk, hl, hgeq, hg, hM]; try rfl)
      | reg =>
        cases h1 : mkdirAll fs (cleanJoin root e.name).dropLast (0o755 &&& mask) with
        | none => (simp [tarOneG, tarOne, hk, hl, hgeq, hg, hMp, h1]; try rfl)
        | some fs1 =>
          have hW := openWriteR_eq fs1 _ (perm e.mode &&& mask) e.data hne hdp
            (allDirs_after_parent fs fs1 hs _ hne _ h1) (hlastOf fs1 h1)
          (simp [tarOneG, tarOne, hk, hl, hgeq, hg, hMp, h1, hW]; try rfl)
      | symlink =>
        cases h1 : mkdirAll fs (cleanJoin root e.name).dropLast (0o755 &&& mask) with
        | none => (simp [tarOneG, tarOne, hk, hl, hgeq, hg, hMp, h1]; try rfl)
        | some fs1 =>
          have hS := symlinkR_eq fs1 e.link _ hne hdp (allDirs_after_parent fs fs1 hs _ hne _ h1)
          (simp [tarOneG, tarOne, hk, hl, hgeq, hg, hMp, h1, hS]; try rfl)
      | link =>
        cases h1 : mkdirAll fs (cleanJoin root e.name).dropLast (0o755 &&& mask) with
        | none => (simp [tarOneG, tarOne, hk, hl, hgeq, hg, hMp, h1]; try rfl)
        | some fs1 =>
          cases hlt : lexOK root (cleanJoin root e.link) false with
          | false => (simp [tarOneG, tarOne, hk, hl, hgeq, hg, hMp, h1, hlt]; try rfl)
          | true =>
            have hpt : root <+: cleanJoin root e.link :=
              lexOK_prefix root _ hr (cleanJoin_good root e.link hr) _ hlt
            have htne := prefix_ne_nil root _ hroot hpt
            have hdt : NoDots (cleanJoin root e.link) := cleanJoin_nodots root e.link hdr
            have hinv1 := hinv.mkdir _ _ h1
            have hgeq1 := guardR_eq fs1 root _ hinv1 hroot hdt hpt
            cases hgt : ensureNoSymlinks fs1 root (cleanJoin root e.link) with
            | false => (simp [tarOneG, tarOne, hk, hl, hgeq, hg, hMp, h1, hlt, hgeq1, hgt]; try rfl)
            | true =>
              have hL := linkR_eq fs1 hinv1.wf (hinv1.slash hroot) _ _ hne hdp
                (allDirs_after_parent fs fs1 hs _ hne _ h1) htne hdt (guard_nosym fs1 root _ hinv1 hpt hgt)
              (simp [tarOneG, tarOne, hk, hl, hgeq, hg, hMp, h1, hlt, hgeq1, hgt, hL]; try rfl)

theorem zipOneR_eq (fs : FS) (root : P) (hinv : RInv fs root) (hroot : root ≠ []) (hr : GoodPath root)
    (hdr : NoDots root) (mask : Nat) (e : Entry) : zipOneR fs root mask e = zipOne fs root mask e := by
  unfold zipOneR
  cases hl : lexOK root (cleanJoin root e.name) (e.kind == .dir) with
  | false => simp [zipOneG, zipOne, hl]
  | true =>
    have hp : root <+: cleanJoin root e.name := lexOK_prefix root _ hr (cleanJoin_good root e.name hr) _ hl
    have hne := prefix_ne_nil root _ hroot hp
    have hdp : NoDots (cleanJoin root e.name) := cleanJoin_nodots root e.name hdr
    have hgeq := guardR_eq fs root _ hinv hroot hdp hp
    cases hg : ensureNoSymlinks fs root (cleanJoin root e.name) with
    | false => simp [zipOneG, zipOne, hl, hgeq, hg]
    | true =>
      have hns := guard_nosym fs root _ hinv hp hg
      have hs := hinv.slash hroot
      have hMp : osMkdirAll fs (cleanJoin root e.name).dropLast (0o755 &&& mask) =
          mkdirAll fs (cleanJoin root e.name).dropLast (0o755 &&& mask) :=
        osMkdirAll_eq fs hinv.wf hs _ _ (nodots_dropLast _ hdp) (nosym_dropLast fs _ hns)
      have hlastOf : ∀ fs1, mkdirAll fs (cleanJoin root e.name).dropLast (0o755 &&& mask) = some fs1 →
          ∀ t, fs1.get (cleanJoin root e.name) ≠ some (.symlink t) := by
        intro fs1 h1 t
        rw [parent_self fs fs1 _ hne _ h1]
        have := hns _ (List.length_pos_iff.mpr hne) (Nat.le_refl _) t
        rwa [List.take_length] at this
      have hfile : ∀ (k : Kind), e.kind = k → k ≠ .symlink → k ≠ .dir →
          zipOneG true fs root mask e = zipOne fs root mask e := by
        intro k hk hk1 hk2
        cases h1 : mkdirAll fs (cleanJoin root e.name).dropLast (0o755 &&& mask) with
        | none => cases k <;> first | exact absurd rfl hk1 | exact absurd rfl hk2 |
            (simp [zipOneG, zipOne, hk, hl, hgeq, hg, hMp, h1]; try rfl)
        | some fs1 =>
          have hW := openWriteR_eq fs1 _ (perm e.mode &&& mask) e.data hne hdp
            (allDirs_after_parent fs fs1 hs _ hne _ h1) (hlastOf fs1 h1)
          cases k <;> first | exact absurd rfl hk1 | exact absurd rfl hk2 |
            (simp [zipOneG, zipOne, hk, hl, hgeq, hg, hMp, h1, hW]; try rfl)
      cases hk : e.kind with
      | dir =>
        have hM : osMkdirAll fs (cleanJoin root e.name) (perm e.mode &&& mask) =
            mkdirAll fs (cleanJoin root e.name) (perm e.mode &&& mask) := osMkdirAll_eq fs hinv.wf hs _ _ hdp hns
        (simp [zipOneG, zipOne, hk, hl, hgeq, hg, hM]; try rfl)
      | symlink =>
        cases hsh : e.short with
        | true => (simp [zipOneG, zipOne, hk, hl, hgeq, hg, hsh]; try rfl)
        | false =>
          cases h1 : mkdirAll fs (cleanJoin root e.name).dropLast (0o755 &&& mask) with
          | none => (simp [zipOneG, zipOne, hk, hl, hgeq, hg, hsh, hMp, h1]; try rfl)
          | some fs1 =>
            have hS := symlinkR_eq fs1 e.link _ hne hdp (allDirs_after_parent fs fs1 hs _ hne _ h1)
            (simp [zipOneG, zipOne, hk, hl, hgeq, hg, hsh, hMp, h1, hS]; try rfl)
      | reg => exact hfile _ hk (by decide) (by decide)
      | link => exact hfile _ hk (by decide) (by decide)
      | other => exact hfile _ hk (by decide) (by decide)
      | corrupt => exact hfile _ hk (by decide) (by decide)

/-! ### the invariant is kept by every iteration, the runs coincide -/

theorem tarOne_lex_of_ok (fs : FS) (root : P) (mask : Nat) (e : Entry) (hok : (tarOne fs root mask e).2 = true) :
    lexOK root (cleanJoin root e.name) (e.kind == .dir) = true := by
  cases hl : lexOK root (cleanJoin root e.name) (e.kind == .dir) with
  | true => rfl
  | false =>
    have : (tarOne fs root mask e).2 = false := (tarOne_fails_iff fs root mask e).mpr (Or.inr (Or.inl hl))
    rw [this] at hok; cases hok

theorem stepGet_root_nolink (fs : FS) (root p : P) (nn : Option Nd) (dm : Nat)
    (h : ∀ t, fs.get root ≠ some (.symlink t)) (hnn : root = p → ∀ t, nn ≠ some (.symlink t)) :
    ∀ t, stepGet fs.view p nn dm root ≠ some (.symlink t) := by
  intro t
  unfold stepGet FS.view
  simp only
  cases hg : fs.get root with
  | some n => simp only; rw [← hg]; exact h t
  | none =>
    simp only
    by_cases hrp : root = p
    · rw [if_pos hrp]; exact hnn hrp t
    · rw [if_neg hrp]
      split
      · exact fun h' => by cases h'
      · exact fun h' => by cases h'

theorem tarOne_root_nolink (fs : FS) (root : P) (hr : GoodPath root) (hroot : root ≠ []) (mask : Nat) (e : Entry)
    (h : ∀ t, fs.get root ≠ some (.symlink t)) : ∀ t, (tarOne fs root mask e).1.get root ≠ some (.symlink t) := by
  intro t
  cases hb : (tarOne fs root mask e).2 with
  | true =>
    have hov := congrArg (fun x => x.get root) (tarOne_overlay fs root hr hroot mask e _ rfl hb)
    have hov' : (tarOne fs root mask e).1.get root = (overlayStep root mask fs.view e).get root := hov
    rw [hov']
    by_cases hc : e.creates
    · rw [overlayStep_get root mask _ e hc]
      apply stepGet_root_nolink fs root _ _ _ h
      intro hrp t'
      -- the entry names the root: it is a directory entry
      have hl := tarOne_lex_of_ok fs root mask e hb
      have hkd : e.kind = .dir := by
        rcases (lexOK_iff root _ hr (cleanJoin_good root e.name hr) _).mp hl with ⟨c, t2, e2⟩ | ⟨_, hd⟩
        · exfalso
          rw [← hrp] at e2
          have := congrArg List.length e2; simp at this
        · rw [kind_beq] at hd; simpa using hd
      simp [newNode, hkd]
    · unfold overlayStep; rw [if_neg hc]; exact h t
  | false =>
    rcases tarOne_failed_effect fs root hr hroot mask e _ rfl hb with h1 | ⟨_, h1⟩ | ⟨hk, _, h1⟩
    · rw [h1]; exact h t
    · have hov : (tarOne fs root mask e).1.get root = stepGet fs.view (cleanJoin root e.name) none (0o755 &&& mask) root :=
        congrArg (fun x => x.get root) h1
      rw [hov]
      exact stepGet_root_nolink fs root _ _ _ h (fun _ t' h' => by cases h') t
    · have hov : (tarOne fs root mask e).1.get root = (overlayStep root mask fs.view e).get root :=
        congrArg (fun x => x.get root) h1
      rw [hov, overlayStep_get root mask _ e (Or.inl hk)]
      apply stepGet_root_nolink fs root _ _ _ h
      intro _ t'
      simp [newNode, hk]

theorem tarOne_of_lex_false (fs : FS) (root : P) (mask : Nat) (e : Entry)
    (h : lexOK root (cleanJoin root e.name) (e.kind == .dir) = false) : (tarOne fs root mask e).1 = fs := by
  unfold tarOne
  split
  · rfl
  · simp [h]

theorem stepGet_other (fs : FS) (p : P) (nn : Option Nd) (dm : Nat) (q : P) (hq : fs.get q = none) (hqp : q ≠ p) :
    stepGet fs.view p nn dm q = none ∨ ∃ m, stepGet fs.view p nn dm q = some (.dir m) := by
  unfold stepGet FS.view
  simp only
  rw [hq]
  simp only
  rw [if_neg hqp]
  split
  · exact Or.inr ⟨_, rfl⟩
  · exact Or.inl rfl

/-- what an iteration can put at an absent path above the destination: a directory (`MkdirAll` of a missing ancestor) -/
theorem tarOne_new_above (fs : FS) (root : P) (hr : GoodPath root) (hroot : root ≠ []) (mask : Nat) (e : Entry) (q : P)
    (hlen : q.length < root.length) (hq : fs.get q = none) :
    (tarOne fs root mask e).1.get q = none ∨ ∃ m, (tarOne fs root mask e).1.get q = some (.dir m) := by
  cases hl : lexOK root (cleanJoin root e.name) (e.kind == .dir) with
  | false => rw [tarOne_of_lex_false fs root mask e hl]; exact Or.inl hq
  | true =>
    have hp : root <+: cleanJoin root e.name := lexOK_prefix root _ hr (cleanJoin_good root e.name hr) _ hl
    have hqp : q ≠ cleanJoin root e.name := by
      intro e'; have := hp.length_le; rw [← e'] at this; omega
    cases hb : (tarOne fs root mask e).2 with
    | true =>
      have hov : (tarOne fs root mask e).1.get q = (overlayStep root mask fs.view e).get q :=
        congrArg (fun x => x.get q) (tarOne_overlay fs root hr hroot mask e _ rfl hb)
      rw [hov]
      by_cases hc : e.creates
      · rw [overlayStep_get root mask _ e hc]; exact stepGet_other fs _ _ _ q hq hqp
      · unfold overlayStep; rw [if_neg hc]; exact Or.inl hq
    | false =>
      rcases tarOne_failed_effect fs root hr hroot mask e _ rfl hb with h1 | ⟨_, h1⟩ | ⟨hk, _, h1⟩
      · rw [h1]; exact Or.inl hq
      · have hov : (tarOne fs root mask e).1.get q = stepGet fs.view (cleanJoin root e.name) none (0o755 &&& mask) q :=
          congrArg (fun x => x.get q) h1
        rw [hov]; exact stepGet_other fs _ _ _ q hq hqp
      · have hov : (tarOne fs root mask e).1.get q = (overlayStep root mask fs.view e).get q :=
          congrArg (fun x => x.get q) h1
        rw [hov, overlayStep_get root mask _ e (Or.inl hk)]; exact stepGet_other fs _ _ _ q hq hqp

theorem RInv.tarStep {fs : FS} {root : P} (hinv : RInv fs root) (hr : GoodPath root) (hroot : root ≠ [])
    (mask : Nat) (e : Entry) : RInv (tarOne fs root mask e).1 root := by
  have hsys := tarOne_sys root hr fs mask e
  refine ⟨hsys.wf hinv.wf, ?_, ?_, tarOne_root_nolink fs root hr hroot mask e hinv.rootNoLink⟩
  · obtain ⟨m, hm⟩ := hinv.slashDir
    exact ⟨m, hsys.mono _ _ hm⟩
  · intro j hj
    rcases hinv.anc j hj with hm | ⟨m, hm⟩
    · exact tarOne_new_above fs root hr hroot mask e _ (by rw [List.length_take]; omega) hm
    · exact Or.inr ⟨m, hsys.mono _ _ hm⟩

/-- an iteration of the zip loop is an iteration of the tar loop (on the entry read as a regular file when its kind
    is none of the three the zip reader yields), or changes nothing -/
theorem zipOne_as_tar (fs : FS) (root : P) (mask : Nat) (e : Entry) :
    (zipOne fs root mask e).1 = fs ∨ ∃ e', (zipOne fs root mask e).1 = (tarOne fs root mask e').1 := by
  by_cases hsh : e.kind = .symlink ∧ e.short = true
  · exact Or.inl (zipOne_symlink_short_tree fs root mask e hsh.1 hsh.2)
  · cases hk : e.kind with
    | reg => exact Or.inr ⟨e, by rw [zipOne_eq_tarOne fs root mask e (Or.inl hk)]⟩
    | dir => exact Or.inr ⟨e, by rw [zipOne_eq_tarOne fs root mask e (Or.inr (Or.inl hk))]⟩
    | symlink =>
      have hs : e.short = false := by
        cases h : e.short with
        | false => rfl
        | true => exact absurd ⟨hk, h⟩ hsh
      exact Or.inr ⟨e, by rw [zipOne_eq_tarOne fs root mask e (Or.inr (Or.inr ⟨hk, hs⟩))]⟩
    | link => exact Or.inr ⟨{ e with kind := .reg }, by simp [zipOne, tarOne, hk]; rfl⟩
    | other => exact Or.inr ⟨{ e with kind := .reg }, by simp [zipOne, tarOne, hk]; rfl⟩
    | corrupt =>
      left
      unfold zipOne
      simp only [hk]
      split
      · rfl
      split
      · rfl
      · rfl

theorem RInv.zipStep {fs : FS} {root : P} (hinv : RInv fs root) (hr : GoodPath root) (hroot : root ≠ [])
    (mask : Nat) (e : Entry) : RInv (zipOne fs root mask e).1 root := by
  rcases zipOne_as_tar fs root mask e with h | ⟨e', h⟩
  · rw [h]; exact hinv
  · rw [h]; exact hinv.tarStep hr hroot mask e'

theorem extractWith_eq (root : P) (one one' : FS → Entry → FS × Bool)
    (heq : ∀ fs, RInv fs root → ∀ e, one fs e = one' fs e)
    (hkeep : ∀ fs, RInv fs root → ∀ e, RInv (one' fs e).1 root) (es : List Entry) (fs : FS) (hinv : RInv fs root) :
    extractWith one fs es = extractWith one' fs es := by
  induction es generalizing fs with
  | nil => rfl
  | cons x xs ih =>
    rw [extractWith_cons, extractWith_cons, heq fs hinv x]
    split
    · exact ih _ (hkeep fs hinv x)
    · rfl

/-- **the resolving extractors are the lexical extractors** on every well-formed tree whose destination is not below
    (or itself) a symbolic link -/
theorem tarExtractR_eq (root : P) (hroot : root ≠ []) (hr : GoodPath root) (hdr : NoDots root) (mask : Nat)
    (es : List Entry) (fs : FS) (hinv : RInv fs root) : tarExtractR fs root mask es = tarExtract fs root mask es :=
  extractWith_eq root _ _ (fun fs h e => tarOneR_eq fs root h hroot hr hdr mask e)
    (fun fs h e => h.tarStep hr hroot mask e) es fs hinv

theorem zipExtractR_eq (root : P) (hroot : root ≠ []) (hr : GoodPath root) (hdr : NoDots root) (mask : Nat)
    (es : List Entry) (fs : FS) (hinv : RInv fs root) : zipExtractR fs root mask es = zipExtract fs root mask es :=
  extractWith_eq root _ _ (fun fs h e => zipOneR_eq fs root h hroot hr hdr mask e)
    (fun fs h e => h.zipStep hr hroot mask e) es fs hinv

theorem RInv.tarRun {fs : FS} {root : P} (hinv : RInv fs root) (hr : GoodPath root) (hroot : root ≠ []) (mask : Nat)
    (es : List Entry) : RInv (tarExtract fs root mask es).1 root := by
  induction es generalizing fs with
  | nil => exact hinv
  | cons x xs ih =>
    rw [tarExtract_cons]
    split
    · exact ih (hinv.tarStep hr hroot mask x)
    · exact hinv.tarStep hr hroot mask x

theorem RInv.zipRun {fs : FS} {root : P} (hinv : RInv fs root) (hr : GoodPath root) (hroot : root ≠ []) (mask : Nat)
    (es : List Entry) : RInv (zipExtract fs root mask es).1 root := by
  induction es generalizing fs with
  | nil => exact hinv
  | cons x xs ih =>
    rw [zipExtract_cons]
    split
    · exact ih (hinv.zipStep hr hroot mask x)
    · exact hinv.zipStep hr hroot mask x

/-- outside the destination only missing ancestors of it can appear -/
theorem Sys.outside' {root : P} {fs fs' : FS} (h : Sys root fs fs') (q : P) (hq : ¬ root <+: q)
    (hex : q <+: root → fs.get q ≠ none) : fs'.get q = fs.get q := by
  by_cases hrel : Related root q
  · rcases hrel with hpre | hpre
    · obtain ⟨n, hn⟩ := Option.ne_none_iff_exists'.mp (hex hpre)
      rw [h.mono q n hn, hn]
    · exact absurd hpre hq
  · exact h.frame q hrel

end Ex
