import Lemmas.NotifierBatchEn
import Lemmas.NotifierDelivery
/-! C17: two batch cycles in a row.  The `BatchMode(false)` broadcast of a cycle goes to the snapshot taken by ITS OWN
    outermost `StartBatch` (`current`), which `EndBatch` clears; so whatever happened to the targets of an earlier cycle —
    unregistered, re-registered — the next cycle speaks to exactly the batch targets registered at its own start. -/
namespace Nt

theorem runFrom_append_fst (pan : Nat → Bool) (a b : List Op) (w : World) :
    (runFrom pan w (a ++ b)).1 = (runFrom pan (runFrom pan w a).1 b).1 := by
  induction a generalizing w with
  | nil => rfl
  | cons op a ih => simp only [List.cons_append, runFrom]; exact ih _

/-- no `StartBatch`, `EndBatch`, `Reset`, `SetEnabled` of notifier `n` (anything else, on any notifier, is allowed:
    Register, Unregister, RegisterFromNotifier in both directions, Notify) -/
def quiet (n : Nat) : List Op → Bool
  | [] => true
  | .startBatch i :: ops => decide (i ≠ n) && quiet n ops
  | .endBatch i :: ops => decide (i ≠ n) && quiet n ops
  | .reset i :: ops => decide (i ≠ n) && quiet n ops
  | .setEnabled i _ :: ops => decide (i ≠ n) && quiet n ops
  | _ :: ops => quiet n ops

theorem frame_refl (s : NSt) : Frame s s := ⟨rfl, rfl, rfl⟩
theorem frame_trans {a b c : NSt} (h1 : Frame a b) (h2 : Frame b c) : Frame a c :=
  ⟨h2.1.trans h1.1, h2.2.1.trans h1.2.1, h2.2.2.trans h1.2.2⟩

theorem frame_set_other (w : World) (n i : Nat) (s : NSt) (h : i = n → Frame (w n) s) : Frame (w n) ((w.set i s) n) := by
  unfold World.set
  split
  · rename_i hn; exact h hn.symm
  · exact frame_refl _

theorem frame_quiet (pan : Nat → Bool) (n : Nat) (ops : List Op) (w : World) (hq : quiet n ops = true) :
    Frame (w n) ((runFrom pan w ops).1 n) := by
  induction ops generalizing w with
  | nil => exact frame_refl _
  | cons op ops ih =>
    simp only [runFrom]
    have go : ∀ (hq' : quiet n ops = true), Frame (w n) ((step pan w op).1 n) →
        Frame (w n) ((runFrom pan (step pan w op).1 ops).1 n) := fun hq' hf => frame_trans hf (ih _ hq')
    cases op with
    | register i t p raws => exact go (by simpa [quiet] using hq) (frame_set_other w n i _ (fun e => e ▸ frame_register _ _ _ _))
    | unregister i t => exact go (by simpa [quiet] using hq) (frame_set_other w n i _ (fun e => e ▸ frame_unregister _ _))
    | merge i m =>
      refine go (by simpa [quiet] using hq) ?_
      simp only [step]
      split
      · exact frame_refl _
      · exact frame_set_other w n i _ (fun e => e ▸ frame_mergeFrom _ _)
    | notify i raw => exact go (by simpa [quiet] using hq) (frame_refl _)
    | setEnabled i b =>
      simp only [quiet, Bool.and_eq_true, decide_eq_true_eq] at hq
      exact go hq.2 (frame_set_other w n i _ (fun e => absurd e hq.1))
    | reset i =>
      simp only [quiet, Bool.and_eq_true, decide_eq_true_eq] at hq
      exact go hq.2 (frame_set_other w n i _ (fun e => absurd e hq.1))
    | startBatch i =>
      simp only [quiet, Bool.and_eq_true, decide_eq_true_eq] at hq
      exact go hq.2 (frame_set_other w n i _ (fun e => absurd e hq.1))
    | endBatch i =>
      simp only [quiet, Bool.and_eq_true, decide_eq_true_eq] at hq
      exact go hq.2 (frame_set_other w n i _ (fun e => absurd e hq.1))

/-- the world after a complete cycle `StartBatch; mid₁; EndBatch` followed by a quiet stretch: notifier `n` is enabled
    and idle again (and holds no current batch: `Inv.idle`) -/
theorem after_cycle (pan : Nat → Bool) (w : World) (hw : WInv w) (n : Nat) (mid between : List Op)
    (he : (w n).enabled = true) (hl : (w n).level = 0) (hm : matched n 0 mid = true) (hq : quiet n between = true) :
    let wA := (runFrom pan w (.startBatch n :: (mid ++ .endBatch n :: between))).1
    WInv wA ∧ (wA n).enabled = true ∧ (wA n).level = 0 ∧ (wA n).current = [] := by
  intro wA
  have hwA : WInv wA := winv_runFrom pan _ w hw
  have h1 : wA = (runFrom pan (step pan (runFrom pan (step pan w (.startBatch n)).1 mid).1 (.endBatch n)).1 between).1 := by
    show (runFrom pan w (.startBatch n :: (mid ++ .endBatch n :: between))).1 = _
    simp only [runFrom]
    rw [runFrom_append_fst]
    simp only [runFrom]
  have hlev := (nest_outer pan w hw n mid he hl hm).2.2.2
  have hen := nest_outerE_enabled pan w n mid he hl (matchedE_of_matched n mid 0 hm)
  have hf := frame_quiet pan n between (step pan (runFrom pan (step pan w (.startBatch n)).1 mid).1 (.endBatch n)).1 hq
  rw [← h1] at hf
  have l0 : (wA n).level = 0 := by rw [hf.2.1]; exact hlev
  exact ⟨hwA, by rw [hf.1]; exact hen, l0, (hwA n).idle l0⟩

/-! ### contrast: `EndBatch` that leaves `currentBatch` in place (seeded regression ind7-c17-b; NOT the model) -/
def endBatchKeep (s : NSt) : NSt × List Nat :=
  if s.enabled ∧ s.level > 0 then
    let s := { s with level := s.level - 1 }
    if s.level = 0 then (s, s.current) else (s, [])
  else (s, [])

/-- one notifier state driven through: Register(t1 under "a"); Start; End; Unregister(t1); Start; End — with the given
    `EndBatch`; the `BatchMode(false)` lists of the two ends -/
def twoCycles (endB : NSt → NSt × List Nat) : List Nat × List Nat :=
  let s0 := register {} 1 0 [[97]]
  let s1 := (startBatch s0).1
  let e1 := endB s1
  let s2 := unregister e1.1 1
  let s3 := (startBatch s2).1
  let e2 := endB s3
  (e1.2, e2.2)

end Nt
