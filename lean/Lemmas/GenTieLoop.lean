import Lemmas.GenLoop
import Model.NatSortGo
/-! Translator tie, loops (target `txt`): arithmetic of Go `int` indices (`BitVec 64`) below 2^63 against the natural
    numbers of the hand-written transcription `Model/NatSortGo.lean`, bounds-checked string indexing and slicing against
    its byte accessor, and the encoding of the outcome of the scanning loop.  Nothing here depends on the generated file. -/
set_option linter.unusedVariables false
set_option linter.unusedSimpArgs false
namespace GenTieLoop
open Gen NatSortGo

/-- the byte accessor of the hand-written transcription (`Model/NatSortGo.lean`) for a generated string -/
def bytes (s : Str) : Nat → Nat := fun i => (s.getD i 0#8).toNat

theorem toInt_ofNat_small (i : Nat) (h : i < 2^63) : (BitVec.ofNat 64 i).toInt = (i : Int) := by
  rw [BitVec.toInt_eq_toNat_cond]; simp only [BitVec.toNat_ofNat]; split <;> omega

theorem toNat_ofNat_small (i : Nat) (h : i < 2^63) : (BitVec.ofNat 64 i).toNat = i := by
  simp only [BitVec.toNat_ofNat]; omega

theorem strLen_toInt (s : Str) (h : s.length < 2^63) : (strLen s).toInt = (s.length : Int) := by
  unfold strLen; exact toInt_ofNat_small _ h

theorem strIdx_ofNat (s : Str) (i : Nat) (h : i < s.length) (hn : s.length < 2^63) :
    strIdx s (BitVec.ofNat 64 i) = some s[i] := by
  unfold strIdx
  rw [toInt_ofNat_small i (by omega), toNat_ofNat_small i (by omega)]
  simp [h]

theorem bytes_eq (s : Str) (i : Nat) (h : i < s.length) : bytes s i = s[i].toNat := by
  simp [bytes, h]

theorem ofNat_succ (i : Nat) : BitVec.ofNat 64 i + 1#64 = BitVec.ofNat 64 (i + 1) := by
  apply BitVec.eq_of_toNat_eq; simp [BitVec.toNat_add]

theorem lt_len (s : Str) (i : Nat) (hi : i ≤ s.length) (hn : s.length < 2^63) :
    ((BitVec.ofNat 64 i).toInt < (strLen s).toInt) ↔ i < s.length := by
  rw [toInt_ofNat_small i (by omega), strLen_toInt s hn]; omega

theorem byte_eq_iff (b : BitVec 8) (k : Nat) (hk : k < 256) : b = BitVec.ofNat 8 k ↔ b.toNat = k := by
  constructor
  · intro h; subst h; simp; omega
  · intro h; apply BitVec.eq_of_toNat_eq; simp; omega

theorem ofNat_sub (a b : Nat) (h : b ≤ a) (ha : a < 2^64) :
    BitVec.ofNat 64 a - BitVec.ofNat 64 b = BitVec.ofNat 64 (a - b) := by
  apply BitVec.eq_of_toNat_eq; simp only [BitVec.toNat_sub, BitVec.toNat_ofNat]; omega

theorem ofNat_inj (a b : Nat) (ha : a < 2^64) (hb : b < 2^64) : BitVec.ofNat 64 a = BitVec.ofNat 64 b ↔ a = b := by
  constructor
  · intro h
    have := congrArg BitVec.toNat h
    simp only [BitVec.toNat_ofNat] at this; omega
  · intro h; rw [h]

theorem lt_ofNat (a b : Nat) (ha : a < 2^63) (hb : b < 2^63) :
    (BitVec.ofNat 64 a).toInt < (BitVec.ofNat 64 b).toInt ↔ a < b := by
  rw [toInt_ofNat_small a ha, toInt_ofNat_small b hb]; omega

theorem strSlice_ofNat (s : Str) (lo hi : Nat) (h1 : lo ≤ hi) (h2 : hi ≤ s.length) (hn : s.length < 2^63) :
    strSlice s (BitVec.ofNat 64 lo) (BitVec.ofNat 64 hi) = some ((s.take hi).drop lo) := by
  unfold strSlice
  rw [toInt_ofNat_small lo (by omega), toInt_ofNat_small hi (by omega), toNat_ofNat_small lo (by omega),
    toNat_ofNat_small hi (by omega)]
  have : (0 : Int) ≤ lo ∧ (lo : Int) ≤ hi ∧ (hi : Int) ≤ s.length := by omega
  simp only [this, and_self, if_true]

theorem slice_bytes (s : Str) (lo hi : Nat) (h2 : hi ≤ s.length) :
    slice (bytes s) lo hi = ((s.take hi).drop lo).map BitVec.toNat := by
  apply List.ext_getElem
  · simp [slice]; omega
  · intro k hk1 hk2
    simp only [slice, List.length_map, List.length_range] at hk1
    simp only [slice, List.getElem_map, List.getElem_range, List.getElem_drop, List.getElem_take]
    exact bytes_eq s (lo + k) (by omega)

theorem map_toNat_inj : ∀ (l1 l2 : List (BitVec 8)), l1.map BitVec.toNat = l2.map BitVec.toNat ↔ l1 = l2
  | [], [] => by simp
  | [], b :: l2 => by simp
  | a :: l1, [] => by simp
  | a :: l1, b :: l2 => by
    simp only [List.map_cons, List.cons.injEq, map_toNat_inj l1 l2, BitVec.toNat_inj]

theorem map_toNat_lt : ∀ (l1 l2 : List (BitVec 8)), l1.map BitVec.toNat < l2.map BitVec.toNat ↔ l1 < l2
  | [], [] => by simp
  | [], b :: l2 => by simp
  | a :: l1, [] => by simp
  | a :: l1, b :: l2 => by
    simp only [List.map_cons, List.cons_lt_cons_iff, map_toNat_lt l1 l2, BitVec.lt_def, BitVec.toNat_inj]

/-- `return r` inside the scanning loop / the loop condition failed, as the outcome of the generated loop function -/
def enc : Option Int → BitVec 64 ⊕ Unit
  | some r => .inl (BitVec.ofInt 64 r)
  | none => .inr ()

theorem digit_eq (b : BitVec 8) : (if b.toNat ≥ 48 then decide (b.toNat ≤ 57) else false) = NatSort.isDigit b.toNat := by
  unfold NatSort.isDigit
  by_cases h : 48 ≤ b.toNat <;> simp [h]

theorem sub32 (b : BitVec 8) (h : 97 ≤ b.toNat) : (b - 32#8).toNat = b.toNat - 32 := by
  have := b.isLt
  simp only [BitVec.toNat_sub, BitVec.toNat_ofNat]; omega

theorem enc_ite (c : Prop) [Decidable c] (a b : Option Int) : enc (if c then a else b) = if c then enc a else enc b := by
  split <;> rfl
theorem some_ite {α : Type} (c : Prop) [Decidable c] (a b : α) : some (if c then a else b) = if c then some a else some b := by
  split <;> rfl
theorem enc_some_ite (c : Prop) [Decidable c] : enc (some (if c then -1 else 1)) = if c then .inl 18446744073709551615#64 else .inl 1#64 := by
  split <;> rfl

theorem enc_m1 : enc (some (-1)) = Sum.inl 18446744073709551615#64 := by decide
theorem enc_p1 : enc (some 1) = Sum.inl 1#64 := by decide
theorem enc_0 : enc (some 0) = Sum.inl 0#64 := by decide

theorem strLen_eq_iff (s1 s2 : Str) (h1 : s1.length < 2^63) (h2 : s2.length < 2^63) :
    strLen s1 = strLen s2 ↔ s1.length = s2.length := by
  unfold strLen; exact ofNat_inj _ _ (by omega) (by omega)

theorem strLen_lt_iff (s1 s2 : Str) (h1 : s1.length < 2^63) (h2 : s2.length < 2^63) :
    (strLen s1).toInt < (strLen s2).toInt ↔ s1.length < s2.length := by
  unfold strLen; exact lt_ofNat _ _ h1 h2

end GenTieLoop
