import Model.BitSetMachine
import Lemmas.BitSetBounds
import Lemmas.BitSetHeapLemmas
/-! C08: no `int` overflow — the transcription with checked 64-bit arithmetic (`Model/BitSetMachine.lean`, `none` = Go
    would have wrapped an index) returns `some` of what the total model computes, for every argument up to
    `math.MaxInt`, on every storage whose length in bits fits an `int` (fewer than 2^57 words; `make` cannot return more). -/
namespace BS

/-- the storage is addressable with an `int`: `len(b.data) << 6` does not wrap (fewer than 2^57 words) -/
def Fits (b : T) : Prop := b.data.length * 64 ≤ maxInt

theorem fit?_le (v : Nat) (h : v ≤ maxInt) : fit? v = some v := by unfold fit?; simp [h]
theorem fit?_gt (v : Nat) (h : maxInt < v) : fit? v = none := by
  unfold fit?; have : ¬ v ≤ maxInt := by omega
  simp [this]

theorem maxInt_eq : maxInt = 9223372036854775807 := rfl

theorem ensureCapacityM_eq (b : T) (w : Nat) (h : Fits b) : ensureCapacityM b w = some (ensureCapacity b w) := by
  unfold ensureCapacityM ensureCapacity
  simp only [Option.bind_eq_bind, Option.pure_def]
  split
  · rw [fit?_le _ (by unfold Fits at h; omega)]; rfl
  · rfl

theorem wordIdx_succ_le (i : Nat) (h : i ≤ maxInt) : wordIdx i + 1 ≤ maxInt := by
  rw [wordIdx_eq]; rw [maxInt_eq] at *; omega

theorem setBitM_eq (b : T) (i : Nat) (hi : i ≤ maxInt) (h : Fits b) : setBitM b i = some (setBit b i) := by
  rw [← setBitC_eq]
  unfold setBitM setBitC
  simp only [Option.bind_eq_bind, Option.pure_def]
  rw [fit?_le _ (wordIdx_succ_le i hi)]
  simp only [Option.bind_some]
  rw [ensureCapacityM_eq _ _ h]
  rfl

theorem flipBitM_eq (b : T) (i : Nat) (hi : i ≤ maxInt) (h : Fits b) : flipBitM b i = some (flipBit b i) := by
  rw [← flipBitC_eq]
  unfold flipBitM flipBitC
  simp only [Option.bind_eq_bind, Option.pure_def]
  rw [fit?_le _ (wordIdx_succ_le i hi)]
  simp only [Option.bind_some]
  rw [ensureCapacityM_eq _ _ h]
  rfl

theorem rangeLoopM_eq (whole : W → Int → W × Int) (act : W → Int → Nat → W × Int) (i1 i2 lb : Nat) (n : Nat) :
    ∀ (d : List W) (s : Int) (i j : Nat), i + n ≤ d.length → d.length ≤ maxInt →
      rangeLoopM whole act i1 i2 lb d s i j n = some (rangeLoop whole act i1 i2 lb d s i j n) := by
  induction n with
  | zero => intro d s i j _ _; rfl
  | succ n ih =>
    intro d s i j h hm
    simp only [rangeLoopM, rangeLoop, Option.bind_eq_bind, Option.pure_def]
    rw [getW?_lt _ _ (by omega)]
    simp only [Option.bind_some]
    split
    · rw [setW?_lt _ _ _ (by omega)]
      simp only [Option.bind_some]
      rw [fit?_le _ (by omega)]
      simp only [Option.bind_some]
      exact ih _ _ _ _ (by simp; omega) (by simp; omega)
    · rw [setW?_lt _ _ _ (by omega)]
      simp only [Option.bind_some]
      rw [fit?_le _ (by omega)]
      simp only [Option.bind_some]
      exact ih _ _ _ _ (by simp; omega) (by simp; omega)

theorem runRangeM_eq (whole : W → Int → W × Int) (act : W → Int → Nat → W × Int) (b : T) (s e i1 i2 : Nat)
    (h : i1 ≤ i2 + 1) (h2 : i2 < b.data.length) (hm : b.data.length ≤ maxInt) :
    runRangeM whole act b s e i1 i2 = some (runRange whole act b s e i1 i2) := by
  unfold runRangeM runRange
  simp only [Option.bind_eq_bind, Option.pure_def]
  rw [rangeLoopM_eq _ _ _ _ _ _ _ _ _ _ (by omega) hm]
  rfl

theorem ensure_length_le (b : T) (n : Nat) : (ensureCapacity b n).data.length ≤ max (b.data.length * 2) n := by
  unfold ensureCapacity
  simp only
  split
  · simp only [List.length_append, List.length_replicate]; split <;> omega
  · omega

theorem setRangeM_eq (b : T) (s e : Nat) (hs : s ≤ maxInt) (he : e ≤ maxInt) (h : Fits b) :
    setRangeM b s e = some (setRange b s e) := by
  unfold setRangeM setRange
  simp only [Option.bind_eq_bind, Option.pure_def]
  generalize hse : (if s > e then (e, s) else (s, e)) = se
  have hle : se.1 ≤ se.2 ∧ se.2 ≤ maxInt := by rw [← hse]; split <;> simp <;> omega
  rw [fit?_le _ (wordIdx_succ_le _ hle.2)]
  simp only [Option.bind_some]
  rw [ensureCapacityM_eq _ _ h]
  simp only [Option.bind_some]
  have hlen := ensure_length b (wordIdx se.2 + 1)
  have hlen2 := ensure_length_le b (wordIdx se.2 + 1)
  have := wordIdx_mono _ _ hle.1
  have := wordIdx_succ_le _ hle.2
  exact runRangeM_eq _ _ _ _ _ _ _ (by omega) (by omega) (by unfold Fits at h; omega)

theorem flipRangeM_eq (b : T) (s e : Nat) (hs : s ≤ maxInt) (he : e ≤ maxInt) (h : Fits b) :
    flipRangeM b s e = some (flipRange b s e) := by
  unfold flipRangeM flipRange
  simp only [Option.bind_eq_bind, Option.pure_def]
  generalize hse : (if s > e then (e, s) else (s, e)) = se
  have hle : se.1 ≤ se.2 ∧ se.2 ≤ maxInt := by rw [← hse]; split <;> simp <;> omega
  rw [fit?_le _ (wordIdx_succ_le _ hle.2)]
  simp only [Option.bind_some]
  rw [ensureCapacityM_eq _ _ h]
  simp only [Option.bind_some]
  have hlen := ensure_length b (wordIdx se.2 + 1)
  have hlen2 := ensure_length_le b (wordIdx se.2 + 1)
  have := wordIdx_mono _ _ hle.1
  have := wordIdx_succ_le _ hle.2
  exact runRangeM_eq _ _ _ _ _ _ _ (by omega) (by omega) (by unfold Fits at h; omega)

theorem clearRangeM_eq (b : T) (s e : Nat) (h : Fits b) : clearRangeM b s e = some (clearRange b s e) := by
  unfold clearRangeM clearRange
  simp only [Option.bind_eq_bind, Option.pure_def]
  generalize hse : (if s > e then (e, s) else (s, e)) = se
  have hle : se.1 ≤ se.2 := by rw [← hse]; split <;> simp <;> omega
  have := wordIdx_mono _ _ hle
  have hm : b.data.length ≤ maxInt := by unfold Fits at h; omega
  split
  · rfl
  · rename_i h1
    split
    · rw [fit?_le _ (by rw [shl_eq]; exact h)]
      simp only [Option.bind_some]
      exact runRangeM_eq _ _ _ _ _ _ _ (by omega) (by omega) hm
    · exact runRangeM_eq _ _ _ _ _ _ _ (by omega) (by omega) hm

theorem scanUp_lt (test : W → W → Bool) (word : W) (n : Nat) : ∀ j r, scanUp test word j n = some r → r < j + n := by
  induction n with
  | zero => intro j r h; simp [scanUp] at h
  | succ n ih =>
    intro j r h
    simp only [scanUp] at h
    split at h
    · have : j = r := by simpa using h
      omega
    · have := ih _ _ h; omega

theorem scanDown_lt (test : W → W → Bool) (word : W) (n : Nat) : ∀ r, scanDown test word n = some r → r < n := by
  induction n with
  | zero => intro r h; simp [scanDown] at h
  | succ n ih =>
    intro r h
    simp only [scanDown] at h
    split at h
    · have : n = r := by simpa using h
      omega
    · have := ih _ h; omega

theorem idxM_eq (i j : Nat) (h : i * 64 + j ≤ maxInt) : idxM i j = some (i <<< abpw + j) := by
  unfold idxM
  simp only [Option.bind_eq_bind]
  rw [fit?_le _ (by rw [shl_eq]; omega)]
  simp only [Option.bind_some]
  rw [fit?_le _ (by rw [shl_eq]; omega)]

theorem nextLoopM_eq (skip : W) (test : W → W → Bool) (d : List W) (hd : d.length * 64 ≤ maxInt) (n : Nat) :
    ∀ i fb, n ≤ d.length - i → fb ≤ 64 →
    nextLoopM skip test d i fb n = some (nextLoop skip test d i fb n) := by
  induction n with
  | zero => intro i fb _ _; rfl
  | succ n ih =>
    intro i fb h hfb
    simp only [nextLoopM, nextLoop, Option.bind_eq_bind, Option.pure_def]
    rw [getW?_lt _ _ (by omega)]
    simp only [Option.bind_some]
    generalize hin : (if getW d i != skip then scanUp test (getW d i) fb (dbpw - fb) else none) = inner
    cases inner with
    | some j =>
      have hj : j < 64 := by
        split at hin
        · have := scanUp_lt _ _ _ _ _ hin; rw [dbpw_eq] at this; omega
        · cases hin
      simp only
      rw [idxM_eq _ _ (by omega)]
      rfl
    | none =>
      simp only
      rw [fit?_le _ (by omega)]
      simp only [Option.bind_some]
      exact ih _ _ (by omega) (by omega)

theorem prevLoopM_eq (skip : W) (test : W → W → Bool) (d : List W) (hd : d.length * 64 ≤ maxInt) (n : Nat) :
    ∀ fb, n ≤ d.length → fb ≤ 63 →
    prevLoopM skip test d fb n = some (prevLoop skip test d fb n) := by
  induction n with
  | zero => intro fb _ _; rfl
  | succ n ih =>
    intro fb h hfb
    simp only [prevLoopM, prevLoop, Option.bind_eq_bind, Option.pure_def]
    rw [getW?_lt _ _ (by omega)]
    simp only [Option.bind_some]
    generalize hin : (if getW d n != skip then scanDown test (getW d n) (fb + 1) else none) = inner
    cases inner with
    | some j =>
      have hj : j < 64 := by
        split at hin
        · have := scanDown_lt _ _ _ _ hin; omega
        · cases hin
      simp only
      rw [idxM_eq _ _ (by omega)]
      rfl
    | none => exact ih _ (by omega) (by omega)

theorem bitIndex_le (s : Nat) : bitIndexForMask (wordMask s) ≤ 63 := by
  rw [bitIndexForMask_wordMask]; omega

theorem nextSetM_eq (b : T) (s : Nat) (h : Fits b) : nextSetM b s = some (nextSet b s) := by
  unfold nextSetM nextSet
  simp only [Option.bind_eq_bind, Option.pure_def]
  rw [nextLoopM_eq _ _ _ h _ _ _ (Nat.le_refl _) (by have := bitIndex_le s; omega)]
  simp only [Option.bind_some]
  generalize nextLoop 0#64 testSet b.data (wordIdx s) (bitIndexForMask (wordMask s)) (b.data.length - wordIdx s) = res
  cases res <;> rfl

theorem nextClearM_eq (b : T) (s : Nat) (h : Fits b) : nextClearM b s = some (nextClear b s) := by
  unfold nextClearM nextClear
  simp only [Option.bind_eq_bind, Option.pure_def]
  rw [nextLoopM_eq _ _ _ h _ _ _ (Nat.le_refl _) (by have := bitIndex_le s; omega)]
  simp only [Option.bind_some]
  generalize nextLoop (BitVec.allOnes 64) testClear b.data (wordIdx s) (bitIndexForMask (wordMask s))
    (b.data.length - wordIdx s) = res
  cases res with
  | some r => rfl
  | none =>
    simp only
    rw [fit?_le _ (by rw [dbpw_eq]; exact h)]
    rfl

theorem previousSetM_eq (b : T) (s : Nat) (h : Fits b) : previousSetM b s = some (previousSet b s) := by
  unfold previousSetM previousSet
  simp only [Option.bind_eq_bind, Option.pure_def]
  generalize hp : (if wordIdx s + 1 > b.data.length then (b.data.length, 63)
    else (wordIdx s + 1, bitIndexForMask (wordMask s))) = p
  have hle : p.1 ≤ b.data.length ∧ p.2 ≤ 63 := by
    have := bitIndex_le s
    rw [← hp]; split <;> simp only <;> omega
  rw [prevLoopM_eq _ _ _ h _ _ hle.1 hle.2]
  simp only [Option.bind_some]
  generalize prevLoop 0#64 testSet b.data p.2 p.1 = res
  cases res <;> rfl

theorem previousClearM_eq (b : T) (s : Nat) (h : Fits b) : previousClearM b s = some (previousClear b s) := by
  unfold previousClearM previousClear
  simp only [Option.bind_eq_bind, Option.pure_def]
  split
  · rfl
  · rw [prevLoopM_eq _ _ _ h _ _ (by omega) (bitIndex_le s)]
    simp only [Option.bind_some]
    generalize prevLoop (BitVec.allOnes 64) testClear b.data (bitIndexForMask (wordMask s)) (wordIdx s + 1) = res
    cases res <;> rfl

theorem firstSetM_eq (b : T) (h : Fits b) : firstSetM b = some (firstSet b) := nextSetM_eq b 0 h

theorem lastSetM_eq (b : T) (h : Fits b) : lastSetM b = some (lastSet b) := by
  unfold lastSetM lastSet
  simp only [Option.bind_eq_bind]
  rw [fit?_le _ (by rw [shl_eq]; exact h)]
  simp only [Option.bind_some]
  exact previousSetM_eq b _ h

theorem trimLoopM_eq (d : List W) (hd : d.length ≤ maxInt) (n : Nat) (h : n ≤ d.length) :
    trimLoopM d n = some (trimLoop d n) := by
  induction n with
  | zero => rfl
  | succ n ih =>
    simp only [trimLoopM, trimLoop, Option.bind_eq_bind, Option.pure_def]
    rw [getW?_lt _ _ (by omega)]
    simp only [Option.bind_some]
    split
    · rw [fit?_le _ (by omega)]; rfl
    · exact ih (by omega)

theorem trimM_eq (b : T) (h : b.data.length ≤ maxInt) : trimM b = some (trim b) := by
  unfold trimM trim
  simp only [Option.bind_eq_bind, Option.pure_def]
  rw [trimLoopM_eq _ h _ (Nat.le_refl _)]
  simp only [Option.bind_some]
  generalize trimLoop b.data b.data.length = res
  cases res <;> rfl

theorem dataM_eq (b : T) (h : b.data.length ≤ maxInt) : dataM b = some (data b) := by
  unfold dataM data
  simp only [Option.bind_eq_bind, Option.pure_def]
  rw [trimM_eq _ h]; rfl

theorem loadM_eq (b : T) (ws : List W) (h : ws.length ≤ maxInt) : loadM b ws = some (load b ws) := by
  unfold loadM load
  simp only [Option.bind_eq_bind, Option.pure_def]
  rw [trimM_eq _ h]
  simp only [Option.bind_some]
  rw [loadLoopC_eq _ _ _ (trim_length_le { b with data := ws })]
  rfl

theorem fits_len (b : T) (h : Fits b) : b.data.length ≤ maxInt := by unfold Fits at h; omega

/-- one call of a history: no `int` expression wraps and no word access is out of range, on every state that fits -/
theorem applyOpM_eq (p : Pair) (op : Op) (hp : ∀ r, Fits (p.get r)) (ha : ∀ a ∈ op.args, a ≤ maxInt) :
    applyOpM p op = some (applyOp p op) := by
  cases op with
  | set r i => simp only [applyOpM, applyOp, setBitM_eq _ _ (ha i (by simp [Op.args])) (hp r), Option.bind_eq_bind, Option.bind_some]
  | clear r i => simp only [applyOpM, applyOp, clearBitC_eq, Option.bind_eq_bind, Option.bind_some]
  | flip r i => simp only [applyOpM, applyOp, flipBitM_eq _ _ (ha i (by simp [Op.args])) (hp r), Option.bind_eq_bind, Option.bind_some]
  | setRange r s e =>
    simp only [applyOpM, applyOp, setRangeM_eq _ _ _ (ha s (by simp [Op.args])) (ha e (by simp [Op.args])) (hp r),
      Option.bind_eq_bind, Option.bind_some]
  | clearRange r s e => simp only [applyOpM, applyOp, clearRangeM_eq _ _ _ (hp r), Option.bind_eq_bind, Option.bind_some]
  | flipRange r s e =>
    simp only [applyOpM, applyOp, flipRangeM_eq _ _ _ (ha s (by simp [Op.args])) (ha e (by simp [Op.args])) (hp r),
      Option.bind_eq_bind, Option.bind_some]
  | load r ws => simp only [applyOpM, applyOp, loadM_eq _ ws (ha ws.length (by simp [Op.args])), Option.bind_eq_bind, Option.bind_some]
  | copy r q => rfl
  | clone r q => rfl
  | trim r => simp only [applyOpM, applyOp, trimM_eq _ (fits_len _ (hp r)), Option.bind_eq_bind, Option.bind_some]
  | ensure r n => simp only [applyOpM, applyOp, ensureCapacityM_eq _ _ (hp r), Option.bind_eq_bind, Option.bind_some]
  | reset r => rfl
  | data r => simp only [applyOpM, applyOp, dataM_eq _ (fits_len _ (hp r)), Option.bind_eq_bind, Option.bind_some]
  | loadData r q =>
    have hq := fits_len _ (hp q)
    have hd : (data (p.get q)).2.length ≤ maxInt := by
      have := trim_length_le (p.get q)
      show (trim (p.get q)).data.length ≤ maxInt
      omega
    simp only [applyOpM, applyOp, dataM_eq _ hq, loadM_eq _ _ hd, Option.bind_eq_bind, Option.bind_some]

/-! ### the cached count fits as well -/

theorem card_le (d : List W) : card d ≤ d.length * 64 := by
  induction d with
  | nil => simp [card]
  | cons w ws ih =>
    have := popcount_le w
    simp only [card, List.length_cons]
    omega

/-! ### the hypothesis and the checks are not idle -/

/-- on a storage of 2^57 words or more `LastSet` would wrap (`len(b.data) << 6`) — the bound in `Fits` is sharp -/
theorem lastSetM_overflow (b : T) (h : ¬ Fits b) : lastSetM b = none := by
  unfold lastSetM
  simp only [Option.bind_eq_bind]
  rw [fit?_gt _ (by rw [shl_eq]; unfold Fits at h; omega)]
  rfl

/-- the half-open rewrite of `ClearRange` (ind6-c08-a) wraps at `end = math.MaxInt`, whatever the bit set -/
theorem clearRangeHalfOpenM_overflow (b : T) (s : Nat) (hs : s ≤ maxInt) : clearRangeHalfOpenM b s maxInt = none := by
  unfold clearRangeHalfOpenM
  simp only [Option.bind_eq_bind]
  have : (if s > maxInt then (maxInt, s) else (s, maxInt)).2 = maxInt := by
    split
    · omega
    · rfl
  rw [this, fit?_gt _ (by omega)]
  rfl


/-! ### whole histories: a bound on the storage that every history of "small" calls keeps

`Fits` is not kept by arbitrary calls (doubling a storage of 2^56 words leaves it), so the history theorem carries a
bound on the arguments that STORE something: indexes below 2^61, `EnsureCapacity` up to 2^55 words, `Load` of up to
2^56 words.  Then no storage ever exceeds 2^56 words (2^59 bytes — far beyond what `make` can return), and calls that
never allocate (`Clear`, `ClearRange`) take every argument up to `math.MaxInt`. -/

def lenBound : Nat := 72057594037927936
theorem lenBound_eq : lenBound = 2 ^ 56 := by decide

def LenB (b : T) : Prop := b.data.length ≤ lenBound

theorem lenB_fits (b : T) (h : LenB b) : Fits b := by
  unfold LenB lenBound at h; unfold Fits; rw [maxInt_eq]; omega

/-- sharper than `ensure_length_le`: growth happens only when more was asked for than there is -/
theorem ensure_length_le2 (b : T) (n : Nat) : (ensureCapacity b n).data.length ≤ max b.data.length (2 * n) := by
  unfold ensureCapacity
  simp only
  split
  · simp only [List.length_append, List.length_replicate]; split <;> omega
  · omega

/-- the arguments of a call are "small": see the section comment -/
def Op.Small : Op → Prop
  | .set _ i | .flip _ i => i < 2 ^ 61
  | .setRange _ s e | .flipRange _ s e => s < 2 ^ 61 ∧ e < 2 ^ 61
  | .clear _ i => i ≤ maxInt
  | .clearRange _ s e => s ≤ maxInt ∧ e ≤ maxInt
  | .ensure _ n => n ≤ 2 ^ 55
  | .load _ ws => ws.length ≤ 2 ^ 56
  | _ => True

theorem small_args (op : Op) (h : op.Small) : ∀ a ∈ op.args, a ≤ maxInt := by
  intro a ha
  cases op <;> simp only [Op.args, List.mem_cons, List.not_mem_nil, or_false] at ha <;>
    simp only [Op.Small] at h <;> simp only [maxInt_eq] at * <;>
    first | omega | (rcases ha with ha | ha <;> omega) | cases ha

theorem lenB_ensure (b : T) (n : Nat) (hb : LenB b) (hn : n ≤ 2 ^ 55) : LenB (ensureCapacity b n) := by
  have := ensure_length_le2 b n
  unfold LenB lenBound at *; omega

theorem wordIdx_small (i : Nat) (h : i < 2 ^ 61) : wordIdx i + 1 ≤ 2 ^ 55 := by rw [wordIdx_eq]; omega

theorem rangeWords_small (s e : Nat) (hs : s < 2 ^ 61) (he : e < 2 ^ 61) : rangeWords s e ≤ 2 ^ 55 := by
  unfold rangeWords
  split <;> exact wordIdx_small _ (by assumption)

theorem setRangeIP_length (b : T) (s e : Nat) : (setRangeIP b s e).data.length = b.data.length := by
  unfold setRangeIP; exact runRange_length _ _ _ _ _ _ _
theorem flipRangeIP_length (b : T) (s e : Nat) : (flipRangeIP b s e).data.length = b.data.length := by
  unfold flipRangeIP; exact runRange_length _ _ _ _ _ _ _

theorem load_length_le (b : T) (ws : List W) : (load b ws).data.length ≤ ws.length := by
  rw [load_data_eq]; exact trim_length_le { b with data := ws }

/-- one small call keeps both storages within the bound -/
theorem applyOp_lenB (p : Pair) (op : Op) (hp : ∀ r, LenB (p.get r)) (hs : op.Small) : ∀ r, LenB ((applyOp p op).get r) := by
  have put : ∀ (q : Reg) (v : T), LenB v → ∀ r, LenB ((p.put q v).get r) := by
    intro q v hv r; rw [get_put]; split
    · exact hv
    · exact hp r
  cases op with
  | set q i =>
    apply put; unfold LenB; rw [setBit_split, setBitIP_length]; exact lenB_ensure _ _ (hp q) (wordIdx_small i hs)
  | flip q i =>
    apply put; unfold LenB; rw [flipBit_split, flipBitIP_length]; exact lenB_ensure _ _ (hp q) (wordIdx_small i hs)
  | clear q i => apply put; unfold LenB; rw [clearBit_length]; exact hp q
  | setRange q s e =>
    apply put; unfold LenB; rw [setRange_split, setRangeIP_length]
    exact lenB_ensure _ _ (hp q) (rangeWords_small s e hs.1 hs.2)
  | flipRange q s e =>
    apply put; unfold LenB; rw [flipRange_split, flipRangeIP_length]
    exact lenB_ensure _ _ (hp q) (rangeWords_small s e hs.1 hs.2)
  | clearRange q s e => apply put; unfold LenB; rw [clearRange_length]; exact hp q
  | load q ws =>
    apply put; have := load_length_le (p.get q) ws
    simp only [Op.Small] at hs; unfold LenB lenBound; omega
  | copy q q' => apply put; exact hp q'
  | clone q q' => apply put; exact hp q'
  | trim q => apply put; have := trim_length_le (p.get q); have := hp q; unfold LenB at *; omega
  | ensure q n => apply put; exact lenB_ensure _ _ (hp q) hs
  | reset q => apply put; unfold LenB reset lenBound; simp
  | data q => apply put; have := trim_length_le (p.get q); have := hp q; unfold LenB at *; exact Nat.le_trans ‹_› ‹_›
  | loadData q q' =>
    have h1 : LenB (trim (p.get q')) := by
      have := trim_length_le (p.get q'); have := hp q'; unfold LenB at *; omega
    intro r
    show LenB (((p.put q' (trim (p.get q'))).put q (load _ (trim (p.get q')).data)).get r)
    rw [get_put]; split
    · exact Nat.le_trans (load_length_le _ _) h1
    · rw [get_put]; split
      · exact h1
      · exact hp r

theorem foldlM_applyOpM (ops : List Op) : ∀ p : Pair, (∀ r, LenB (p.get r)) → (∀ op ∈ ops, op.Small) →
    ops.foldlM applyOpM p = some (ops.foldl applyOp p) := by
  induction ops with
  | nil => intro p _ _; rfl
  | cons op ops ih =>
    intro p hp hs
    have h1 := hs op (List.mem_cons_self ..)
    rw [List.foldlM_cons, applyOpM_eq p op (fun r => lenB_fits _ (hp r)) (small_args op h1)]
    simp only [Option.bind_eq_bind, Option.bind_some, List.foldl_cons]
    exact ih _ (applyOp_lenB p op hp h1) (fun o ho => hs o (List.mem_cons_of_mem _ ho))

theorem lenB_init : ∀ r, LenB (({} : Pair).get r) := by
  intro r; cases r <;> (unfold LenB lenBound; simp [Pair.get])

/-- a whole history with checked `int` arithmetic and checked word accesses -/
def runM (ops : List Op) : Option Pair := ops.foldlM applyOpM {}

theorem runM_eq (ops : List Op) (h : ∀ op ∈ ops, op.Small) : runM ops = some (run ops) :=
  foldlM_applyOpM ops {} lenB_init h

theorem run_lenB (ops : List Op) (h : ∀ op ∈ ops, op.Small) : ∀ r, LenB ((run ops).get r) := by
  have key : ∀ (l : List Op) (p : Pair), (∀ r, LenB (p.get r)) → (∀ op ∈ l, op.Small) → ∀ r, LenB ((l.foldl applyOp p).get r) := by
    intro l
    induction l with
    | nil => intro p hp _; exact hp
    | cons op l ih =>
      intro p hp hs
      exact ih _ (applyOp_lenB p op hp (hs op (List.mem_cons_self ..))) (fun o ho => hs o (List.mem_cons_of_mem _ ho))
  exact key ops {} lenB_init h

/-- the cached count never leaves `[0, 64·len]` between calls: it fits an `int` whenever the storage does -/
theorem count_bounds (b : T) (h : Inv b) : 0 ≤ b.set ∧ b.set ≤ Int.ofNat (b.data.length * 64) := by
  unfold Inv at h
  have := card_le b.data
  rw [h]; simp only [Int.ofNat_eq_natCast]; omega

/-- the bound on the stored indexes is needed: doubling a storage of 2^56+1 words passes 2^57 words, and then `LastSet`
    wraps; and `EnsureCapacity` itself wraps (`size *= 2`) on a storage of 2^62 words -/
theorem ensureCapacityM_overflow (b : T) (n : Nat) (h : maxInt < b.data.length * 2) (hn : b.data.length < n) :
    ensureCapacityM b n = none := by
  unfold ensureCapacityM
  simp only [Option.bind_eq_bind]
  rw [if_pos hn, fit?_gt _ h]; rfl

end BS
