import Model.TaskQueue
/-! C15: the dispatcher's backlog as the code has it — a Go
    slice: backing array, length — with the three statements of `process()` that touch it, refining the list operations
    `backlog ++ [t]`, `b :: rest ↦ rest`, `b :: rest ↦ rest ++ [t]` of `TQ.next`; and a ring buffer variant whose `grow`
    copies the two segments in the wrong order (seeded ind6-c15-b / ind7-c15-b) as the contrast.  Core Lean only. -/
namespace TQSlice

/-- a Go slice of tasks: backing array (`none` = nil slot) and length; capacity = `arr.length` -/
structure Slice where
  arr : List (Option Nat) := []
  len : Nat := 0
deriving DecidableEq, Repr

/-- well-formed: the first `len` slots hold the tasks `live`, the rest is spare capacity -/
def Holds (s : Slice) (live : List Nat) : Prop := ∃ spare, s.arr = live.map some ++ spare ∧ s.len = live.length

/-- `copy(b, b[1:])` on `b = arr[:len]`: slots `0 … len−2` receive slots `1 … len−1`, the others are untouched -/
def copyDown (a : List (Option Nat)) (len : Nat) : List (Option Nat) := (a.drop 1).take (len - 1) ++ a.drop (len - 1)

/-- `backlog = append(backlog, task)`: in place while there is capacity, else into a new array with `grow` spare slots -/
def push (s : Slice) (t : Nat) (grow : Nat) : Slice :=
  if s.len < s.arr.length then { arr := s.arr.set s.len (some t), len := s.len + 1 }
  else { arr := s.arr.take s.len ++ [some t] ++ List.replicate grow none, len := s.len + 1 }

/-- `case <-ready`: `tasks <- backlog[0]; copy(backlog, backlog[1:]); backlog[len-1] = nil; backlog = backlog[:len-1]` -/
def popFront (s : Slice) : Option Nat × Slice :=
  (s.arr.headD none, { arr := (copyDown s.arr s.len).set (s.len - 1) none, len := s.len - 1 })

/-- bounded branch: `tasks <- backlog[0]; copy(backlog, backlog[1:]); backlog[len-1] = task` -/
def rotate (s : Slice) (t : Nat) : Option Nat × Slice :=
  (s.arr.headD none, { arr := (copyDown s.arr s.len).set (s.len - 1) (some t), len := s.len })

theorem copyDown_holds (x : Nat) (rest : List Nat) (spare : List (Option Nat)) :
    copyDown ((x :: rest).map some ++ spare) (rest.length + 1) =
      rest.map some ++ ((x :: rest).map some ++ spare).drop rest.length := by
  simp [copyDown, List.take_append]

theorem drop_last (x : Nat) (rest : List Nat) (spare : List (Option Nat)) :
    ∃ y, ((x :: rest).map some ++ spare).drop rest.length = some y :: spare := by
  induction rest generalizing x with
  | nil => exact ⟨x, by simp⟩
  | cons r rest ih =>
    obtain ⟨y, hy⟩ := ih r
    exact ⟨y, by simpa using hy⟩

theorem set_mid (l : List (Option Nat)) (y v : Option Nat) (spare : List (Option Nat)) :
    (l ++ y :: spare).set l.length v = l ++ v :: spare := by
  induction l with
  | nil => rfl
  | cons a l ih => simp [ih]

/-- `append` refines `backlog ++ [t]` -/
theorem push_refines (s : Slice) (live : List Nat) (t grow : Nat) (h : Holds s live) : Holds (push s t grow) (live ++ [t]) := by
  obtain ⟨spare, ha, hl⟩ := h
  unfold push
  split
  · next hlt =>
    cases spare with
    | nil => simp [ha, hl] at hlt
    | cons y spare =>
      refine ⟨spare, ?_, by simp [hl]⟩
      have := set_mid (live.map some) y (some t) spare
      simp only [List.length_map] at this
      simp [ha, hl, this]
  · refine ⟨List.replicate grow none, ?_, by simp [hl]⟩
    simp [ha, hl, List.take_append]

/-- the dequeue of `case <-ready` hands off the head and refines `b :: rest ↦ rest` -/
theorem popFront_refines (s : Slice) (x : Nat) (rest : List Nat) (h : Holds s (x :: rest)) :
    (popFront s).1 = some x ∧ Holds (popFront s).2 rest := by
  obtain ⟨spare, ha, hl⟩ := h
  have hlen : s.len = rest.length + 1 := by simpa using hl
  obtain ⟨y, hy⟩ := drop_last x rest spare
  refine ⟨by simp [popFront, ha], none :: spare, ?_, by simp [popFront, hlen]⟩
  have hc := copyDown_holds x rest spare
  simp only [popFront, ha, hlen, hc, hy, Nat.add_sub_cancel]
  have := set_mid (rest.map some) (some y) none spare
  simp only [List.length_map] at this
  exact this

/-- the bounded branch hands off the head and refines `b :: rest ↦ rest ++ [t]` -/
theorem rotate_refines (s : Slice) (x t : Nat) (rest : List Nat) (h : Holds s (x :: rest)) :
    (rotate s t).1 = some x ∧ Holds (rotate s t).2 (rest ++ [t]) := by
  obtain ⟨spare, ha, hl⟩ := h
  have hlen : s.len = rest.length + 1 := by simpa using hl
  obtain ⟨y, hy⟩ := drop_last x rest spare
  refine ⟨by simp [rotate, ha], spare, ?_, by simp [rotate, hlen]⟩
  have hc := copyDown_holds x rest spare
  simp only [rotate, ha, hlen, hc, hy, Nat.add_sub_cancel]
  have := set_mid (rest.map some) (some y) (some t) spare
  simp only [List.length_map] at this
  simp [this]

/-! ### the three rules of `TQ.next` that change the backlog are these slice statements -/
open TQ in
/-- whenever a slice holds the backlog of a protocol state, the Go statement of the rule that fires leaves a slice that
    holds the backlog of the successor state, and hands to `tasks` the very task the rule appends to `tq` -/
theorem slice_refines_rules (c : Cfg) (s s' : S) (sl : Slice) (grow : Nat) (h : Holds sl s.backlog) :
    (next c s .toBacklog = some s' → ∀ t, s.pc = .got t → Holds (push sl t grow) s'.backlog) ∧
    (next c s .sendBacklog2 = some s' →
      Holds (popFront sl).2 s'.backlog ∧ ∃ b, (popFront sl).1 = some b ∧ s'.tq = s.tq ++ [b]) ∧
    (next c s .sendBacklog = some s' → ∀ t, s.pc = .sb t →
      Holds (rotate sl t).2 s'.backlog ∧ ∃ b, (rotate sl t).1 = some b ∧ s'.tq = s.tq ++ [b]) := by
  refine ⟨?_, ?_, ?_⟩
  · intro hn t hpc
    simp only [next, hpc] at hn
    split at hn
    · cases hn; exact push_refines sl s.backlog t grow h
    · cases hn
  · intro hn
    simp only [next] at hn
    split at hn
    · next b rest hp hb =>
      split at hn
      · cases hn
        rw [hb] at h
        obtain ⟨h1, h2⟩ := popFront_refines sl b rest h
        exact ⟨h2, b, h1, rfl⟩
      · cases hn
    · cases hn
  · intro hn t hpc
    simp only [next] at hn
    split at hn
    · next t' b rest hp hb =>
      split at hn
      · cases hn
        rw [hpc] at hp; cases hp
        rw [hb] at h
        obtain ⟨h1, h2⟩ := rotate_refines sl b t rest h
        exact ⟨h2, b, h1, rfl⟩
      · cases hn
    · cases hn

/-! ### contrast: a ring buffer whose `grow` keeps physical instead of logical order -/

structure Ring where
  slots : List (Option Nat)
  head : Nat
  count : Nat
deriving DecidableEq, Repr

/-- the tasks in logical order -/
def Ring.view (r : Ring) : List Nat :=
  ((List.range r.count).map fun i => (r.slots.getD ((r.head + i) % r.slots.length) none)).filterMap id

def Ring.pop (r : Ring) : Option Nat × Ring :=
  (r.slots.getD r.head none, { slots := r.slots.set r.head none, head := (r.head + 1) % r.slots.length, count := r.count - 1 })

/-- `grow` as it should be (unwrap: `slots[head:]` first, then `slots[:head]`) and as the seeded change has it -/
def Ring.grow (r : Ring) (wrong : Bool) : Ring :=
  let n := r.slots.length
  let unwrapped := if wrong then r.slots.take r.head ++ r.slots.drop r.head else r.slots.drop r.head ++ r.slots.take r.head
  { slots := unwrapped ++ List.replicate n none, head := 0, count := r.count }

def Ring.push (r : Ring) (t : Nat) (wrong : Bool) : Ring :=
  let r := if r.count = r.slots.length then r.grow wrong else r
  { r with slots := r.slots.set ((r.head + r.count) % r.slots.length) (some t), count := r.count + 1 }

def pushAll (r : Ring) (ts : List Nat) (wrong : Bool) : Ring := ts.foldl (fun r t => r.push t wrong) r

/-- backlog builds up (0–3 in a ring of 4), is partly drained (0, 1 handed off: the head moves), is refilled to capacity
    (4, 5 wrap around) and must grow for task 6: the correct `grow` keeps submission order, the rotated one hands the
    wrapped tasks 4, 5 out BEFORE 2, 3 -/
theorem contrast_rotated_grow_breaks_order :
    let r0 : Ring := { slots := List.replicate 4 none, head := 0, count := 0 }
    let drained := ((pushAll r0 [0, 1, 2, 3] false).pop.2).pop.2
    (pushAll drained [4, 5, 6] false).view = [2, 3, 4, 5, 6] ∧ (pushAll drained [4, 5, 6] true).view = [4, 5, 2, 3, 6] := by
  decide

end TQSlice
